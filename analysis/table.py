"""P5: decision-table extraction — enumerate acyclic paths with the branch conditions taken."""
from .cfg import Cfg, term_succs
from .flow import DefUse, switch_info, op_local, op_const, resolve_copy
from .facts import norm


def place_str(body, p):
    s = body.name_of(p["l"])
    for e in p["proj"]:
        if e == "deref":
            s = "*" + s
        elif isinstance(e, dict) and "f" in e:
            s += "." + e["f"]
        elif isinstance(e, dict) and "dc" in e:
            s += "@" + e["dc"]
        elif isinstance(e, dict) and "idx" in e:
            s += "[_%d]" % e["idx"]
        else:
            s += "[..]"
    return s


def describe_bool(body, du, op, depth=12):
    """Describe the boolean operand of a switch: ('cmp', op, a, b) | ('call', callee, args) | ('not', x) | ('local', name)."""
    l = op_local(op)
    if l is None:
        c = op_const(op)
        return ("const", c)
    ds = du.defs.get(l, [])
    if len(ds) != 1 or depth <= 0:
        return ("local", body.name_of(l))
    (_b, _i, kind, s) = ds[0]
    if kind == "assign":
        rv = s["rhs"]
        if rv["k"] == "binop":
            return ("cmp", rv["op"], describe_val(body, du, rv["a"], depth - 1), describe_val(body, du, rv["b"], depth - 1))
        if rv["k"] == "unop" and rv["op"] == "Not":
            return ("not", describe_bool(body, du, rv["a"], depth - 1))
        if rv["k"] == "use":
            return describe_bool(body, du, rv["a"], depth - 1)
        if rv["k"] == "discr":
            return ("discr", place_str(body, rv["p"]))
    elif kind == "call":
        return ("call", norm(s.get("callee") or "<fnptr>"), tuple(describe_val(body, du, a, depth - 1) for a in s["args"]))
    return ("local", body.name_of(l))


def describe_val(body, du, op, depth=12):
    """Symbolic description of a value operand (bounded)."""
    if op is None:
        return None
    if op["k"] == "const":
        if "v" in op:
            return ("const", op["v"])
        if "fn" in op:
            return ("fn", norm(op["fn"]["callee"]))
        if "promoted" in op:
            pbs = body.facts.by_npath.get(norm(op["promoted"])) or []
            pbs = [b for b in pbs if b.path == op["promoted"]] or pbs
            if pbs and depth > 0:
                pb = pbs[0]
                return describe_val(pb, DefUse(pb), {"k": "copy", "p": {"l": 0, "proj": []}}, depth - 1)
        if "static" in op:
            return ("static", norm(op["static"]))
        return ("const", op.get("dbg"))
    p = op["p"]
    if p["proj"]:
        # a field / deref read: describe base + projection
        base = {"k": "copy", "p": {"l": p["l"], "proj": []}}
        b = describe_val(body, du, base, depth - 1) if depth > 0 else ("local", body.name_of(p["l"]))
        idx = tuple(describe_val(body, du, {"k": "copy", "p": {"l": e["idx"], "proj": []}}, depth - 1) for e in p["proj"] if isinstance(e, dict) and "idx" in e) if depth > 0 else ()
        if idx:
            return ("proj", b, _projs(p["proj"]), idx)
        return ("proj", b, _projs(p["proj"]))
    l = p["l"]
    if 1 <= l <= body.argc:
        return ("param", l, body.name_of(l))
    ds = du.defs.get(l, [])
    if len(ds) != 1 or depth <= 0:
        return ("local", body.name_of(l))
    (_b, _i, kind, s) = ds[0]
    if kind == "assign":
        rv = s["rhs"]
        k = rv["k"]
        if k in ("use",):
            return describe_val(body, du, rv["a"], depth - 1)
        if k in ("ref", "rawptr"):
            return ("ref", describe_val(body, du, {"k": "copy", "p": rv["p"]}, depth - 1))
        if k == "cast":
            return ("cast", rv["to"], describe_val(body, du, rv["a"], depth - 1))
        if k == "binop":
            return ("binop", rv["op"], describe_val(body, du, rv["a"], depth - 1), describe_val(body, du, rv["b"], depth - 1))
        if k == "agg":
            if "adt" in rv:
                return ("agg", norm(rv["adt"]), rv["variant"], tuple(describe_val(body, du, o, depth - 1) for o in rv["ops"]))
            if "closure" in rv:
                return ("closure", norm(rv["closure"]))
            return ("tuple", tuple(describe_val(body, du, o, depth - 1) for o in rv["ops"]))
        if k == "discr":
            return ("discr", place_str(body, rv["p"]))
    elif kind == "call":
        return ("call", norm(s.get("callee") or "<fnptr>"), tuple(describe_val(body, du, a, depth - 1) for a in s["args"]))
    return ("local", body.name_of(l))


def _projs(proj):
    out = []
    for e in proj:
        if e == "deref":
            out.append("*")
        elif isinstance(e, dict) and "f" in e:
            out.append("." + e["f"])
        elif isinstance(e, dict) and "dc" in e:
            out.append("@" + e["dc"])
        else:
            out.append("[]")
    return "".join(out)


def _unref(d):
    while isinstance(d, tuple) and len(d) == 2 and d[0] == "ref":
        d = d[1]
    return d


_ORD = {"lt": "Lt", "le": "Le", "gt": "Gt", "ge": "Ge"}
_NEG_CALL = {"::is_none": "::is_some", "::is_err": "::is_ok"}


def canon_bool(d, val):
    """Canonical form of a boolean guard and the value it takes on this edge.  The same test written as `a != b`,
    `!(a == b)`, `b > a`, `!(a <= b)`, `a.ne(&b)`, `x.is_none()` reaches the consumer as one shape:
      negations are folded into the value;  Ne -> Eq (value flipped);  Gt/Ge -> Lt/Le with swapped operands;
      a false Lt/Le -> the true Le/Lt with swapped operands;  PartialOrd/PartialEq method calls -> cmp / ::eq;
      is_none -> is_some, is_err -> is_ok (value flipped)."""
    while isinstance(d, tuple) and d and d[0] == "not":
        d, val = d[1], not val
    if isinstance(d, tuple) and d and d[0] == "call" and len(d) == 3:
        c = d[1]
        last = c.rsplit("::", 1)[-1]
        if "PartialOrd>::" in c and last in _ORD and len(d[2]) == 2:
            d = ("cmp", _ORD[last], _unref(d[2][0]), _unref(d[2][1]))
        elif c.endswith("PartialEq>::ne") or c == "std::cmp::PartialEq::ne":
            d, val = ("call", c[:-2] + "eq", d[2]), not val
        else:
            for neg, pos in _NEG_CALL.items():
                if c.endswith(neg) and (c.startswith("std::option::Option") or c.startswith("std::result::Result")):
                    d, val = ("call", c[:-len(neg)] + pos, d[2]), not val
                    break
    if isinstance(d, tuple) and d and d[0] == "cmp":
        op, a, b = d[1], d[2], d[3]
        if op == "Ne":
            op, val = "Eq", not val
        if op == "Gt":
            op, a, b = "Lt", b, a
        elif op == "Ge":
            op, a, b = "Le", b, a
        if op in ("Lt", "Le") and not val:
            op, a, b, val = ("Le" if op == "Lt" else "Lt"), b, a, True
        if op == "Eq" and repr(a) > repr(b):
            a, b = b, a
        d = ("cmp", op, a, b)
    return d, val


def is_eq_call(d, ty=None):
    """d is a (canonical) `PartialEq::eq` test, optionally on type `ty` (impl method or the trait's default `ne`)."""
    if not (isinstance(d, tuple) and d and d[0] == "call"):
        return False
    c = d[1]
    if c == "std::cmp::PartialEq::eq":
        return True
    return c.endswith("PartialEq>::eq") and (ty is None or c.startswith("<%s as " % ty))


def bool_origin(du, l, depth=12):
    """(block of the call that produced boolean local l, negated?) following copies and `!`; None if not a call result."""
    neg = False
    n = 0
    while n < depth:
        n += 1
        ds = du.defs.get(l, [])
        if len(ds) != 1:
            return None
        (bid, _i, kind, s) = ds[0]
        if kind == "call":
            return (bid, neg)
        if kind != "assign" or s["lhs"]["proj"]:
            return None
        rv = s["rhs"]
        if rv["k"] == "use" and rv["a"]["k"] in ("copy", "move") and not rv["a"]["p"]["proj"]:
            l = rv["a"]["p"]["l"]
        elif rv["k"] == "unop" and rv["op"] == "Not" and rv["a"]["k"] in ("copy", "move") and not rv["a"]["p"]["proj"]:
            l = rv["a"]["p"]["l"]
            neg = not neg
        else:
            return None
    return None


def outcome_on_path(body, du, path, call_bid):
    """The boolean result the call at block `call_bid` must have had for control to follow `path` (True/False), read
    off the switch that tests it further along the path; None when the path does not branch on it.  The value is
    followed ALONG THE PATH through copies and `!` (so `let c = a() || b(); if !c {..}` is understood on each of its
    paths: the local `c` has several definitions, only one of which lies on the path)."""
    path = list(path)
    if call_bid not in path:
        return None
    i = path.index(call_bid)
    t0 = body.blocks[call_bid]["term"]
    if t0["k"] != "call" or t0["dest"]["proj"]:
        return None
    prov = {t0["dest"]["l"]: False}      # local -> negated?
    for j in range(i + 1, len(path)):
        blk = body.blocks[path[j]]
        for s in blk["stmts"]:
            if s["k"] != "assign":
                continue
            l = s["lhs"]["l"]
            if s["lhs"]["proj"]:
                continue
            rv = s["rhs"]
            src = rv["a"]["p"]["l"] if rv["k"] in ("use", "unop") and rv.get("a") and rv["a"]["k"] in ("copy", "move") and not rv["a"]["p"]["proj"] else None
            if rv["k"] == "use" and src in prov:
                prov[l] = prov[src]
            elif rv["k"] == "unop" and rv["op"] == "Not" and src in prov:
                prov[l] = not prov[src]
            else:
                prov.pop(l, None)
        t = blk["term"]
        if t["k"] == "switch" and t.get("dty") == "bool" and op_local(t["discr"]) in prov and not t["discr"]["p"]["proj"] and j + 1 < len(path):
            nxt = path[j + 1]
            ones = [bb for v, bb in t["targets"] if int(v) == 1]
            zeros = [bb for v, bb in t["targets"] if int(v) == 0]
            if nxt in ones:
                val = True
            elif nxt in zeros:
                val = False
            elif nxt == t.get("otherwise") and bool(zeros) != bool(ones):
                val = bool(zeros)      # the otherwise edge of a bool switch that lists only 0 is the `true` edge, and vice versa
            else:
                return None
            return (not val) if prov[op_local(t["discr"])] else val
        if t["k"] == "call" and not t["dest"]["proj"]:
            prov.pop(t["dest"]["l"], None)
    return None


def result_outcomes(body, du, path):
    """Which outcome (`ok` / `err`) each call on `path` must have had, read off the path itself: the call's `Result`
    (or `Option`: Some = ok) is followed through moves, `?` (Try::branch -> Continue/Break), and the arm the path takes at
    a switch on its discriminant fixes the outcome.  Returns ({call block -> 'ok'|'err'}, feasible); feasible is False
    when the path takes the `Err` arm of a value it built as `Ok(..)` itself (or vice versa)."""
    path = list(path)
    env = {}
    out = {}
    OK = {"Ok": "ok", "Err": "err", "Continue": "ok", "Break": "err", "Some": "ok", "None": "err"}
    for idx, x in enumerate(path):
        blk = body.blocks[x]
        for st_ in blk["stmts"]:
            if st_["k"] != "assign":
                continue
            l = st_["lhs"]["l"]
            if st_["lhs"]["proj"]:
                env.pop(l, None)
                continue
            rv = st_["rhs"]
            src = rv["a"]["p"]["l"] if rv["k"] == "use" and rv["a"]["k"] in ("copy", "move") and not rv["a"]["p"]["proj"] else None
            if src is not None and src in env:
                env[l] = env[src]
            elif rv["k"] == "ref" and not rv["p"]["proj"] and rv["p"]["l"] in env:
                env[l] = env[rv["p"]["l"]]          # `&res` handed to is_ok()/is_some()
            elif rv["k"] == "unop" and rv["op"] == "Not" and rv["a"]["k"] in ("copy", "move") and not rv["a"]["p"]["proj"] and env.get(rv["a"]["p"]["l"], ("",))[0] == "test":
                v_ = env[rv["a"]["p"]["l"]]
                env[l] = ("test", v_[1], not v_[2])
            elif rv["k"] == "agg" and norm(rv.get("adt") or "") in ("std::result::Result", "std::option::Option"):
                a_ = body.facts.nadts.get(norm(rv["adt"])) or {"variants": []}
                vn = [v_["name"] for v_ in a_["variants"] if str(v_.get("discr")) == str(rv["variant"]) or v_["name"] == rv["variant"]]
                env[l] = ("known", vn[0]) if vn else None
                if env[l] is None:
                    env.pop(l)
            else:
                env.pop(l, None)
        t = blk["term"]
        if t["k"] == "call":
            c = norm(t.get("callee") or "")
            dl = t["dest"]["l"] if not t["dest"]["proj"] else None
            a0 = t["args"][0] if t["args"] else None
            a0l = a0["p"]["l"] if a0 is not None and a0["k"] in ("copy", "move") and not a0["p"]["proj"] else None
            val = None
            if c.endswith("Try>::branch") and a0l in env:
                v = env[a0l]
                val = ("cf", v[1]) if v[0] in ("res", "cf") else ("knowncf", v[1])
            elif c.endswith("from_residual"):
                val = ("known", "Err")
            elif c in ("std::result::Result::ok", "std::option::Option::ok_or", "std::option::Option::ok_or_else", "std::result::Result::map",
                       "std::result::Result::map_err", "std::option::Option::map", "std::result::Result::inspect", "std::option::Option::inspect",
                       "std::result::Result::inspect_err", "std::option::Option::copied", "std::option::Option::cloned", "std::result::Result::as_ref",
                       "std::option::Option::as_ref", "std::option::Option::as_mut") and a0l in env and env[a0l][0] in ("res", "cf", "known"):
                # adaptors that keep success a success and failure a failure (Ok <-> Some, Err <-> None): a branch on their
                # result still tells the outcome of the call behind the value
                val = env[a0l] if env[a0l][0] != "known" else ("known", {"Ok": "Some", "Err": "None", "Some": "Ok", "None": "Err"}.get(env[a0l][1], env[a0l][1]) if c in ("std::result::Result::ok", "std::option::Option::ok_or", "std::option::Option::ok_or_else") else env[a0l][1])
            elif c in _VARIANT_TESTS and a0l in env and env[a0l][0] in ("res", "cf"):
                # `res.is_ok()` / `is_some()` ..: a later branch on this bool fixes the outcome of the call behind `res`
                val = ("test", env[a0l][1], _VARIANT_TESTS[c] in ("Ok", "Some"))
            else:
                val = ("res", x)
            if dl is not None:
                env[dl] = val
        elif t["k"] == "switch" and idx + 1 < len(path):
            si = switch_info(body, du, x)
            dl_ = op_local(t["discr"])
            if t.get("dty") == "bool" and dl_ in env and not t["discr"]["p"]["proj"] and env[dl_][0] == "test":
                nxt = path[idx + 1]
                ones = [bb for v_, bb in t["targets"] if int(v_) == 1]
                zeros = [bb for v_, bb in t["targets"] if int(v_) == 0]
                bval = True if nxt in ones else False if nxt in zeros else (bool(zeros) if nxt == t.get("otherwise") and bool(zeros) != bool(ones) else None)
                if bval is not None:
                    _k, cid, pos = env[dl_]
                    r_ = "ok" if bval == pos else "err"
                    if out.get(cid, r_) != r_:
                        return out, False
                    out[cid] = r_
            elif si["kind"] == "discr" and not si["place"]["proj"] and si["place"]["l"] in env:
                v = env[si["place"]["l"]]
                nxt = path[idx + 1]
                names = [n for n, bb in si["arms"].items() if bb == nxt]
                if not names and nxt == t["otherwise"]:
                    names = list(si.get("rest") or [])
                names = set(names)
                if v[0] in ("res", "cf") and len(names) == 1:
                    r_ = OK.get(next(iter(names)))
                    if r_ is not None:
                        if out.get(v[1], r_) != r_:
                            return out, False
                        out[v[1]] = r_
                elif v[0] == "known" and names and v[1] not in names:
                    return out, False
                elif v[0] == "knowncf" and names and {"Ok": "Continue", "Err": "Break", "Some": "Continue", "None": "Break"}.get(v[1]) not in names:
                    return out, False
    return out, True


def value_on_path(body, path, local=0):
    """What the value held by `local` at the end of `path` was made from, following whole-value copies/moves BACKWARDS
    ALONG THE PATH (in a unit with a helper spliced in, the function's result is a copy of the helper's return slot, which
    is a copy of ...).  Returns ("const", v) | ("agg", adt, variant) | ("call", callee, block) | ("value",) for anything
    else | None when the path never writes it.  Only the last write on the path counts at every step."""
    path = list(path)
    pos = len(path)                 # look at blocks path[:pos]; within the block at pos-1 look at statements before `upto`
    upto = None
    l = local
    for _ in range(32):
        found = None
        for i in range(pos - 1, -1, -1):
            blk = body.blocks[path[i]]
            t = blk["term"]
            stmts = blk["stmts"] if (i != pos - 1 or upto is None) else blk["stmts"][:upto]
            # the terminator of a block writes after its statements; a call's destination is written on the edge to the
            # next block of the path, so it counts for every block but the last one looked at when `upto` cuts into it
            if (i != pos - 1 or upto is None) and t["k"] == "call" and not t["dest"]["proj"] and t["dest"]["l"] == l and i + 1 < len(path) + 1:
                found = ("call", i, None, t)
                break
            hit = None
            for j in range(len(stmts) - 1, -1, -1):
                s_ = stmts[j]
                if s_["k"] == "assign" and s_["lhs"]["l"] == l and not s_["lhs"]["proj"]:
                    hit = (j, s_)
                    break
            if hit is not None:
                found = ("assign", i, hit[0], hit[1])
                break
        if found is None:
            return None
        if found[0] == "call":
            return ("call", norm(found[3].get("callee") or ""), path[found[1]])
        rv = found[3]["rhs"]
        if rv["k"] == "use" and rv["a"]["k"] == "const":
            return ("const", rv["a"].get("v"))
        if rv["k"] == "agg" and rv.get("adt"):
            return ("agg", norm(rv["adt"]), rv["variant"])
        if rv["k"] == "use" and rv["a"]["k"] in ("copy", "move") and not rv["a"]["p"]["proj"]:
            l = rv["a"]["p"]["l"]
            pos, upto = found[1] + 1, found[2]
            continue
        return ("value",)
    return ("value",)


def enum_facts(conds, variants, mentions=None):
    """Which variants of one enum a path's conditions leave possible, however the test was spelled: a `match` / `if let` /
    `matches!` (a discriminant switch: a 'variant' condition), or `X == E::V` / `X != E::V` (a PartialEq call on an
    aggregate of that enum, canonicalised to `eq`).  `variants`: the enum's variant names; `mentions(descr)` (optional)
    restricts the PartialEq form to tests whose operands mention the scrutinee.  Returns the set still possible."""
    vs = set(variants)
    def find_variant(d):
        if isinstance(d, tuple):
            if len(d) >= 3 and d[0] == "agg" and d[2] in variants:
                return d[2]
            for x in d:
                r = find_variant(x)
                if r:
                    return r
        return None
    for cd in conds:
        if cd[0] == "variant" and cd[2] and set(cd[2]) <= set(variants):
            vs &= set(cd[2])
        elif cd[0] == "bool" and is_eq_call(cd[1]):
            v = find_variant(cd[1][2])
            if v and (mentions is None or mentions(cd[1][2])):
                vs = (vs & {v}) if cd[2] else (vs - {v})
    return vs


def int_facts(conds, is_who):
    """What a path's conditions say about one integer operand (is_who(descr) -> bool picks it): (eq, ne) -- the set of
    constants it was found equal to and the set it was found different from -- whether the author wrote a `match`
    (an integer switch), an `if a == K {..} else if ..` chain, `K != a`, or a negated form."""
    eq, ne = set(), set()
    for cd in conds:
        if cd[0] == "int" and is_who(cd[1]):
            if isinstance(cd[2], tuple) and cd[2] and cd[2][0] == "not":
                ne.update(str(v) for v in cd[2][1])
            else:
                eq.add(str(cd[2]))
        elif cd[0] == "bool" and isinstance(cd[1], tuple) and cd[1] and cd[1][0] == "cmp" and cd[1][1] in ("Eq", "Ne"):
            a, b_ = cd[1][2], cd[1][3]
            for (u, v) in ((a, b_), (b_, a)):
                if isinstance(u, tuple) and u and u[0] == "const" and is_who(v):
                    val = cd[2] if cd[1][1] == "Eq" else (not cd[2])
                    (eq if val else ne).add(str(u[1]))
    return eq, ne


def switch_test(body, du, bid):
    """For a block ending in a boolean switch: (d, bb_holds, bb_fails) where d is the canonical description of the
    tested condition and bb_holds the successor taken when d holds (so `if !(a < b)`, `if b <= a`, `let e = b <= a; if e`
    all give the same triple)."""
    t = body.blocks[bid]["term"]
    if t["k"] != "switch" or t.get("dty") != "bool":
        return None
    d = describe_bool(body, du, t["discr"])
    zero = [bb for v, bb in t["targets"] if int(v) == 0]
    one = [bb for v, bb in t["targets"] if int(v) == 1]
    f_bb = zero[0] if zero else t["otherwise"]
    t_bb = one[0] if one else t["otherwise"]
    d2, v = canon_bool(d, True)
    return (d2, t_bb, f_bb) if v else (d2, f_bb, t_bb)


_VARIANT_TESTS = {"std::option::Option::is_some": "Some", "std::option::Option::is_none": "None",
                  "std::result::Result::is_ok": "Ok", "std::result::Result::is_err": "Err"}


class PathWalker:
    """Enumerate acyclic paths from a start block. At every switch a condition is recorded:
       ('variant', place, name) for discriminant switches, ('bool', descr, True/False) for boolean switches,
       ('int', descr, value) otherwise. Switches that come from foreign macro expansions (tracing, format) are
       followed on all arms without recording a condition."""

    def __init__(self, body, unwind=False, max_paths=20000):
        self.body = body
        self.cfg = Cfg(body, unwind)
        self.du = DefUse(body)
        self.max_paths = max_paths

    def cond_for(self, bid, target, is_otherwise):
        body = self.body
        t = body.blocks[bid]["term"]
        si = switch_info(body, self.du, bid)
        if si["kind"] == "discr":
            names = [n for n, bb in si["arms"].items() if bb == target]
            if not names and is_otherwise:
                names = si.get("rest") or []
            return ("variant", place_str(body, si["place"]), tuple(sorted(names)))
        if si["kind"] == "bool":
            vals = [v for v, bb in t["targets"] if bb == target]
            d = describe_bool(body, self.du, t["discr"])
            # otherwise arm of a bool switch on 0 => value is true
            d, v = canon_bool(d, bool(int(vals[0])) if vals else True)
            return ("bool", d, v)
        d = describe_val(body, self.du, t["discr"])
        vals = [v for v, bb in t["targets"] if bb == target]
        return ("int", d, vals[0] if vals else ("not", tuple(v for v, _ in t["targets"])))

    def escapes(self, start, through, exits=None):
        """Path-sensitive must-pass: the feasible acyclic paths from `start` to an exit (default: return) that enter no
        block of `through`.  Infeasible combinations (a flag known false, an Option known None tested with is_some, a
        second match on a value whose variant an earlier arm fixed) are not followed.  [] means every path passes."""
        through = set(through)
        ex = set(self.cfg.returns if exits is None else exits)
        ps = self.walk(start, lambda bid, t: ("through",) if bid in through else (("exit", bid) if bid in ex else None))
        return [(p, c) for (p, c, sv) in ps if sv[0] == "exit"]

    def walk(self, start, stop, record_exp=False):
        """stop(bid, term) -> truthy ends the path at that block (inclusive). Returns list of (blocks, conds, stopval)."""
        out = []
        seen_states = set()
        stack = [(start, (start,), (), frozenset())]
        while stack:
            bid, path, conds, env = stack.pop()
            key = (bid, conds, env)
            if key in seen_states:
                continue
            seen_states.add(key)
            # boolean constants assigned along this path (lowering of matches!/&&/|| and drop flags)
            envd = dict(env)
            for s in self.body.blocks[bid]["stmts"]:
                if s["k"] != "assign":
                    continue
                l = s["lhs"]["l"]
                if s["lhs"]["proj"]:
                    # a store into part of a value (or through a reference) invalidates what is known about it
                    tgt = envd.get(l)
                    if isinstance(tgt, tuple) and tgt[0] == "R":
                        envd.pop(tgt[1], None)
                    else:
                        envd.pop(l, None)
                    continue
                rv = s["rhs"]
                src = rv["a"]["p"]["l"] if rv["k"] in ("use", "unop") and rv.get("a") and rv["a"]["k"] in ("copy", "move") and not rv["a"]["p"]["proj"] else None
                envd.pop(("P", l), None)
                if rv["k"] == "use" and src is not None and ("P", src) in envd:
                    envd[("P", l)] = envd[("P", src)]
                elif rv["k"] == "agg" and rv.get("adt"):
                    # constant payload of a value built here (`Some(true)`, a classification enum): a later match on the
                    # payload of this very value follows the constant
                    envd[("P", l)] = tuple((o.get("v") if o["k"] == "const" and "v" in o else None) for o in rv["ops"])
                if rv["k"] == "use" and rv["a"]["k"] == "const" and rv["a"].get("ty") == "bool" and "v" in rv["a"]:
                    envd[l] = int(rv["a"]["v"])
                elif rv["k"] == "unop" and rv["op"] == "Not" and rv["a"]["k"] == "const" and rv["a"].get("ty") == "bool" and "v" in rv["a"]:
                    envd[l] = 1 - int(rv["a"]["v"])        # `!cfg!(..)`: the negation of a compile-time constant
                elif rv["k"] == "use" and src is not None and src in envd:
                    envd[l] = envd[src]
                elif rv["k"] == "unop" and rv["op"] == "Not" and src is not None and isinstance(envd.get(src), int) and self.body.locals[l] == "bool":
                    envd[l] = 1 - envd[src]
                elif rv["k"] == "agg" and rv.get("adt") and rv.get("variant") is not None and len((self.body.facts.nadts.get(norm(rv["adt"])) or {"variants": []})["variants"]) > 1:
                    envd[l] = ("V", rv["variant"])       # an enum value built here: its variant is known on this path
                elif rv["k"] == "ref" and not rv["p"]["proj"]:
                    envd[l] = ("R", rv["p"]["l"])
                elif rv["k"] == "discr" and not rv["p"]["proj"] and isinstance(envd.get(rv["p"]["l"]), tuple) and envd[rv["p"]["l"]][0] == "V":
                    envd[l] = ("D", rv.get("adt"), envd[rv["p"]["l"]][1])
                else:
                    envd.pop(l, None)
            t = self.body.blocks[bid]["term"]
            if t["k"] == "call":
                # a value handed out by `&mut` may be changed by the callee
                for a in t["args"]:
                    if a["k"] in ("copy", "move") and not a["p"]["proj"]:
                        v = envd.get(a["p"]["l"])
                        if isinstance(v, tuple) and v[0] == "R" and self.body.locals[a["p"]["l"]].startswith("&mut"):
                            envd.pop(v[1], None)
                dl = t["dest"]["l"]
                envd.pop(dl, None)
                cn = norm(t.get("callee") or "")
                if cn in _VARIANT_TESTS and t["args"] and t["args"][0]["k"] in ("copy", "move") and not t["args"][0]["p"]["proj"] and not t["dest"]["proj"]:
                    v = envd.get(t["args"][0]["p"]["l"])
                    if isinstance(v, tuple) and v[0] == "R":
                        v = envd.get(v[1])
                    if isinstance(v, tuple) and v[0] == "V":
                        envd[dl] = 1 if v[1] == _VARIANT_TESTS[cn] else 0
            env = frozenset(envd.items())
            sv = stop(bid, t)
            if sv:
                out.append((path, conds, sv))
                if len(out) > self.max_paths:
                    raise RuntimeError("path explosion in %s" % self.body.npath)
                continue
            succs = self.cfg.succ[bid]
            if not succs:
                out.append((path, conds, ("end", t["k"])))
                continue
            known = envd.get(op_local(t["discr"])) if t["k"] == "switch" and not t["discr"]["p"]["proj"] and op_local(t["discr"]) is not None else None
            if known is None and t["k"] == "switch" and t["discr"]["k"] in ("copy", "move") and t["discr"]["p"]["proj"]:
                pj = t["discr"]["p"]["proj"]
                pl = t["discr"]["p"]["l"]
                fs = [e for e in pj if isinstance(e, dict) and "f" in e]
                if ("P", pl) in envd and len(fs) == 1 and all(isinstance(e, dict) and ("f" in e or "dc" in e) for e in pj):
                    pv = envd[("P", pl)]
                    i_ = fs[0].get("i")
                    if isinstance(i_, int) and i_ < len(pv) and pv[i_] is not None:
                        try:
                            known = int(pv[i_]) if pv[i_] not in ("true", "false") else (1 if pv[i_] == "true" else 0)
                        except (TypeError, ValueError):
                            known = None
            if isinstance(known, tuple) and known[0] == "D":
                a_ = self.body.facts.nadts.get(norm(known[1] or "")) or {"variants": []}
                dv = [v_["discr"] for v_ in a_["variants"] if v_["name"] == known[2]]
                known = int(dv[0]) if dv else None
            if isinstance(known, int):
                v = known
                tg = [bb for val, bb in t["targets"] if int(val) == v]
                bb = tg[0] if tg else t["otherwise"]
                if bb not in path:
                    stack.append((bb, path + (bb,), conds, env))
            elif t["k"] == "switch" and (record_exp or not t.get("exp")):
                tg = {}
                for v, bb in t["targets"]:
                    tg.setdefault(bb, False)
                tg.setdefault(t["otherwise"], True)
                for bb in succs:
                    if bb in path:
                        continue
                    if self.body.blocks[bb]["term"]["k"] == "unreachable" and not self.body.blocks[bb]["stmts"]:
                        continue
                    c = self.cond_for(bid, bb, bb == t["otherwise"] and not any(x[1] == bb for x in t["targets"]))
                    env2 = env
                    if c[0] == "variant" and len(c[2]) == 1:
                        # the arm taken tells which variant the matched value is: later tests of the same value follow
                        si = switch_info(self.body, self.du, bid)
                        if si and si.get("place") and not si["place"]["proj"]:
                            e2 = dict(envd)
                            e2[si["place"]["l"]] = ("V", c[2][0])
                            env2 = frozenset(e2.items())
                    stack.append((bb, path + (bb,), conds + (c,), env2))
            else:
                for bb in succs:
                    if bb in path:
                        continue
                    stack.append((bb, path + (bb,), conds, env))
        return out
