"""Fact base: build (cargo +nightly check under the ocfacts wrapper), cache by tree hash, load."""
import hashlib, json, os, re, shutil, subprocess, sys, time

VERIF = os.path.dirname(os.path.dirname(os.path.abspath(__file__)))
REPO = os.environ.get("VERIF_REPO", "/repo")
CACHE = os.path.join(VERIF, ".cache")
DRIVER = os.path.join(VERIF, "driver", "target", "release", "ocfacts")

CONFIGS = {
    # name: (cargo args, crates whose facts are wanted)
    "core/default": (["-p", "open-coroutine-core", "--lib"], ["open_coroutine_core"]),
    "core/preemptive": (["-p", "open-coroutine-core", "--lib", "--features", "preemptive"], ["open_coroutine_core"]),
    "core/io_uring": (["-p", "open-coroutine-core", "--lib", "--features", "io_uring"], ["open_coroutine_core"]),
    "hook/default": (["-p", "open-coroutine-hook", "--lib"], ["open_coroutine_hook"]),
    "facade/default": (["-p", "open-coroutine", "--lib"], ["open_coroutine"]),
    "fixtures": (None, ["ocfixtures"]),
}


def _sysroot():
    return subprocess.check_output(["rustc", "+nightly", "--print", "sysroot"], text=True).strip()


def tree_hash(root=None):
    """SHA-256 over every source-relevant file of the repo working tree (not target/, not .git/)."""
    root = root or REPO
    h = hashlib.sha256()
    for dp, dns, fns in os.walk(root):
        dns[:] = sorted(d for d in dns if d not in ("target", ".git"))
        for fn in sorted(fns):
            p = os.path.join(dp, fn)
            if not (fn.endswith((".rs", ".toml", ".lock")) or fn == "build.rs"):
                continue
            h.update(os.path.relpath(p, root).encode())
            try:
                with open(p, "rb") as f:
                    h.update(hashlib.sha256(f.read()).digest())
            except OSError:
                pass
    if os.path.exists(DRIVER):
        with open(DRIVER, "rb") as f:
            h.update(hashlib.sha256(f.read()).digest())
    return h.hexdigest()[:24]


def ensure_driver():
    if not os.path.exists(DRIVER):
        subprocess.check_call(["cargo", "+nightly", "build", "--release", "--offline"], cwd=os.path.join(VERIF, "driver"))


def build(config, root=None, force=False, quiet=True):
    """Return path of the fact file for `config`, rebuilding from the working tree when the tree changed."""
    root = root or REPO
    ensure_driver()
    args, crates = CONFIGS[config]
    if config == "fixtures":
        root = os.path.join(VERIF, "fixtures")
        args = ["--lib"]
    th = tree_hash(root)
    out = os.path.join(CACHE, "facts", th, config.replace("/", "-"))
    want = [os.path.join(out, c + ".json") for c in crates]
    if not force and all(os.path.exists(w) for w in want):
        return want[0]
    os.makedirs(out, exist_ok=True)
    for w in want:
        if os.path.exists(w):
            os.remove(w)
    # scratch copies (mutant self-test) share one target dir per configuration: dependencies are reused, only the
    # workspace crates are rebuilt
    tgt = os.path.join(CACHE, "target", config.replace("/", "-") + ("" if root in ("/repo", os.path.join(VERIF, "fixtures")) else "-mut" + os.environ.get("VERIF_TARGET_TAG", "")))
    # cargo's freshness cache would skip the wrapper: drop the fingerprints of the workspace members
    for prof in ("debug",):
        fp = os.path.join(tgt, prof, ".fingerprint")
        if os.path.isdir(fp):
            for d in os.listdir(fp):
                if d.startswith(("open-coroutine", "open_coroutine", "ocfixtures")):
                    shutil.rmtree(os.path.join(fp, d), ignore_errors=True)
    env = dict(os.environ)
    env["LD_LIBRARY_PATH"] = _sysroot() + "/lib" + (":" + env["LD_LIBRARY_PATH"] if env.get("LD_LIBRARY_PATH") else "")
    env["RUSTFLAGS"] = "--cap-lints allow -Zmir-opt-level=0"
    env["RUSTC_WORKSPACE_WRAPPER"] = DRIVER
    env["CARGO_TARGET_DIR"] = tgt
    env["CARGO_NET_OFFLINE"] = "true"
    env["OCFACTS_OUT"] = out
    env["OCFACTS_CONFIG"] = config
    env["OCFACTS_CRATES"] = ",".join(crates)
    env.pop("RUSTC_WRAPPER", None)
    t0 = time.time()
    cmd = ["cargo", "+nightly", "check", "--offline", "-j", "16"] + args
    p = subprocess.run(cmd, cwd=root, env=env, stdout=subprocess.PIPE, stderr=subprocess.STDOUT, text=True)
    if p.returncode != 0 or not all(os.path.exists(w) for w in want):
        sys.stderr.write(p.stdout[-6000:])
        raise BuildError("fact build failed for %s (rc=%s); the tree does not type-check under this configuration" % (config, p.returncode))
    if not quiet:
        sys.stderr.write("facts %s built in %.1fs\n" % (config, time.time() - t0))
    return want[0]


class BuildError(Exception):
    pass


_GEN = re.compile(r"<[^<>]*>")


def norm(path):
    """Strip generic argument lists: `A::<'l, T>::f` -> `A::f`, `<X<I> as T>::f` -> `<X as T>::f`."""
    if path is None:
        return None
    s = path
    q = None
    # protect the qualified-self form "<X as Y>::..."
    if s.startswith("<") and " as " in s:
        depth = 0
        for i, c in enumerate(s):
            if c == "<":
                depth += 1
            elif c == ">":
                depth -= 1
                if depth == 0:
                    q = s[1:i]
                    s = s[i + 1:]
                    break
    def strip(t):
        prev = None
        while prev != t:
            prev = t
            t = _GEN.sub("", t)
        return t.replace("::::", "::").rstrip(":") if t.endswith("::") else t.replace("::::", "::")
    s = strip(s)
    if q is not None:
        a, b = q.split(" as ", 1)
        return "<%s as %s>%s" % (strip(a), strip(b), s)
    return s


class Body:
    def __init__(self, raw, facts):
        self.raw = raw
        self.facts = facts
        self.path = raw["path"]
        self.npath = norm(raw["path"])
        self.kind = raw["kind"]
        self.file = raw["file"]
        self.line = raw["line"]
        self.argc = raw["argc"]
        self.locals = raw["locals"]
        self.blocks = raw["blocks"]
        self.impl_of = norm(raw["impl_of"])
        self.impl_trait = norm(raw["impl_trait"])
        self.abi = raw["abi"]
        self.names = {}
        for d in raw["debug"]:
            if not d["p"]["proj"]:
                self.names.setdefault(d["p"]["l"], d["name"])
        self._cfg = None
        # A parameter that was merely RENAMED keeps, for the rules, the name it has in the reference tree (same function,
        # same number of parameters, and the current names are not a permutation of the reference names -- a reordering
        # keeps its own names).  Rules that pick a parameter by name then survive `timestamp` -> `wake_at`.
        if self.kind in ("Fn", "AssocFn") and not os.environ.get("VERIF_NO_RELOCATE"):
            ref = ref_items(facts.crate, facts.config) if facts is not None and hasattr(facts, "crate") else None
            rp = (ref or {}).get("params", {}).get(self.npath)
            if rp and len(rp) == self.argc:
                cur = [self.names.get(i, "_%d" % i) for i in range(1, self.argc + 1)]
                if cur != rp and sorted(cur) != sorted(rp):
                    for i, nm in enumerate(rp, start=1):
                        if not nm.startswith("_") or nm == "_":
                            self.names[i] = nm
        # captured variables of closures: debug entries whose place is a field of the environment `_1`
        self.upvars = {}
        for d in raw["debug"]:
            pr = d["p"]["proj"]
            if d["p"]["l"] == 1 and pr:
                fs = [e for e in pr if isinstance(e, dict) and "f" in e]
                if fs:
                    self.upvars.setdefault(fs[0]["i"], d["name"])

    def name_of(self, l):
        return self.names.get(l, "_%d" % l)

    def loc(self, line=None):
        return "%s:%s" % (self.file, line if line else self.line)

    def calls(self, include_cleanup=False):
        for b in self.blocks:
            if b["cleanup"] and not include_cleanup:
                continue
            t = b["term"]
            if t["k"] == "call":
                yield b["id"], t

    def __repr__(self):
        return "<Body %s>" % self.npath


def items_of(raw):
    """Module-level items of the local crate by kind (normalised paths): free functions, ADTs, statics, traits.
    Items nested in a function or type (statics in a fn, nested fns) are left out: they move with their parent."""
    fns = {norm(b["path"]) for b in raw["bodies"] if b["kind"] == "Fn"}
    adts = {norm(k) for k, v in raw["adts"].items() if v.get("local")}
    statics = {norm(s["path"]) for s in raw["statics"]}
    roots = {p.split("::", 1)[0] for p in fns | adts | statics if "::" in p}
    traits = set()
    for b in raw["bodies"]:
        t = norm(b.get("impl_trait"))
        if t and t.split("::", 1)[0] in roots:
            traits.add(t)
    for i in raw["impls"]:
        t = norm(i.get("trait"))
        if t and t.split("::", 1)[0] in roots:
            traits.add(t)
    allp = fns | adts | statics | traits
    def top(ps):
        return sorted(p for p in ps if (p.rsplit("::", 1)[0] if "::" in p else "") not in allp)
    return {"fn": top(fns), "adt": top(adts), "static": top(statics), "trait": top(traits)}


_REF_ITEMS = None


def ref_items(crate, config):
    global _REF_ITEMS
    if _REF_ITEMS is None:
        try:
            with open(os.path.join(VERIF, "analysis", "ref_items.json")) as f:
                _REF_ITEMS = json.load(f)
        except OSError:
            _REF_ITEMS = {}
    return _REF_ITEMS.get("%s|%s" % (crate, config))


def relocation_map(raw):
    """Items that exist in the analysed tree under another module path than in the reference tree the rules were
    written against (a function / type / static / trait MOVED to another module, or its module renamed): map the new
    path to the reference path.  An item is recognised by its kind and its own name; when several reference items of
    that name are gone, the one sharing the longest module prefix is taken, and a tie is left unresolved (the anchor
    is then reported missing).  Renamed items are not guessed."""
    ref = ref_items(raw["crate"], raw.get("config"))
    if not ref:
        return {}
    cur = items_of(raw)
    m = {}
    for kind in ("fn", "adt", "static", "trait"):
        c_new = [p for p in cur[kind] if p not in set(ref.get(kind, []))]
        r_gone = [p for p in ref.get(kind, []) if p not in set(cur[kind])]
        for c in c_new:
            last = c.rsplit("::", 1)[-1]
            cands = [r for r in r_gone if r.rsplit("::", 1)[-1] == last]
            if not cands:
                continue
            def common(a, b):
                n = 0
                for x, y in zip(a.split("::"), b.split("::")):
                    if x != y:
                        break
                    n += 1
                return n
            best = sorted(cands, key=lambda r: -common(c, r))
            if len(best) > 1 and common(c, best[0]) == common(c, best[1]):
                continue
            # one reference item is claimed by one current item only
            if best[0] in m.values():
                continue
            m[c] = best[0]
    return m


def rename_map(raw):
    """Functions / methods that were RENAMED in place: inside one parent (module, or type with its impls) exactly one
    reference function is gone, exactly one new function appeared, and both take the same number of parameters.  Maps the
    new path to the reference path.  Anything less clear (two candidates, different arity) is left alone and the anchor is
    reported missing."""
    ref = ref_items(raw["crate"], raw.get("config"))
    if not ref or not ref.get("params"):
        return {}
    rp = ref["params"]
    cur = {}
    for b in raw["bodies"]:
        if b["kind"] in ("Fn", "AssocFn"):
            cur.setdefault(norm(b["path"]), b["argc"])
    gone, new = {}, {}
    for p_, names in rp.items():
        if p_ not in cur:
            gone.setdefault(p_.rsplit("::", 1)[0] if "::" in p_ else "", []).append(p_)
    for p_ in cur:
        if p_ not in rp:
            new.setdefault(p_.rsplit("::", 1)[0] if "::" in p_ else "", []).append(p_)
    m = {}
    for parent, g in gone.items():
        n = new.get(parent, [])
        if len(g) == 1 and len(n) == 1 and len(rp[g[0]]) == cur[n[0]] and not parent.startswith("<"):
            m[n[0]] = g[0]
    return m


def rename_in_place(raw, mapping):
    """Apply rename_map to the parsed facts: every path string whose normalised form has a renamed function as a whole
    path prefix gets the reference name back for that segment."""
    if not mapping:
        return raw
    lasts = {new.rsplit("::", 1)[-1]: (new, old.rsplit("::", 1)[-1]) for new, old in mapping.items()}
    rxs = {nl: re.compile(r"(?<=::)" + re.escape(nl) + r"(?![A-Za-z0-9_])|^" + re.escape(nl) + r"(?![A-Za-z0-9_])") for nl in lasts}

    def fix(sv):
        for nl, (new, oldlast) in lasts.items():
            if nl not in sv:
                continue
            n_ = norm(sv) or ""
            if n_ == new or n_.startswith(new + "::") or (" " + new) in n_ or ("{" + new) in n_ or n_.endswith(new + "}"):
                sv = rxs[nl].sub(oldlast, sv)
        return sv

    def walk(o):
        if isinstance(o, dict):
            return {k: walk(v) for k, v in o.items()}
        if isinstance(o, list):
            return [walk(v) for v in o]
        if isinstance(o, str) and "::" in o or isinstance(o, str) and o in lasts:
            return fix(o)
        return o
    return walk(raw)


def relocate_text(text, mapping, prefix=""):
    """Rewrite item paths in the fact JSON text (paths appear with generic arguments interleaved, so the item path is
    replaced wherever it occurs as a whole path prefix)."""
    for new, old in sorted(mapping.items(), key=lambda kv: -len(kv[0])):
        rx = re.compile(r"(?<![A-Za-z0-9_:])" + re.escape(prefix + new) + r"(?![A-Za-z0-9_])")
        text = rx.sub(prefix + old, text)
    return text


class Facts:
    def __init__(self, path):
        with open(path) as f:
            text = f.read()
        self.raw = json.loads(text)
        self.relocated = {}
        if not os.environ.get("VERIF_NO_RELOCATE"):
            m = relocation_map(self.raw)
            if m:
                self.relocated = m
                self.raw = json.loads(relocate_text(text, m))
            rm_ = rename_map(self.raw)
            if rm_:
                self.relocated = dict(self.relocated, **{"(renamed) " + k: v for k, v in rm_.items()})
                self.raw = rename_in_place(self.raw, rm_)
            if self.raw["crate"] != "open_coroutine_core":
                # references into the core crate follow the core crate's own relocation (same tree, default features)
                try:
                    core = load("core/default")
                    if core.relocated:
                        self.relocated = dict(self.relocated, **{"open_coroutine_core::" + k: "open_coroutine_core::" + v for k, v in core.relocated.items()})
                        self.raw = json.loads(relocate_text(json.dumps(self.raw), core.relocated, prefix="open_coroutine_core::"))
                except Exception:
                    pass
        self.config = self.raw.get("config")
        self.crate = self.raw["crate"]
        self.adts = self.raw["adts"]
        self.statics = self.raw["statics"]
        self.impls = self.raw["impls"]
        self.bodies = [Body(b, self) for b in self.raw["bodies"]]
        self.by_npath = {}
        for b in self.bodies:
            self.by_npath.setdefault(b.npath, []).append(b)
        self.nadts = {norm(k): v for k, v in self.adts.items()}

    def body(self, npath):
        """Exactly one body with this normalised path, else None."""
        l = self.by_npath.get(npath) or []
        return l[0] if len(l) == 1 else (l[0] if l else None)

    def bodies_matching(self, rx):
        r = re.compile(rx)
        return [b for b in self.bodies if r.search(b.npath)]

    def closures_of(self, body):
        pre = body.path + "::{closure#"
        return [b for b in self.bodies if b.path.startswith(pre)]

    def variant_by_discr(self, adt, value):
        a = self.adts.get(adt) or self.nadts.get(norm(adt))
        if not a:
            return None
        for v in a["variants"]:
            if v["discr"] == str(value):
                return v["name"]
        return None


_loaded = {}


def load(config, root=None):
    key = (config, root)
    if key not in _loaded:
        _loaded[key] = Facts(build(config, root))
    return _loaded[key]
