"""Fact base: build (cargo +nightly check under the ocfacts wrapper), cache by tree hash, load."""
import hashlib, json, os, re, shutil, subprocess, sys, time

VERIF = os.path.dirname(os.path.dirname(os.path.abspath(__file__)))
REPO = os.environ.get("VERIF_REPO", "/repo")
CACHE = os.path.join(VERIF, ".cache")
DRIVER = os.path.join(VERIF, "driver", "target", "release", "ocfacts")

CONFIGS = {
    # name: (cargo args, crates whose facts are wanted)
    "core/default": (["-p", "open-coroutine-core", "--lib"], ["open_coroutine_core"]),
    "core/preemptive": (["-p", "open-coroutine-core", "--lib", "--features", "preemptive"], ["open_coroutine_core"]),
    "core/io_uring": (["-p", "open-coroutine-core", "--lib", "--features", "io_uring"], ["open_coroutine_core"]),
    "hook/default": (["-p", "open-coroutine-hook", "--lib"], ["open_coroutine_hook"]),
    "facade/default": (["-p", "open-coroutine", "--lib"], ["open_coroutine"]),
    "fixtures": (None, ["ocfixtures"]),
}


def _sysroot():
    return subprocess.check_output(["rustc", "+nightly", "--print", "sysroot"], text=True).strip()


def tree_hash(root=None):
    """SHA-256 over every source-relevant file of the repo working tree (not target/, not .git/)."""
    root = root or REPO
    h = hashlib.sha256()
    for dp, dns, fns in os.walk(root):
        dns[:] = sorted(d for d in dns if d not in ("target", ".git"))
        for fn in sorted(fns):
            p = os.path.join(dp, fn)
            if not (fn.endswith((".rs", ".toml", ".lock")) or fn == "build.rs"):
                continue
            h.update(os.path.relpath(p, root).encode())
            try:
                with open(p, "rb") as f:
                    h.update(hashlib.sha256(f.read()).digest())
            except OSError:
                pass
    if os.path.exists(DRIVER):
        with open(DRIVER, "rb") as f:
            h.update(hashlib.sha256(f.read()).digest())
    return h.hexdigest()[:24]


def ensure_driver():
    if not os.path.exists(DRIVER):
        subprocess.check_call(["cargo", "+nightly", "build", "--release", "--offline"], cwd=os.path.join(VERIF, "driver"))


def build(config, root=None, force=False, quiet=True):
    """Return path of the fact file for `config`, rebuilding from the working tree when the tree changed."""
    root = root or REPO
    ensure_driver()
    args, crates = CONFIGS[config]
    if config == "fixtures":
        root = os.path.join(VERIF, "fixtures")
        args = ["--lib"]
    th = tree_hash(root)
    out = os.path.join(CACHE, "facts", th, config.replace("/", "-"))
    want = [os.path.join(out, c + ".json") for c in crates]
    if not force and all(os.path.exists(w) for w in want):
        return want[0]
    os.makedirs(out, exist_ok=True)
    for w in want:
        if os.path.exists(w):
            os.remove(w)
    # scratch copies (mutant self-test) share one target dir per configuration: dependencies are reused, only the
    # workspace crates are rebuilt
    tgt = os.path.join(CACHE, "target", config.replace("/", "-") + ("" if root in ("/repo", os.path.join(VERIF, "fixtures")) else "-mut" + os.environ.get("VERIF_TARGET_TAG", "")))
    # cargo's freshness cache would skip the wrapper: drop the fingerprints of the workspace members
    for prof in ("debug",):
        fp = os.path.join(tgt, prof, ".fingerprint")
        if os.path.isdir(fp):
            for d in os.listdir(fp):
                if d.startswith(("open-coroutine", "open_coroutine", "ocfixtures")):
                    shutil.rmtree(os.path.join(fp, d), ignore_errors=True)
    env = dict(os.environ)
    env["LD_LIBRARY_PATH"] = _sysroot() + "/lib" + (":" + env["LD_LIBRARY_PATH"] if env.get("LD_LIBRARY_PATH") else "")
    env["RUSTFLAGS"] = "--cap-lints allow -Zmir-opt-level=0"
    env["RUSTC_WORKSPACE_WRAPPER"] = DRIVER
    env["CARGO_TARGET_DIR"] = tgt
    env["CARGO_NET_OFFLINE"] = "true"
    env["OCFACTS_OUT"] = out
    env["OCFACTS_CONFIG"] = config
    env["OCFACTS_CRATES"] = ",".join(crates)
    env.pop("RUSTC_WRAPPER", None)
    t0 = time.time()
    cmd = ["cargo", "+nightly", "check", "--offline", "-j", "16"] + args
    p = subprocess.run(cmd, cwd=root, env=env, stdout=subprocess.PIPE, stderr=subprocess.STDOUT, text=True)
    if p.returncode != 0 or not all(os.path.exists(w) for w in want):
        sys.stderr.write(p.stdout[-6000:])
        raise BuildError("fact build failed for %s (rc=%s); the tree does not type-check under this configuration" % (config, p.returncode))
    if not quiet:
        sys.stderr.write("facts %s built in %.1fs\n" % (config, time.time() - t0))
    return want[0]


class BuildError(Exception):
    pass


_GEN = re.compile(r"<[^<>]*>")


def norm(path):
    """Strip generic argument lists: `A::<'l, T>::f` -> `A::f`, `<X<I> as T>::f` -> `<X as T>::f`."""
    if path is None:
        return None
    s = path
    q = None
    # protect the qualified-self form "<X as Y>::..."
    if s.startswith("<") and " as " in s:
        depth = 0
        for i, c in enumerate(s):
            if c == "<":
                depth += 1
            elif c == ">":
                depth -= 1
                if depth == 0:
                    q = s[1:i]
                    s = s[i + 1:]
                    break
    def strip(t):
        prev = None
        while prev != t:
            prev = t
            t = _GEN.sub("", t)
        return t.replace("::::", "::").rstrip(":") if t.endswith("::") else t.replace("::::", "::")
    s = strip(s)
    if q is not None:
        a, b = q.split(" as ", 1)
        return "<%s as %s>%s" % (strip(a), strip(b), s)
    return s


class Body:
    def __init__(self, raw, facts):
        self.raw = raw
        self.facts = facts
        self.path = raw["path"]
        self.npath = norm(raw["path"])
        self.kind = raw["kind"]
        self.file = raw["file"]
        self.line = raw["line"]
        self.argc = raw["argc"]
        self.locals = raw["locals"]
        self.blocks = raw["blocks"]
        self.impl_of = norm(raw["impl_of"])
        self.impl_trait = norm(raw["impl_trait"])
        self.abi = raw["abi"]
        self.names = {}
        for d in raw["debug"]:
            if not d["p"]["proj"]:
                self.names.setdefault(d["p"]["l"], d["name"])
        self._cfg = None
        # captured variables of closures: debug entries whose place is a field of the environment `_1`
        self.upvars = {}
        for d in raw["debug"]:
            pr = d["p"]["proj"]
            if d["p"]["l"] == 1 and pr:
                fs = [e for e in pr if isinstance(e, dict) and "f" in e]
                if fs:
                    self.upvars.setdefault(fs[0]["i"], d["name"])

    def name_of(self, l):
        return self.names.get(l, "_%d" % l)

    def loc(self, line=None):
        return "%s:%s" % (self.file, line if line else self.line)

    def calls(self, include_cleanup=False):
        for b in self.blocks:
            if b["cleanup"] and not include_cleanup:
                continue
            t = b["term"]
            if t["k"] == "call":
                yield b["id"], t

    def __repr__(self):
        return "<Body %s>" % self.npath


class Facts:
    def __init__(self, path):
        with open(path) as f:
            self.raw = json.load(f)
        self.config = self.raw.get("config")
        self.crate = self.raw["crate"]
        self.adts = self.raw["adts"]
        self.statics = self.raw["statics"]
        self.impls = self.raw["impls"]
        self.bodies = [Body(b, self) for b in self.raw["bodies"]]
        self.by_npath = {}
        for b in self.bodies:
            self.by_npath.setdefault(b.npath, []).append(b)
        self.nadts = {norm(k): v for k, v in self.adts.items()}

    def body(self, npath):
        """Exactly one body with this normalised path, else None."""
        l = self.by_npath.get(npath) or []
        return l[0] if len(l) == 1 else (l[0] if l else None)

    def bodies_matching(self, rx):
        r = re.compile(rx)
        return [b for b in self.bodies if r.search(b.npath)]

    def closures_of(self, body):
        pre = body.path + "::{closure#"
        return [b for b in self.bodies if b.path.startswith(pre)]

    def variant_by_discr(self, adt, value):
        a = self.adts.get(adt) or self.nadts.get(norm(adt))
        if not a:
            return None
        for v in a["variants"]:
            if v["discr"] == str(value):
                return v["name"]
        return None


_loaded = {}


def load(config, root=None):
    key = (config, root)
    if key not in _loaded:
        _loaded[key] = Facts(build(config, root))
    return _loaded[key]
