"""Verdict protocol, evidence writer, known-findings suppression (exact key only)."""
import json, os, sys, time

VERIF = os.path.dirname(os.path.dirname(os.path.abspath(__file__)))


def load_known():
    p = os.path.join(VERIF, "known_findings.json")
    if not os.path.exists(p):
        return []
    with open(p) as f:
        return json.load(f)


class Run:
    def __init__(self, pid, tier, explanation, not_decided=(), assumptions=(), exhaustive=False):
        self.pid = pid
        self.tier = tier
        self.t0 = time.time()
        self.explanation = explanation
        self.not_decided = list(not_decided)
        self.assumptions = list(assumptions)
        self.exhaustive = exhaustive
        self.rules = {}       # id -> dict(desc, floor, instances, failed, template)
        self.order = []
        self.violations = []  # dict(key, rule, where, what, detail)
        self.samples = []
        self.configs = []
        self.tree_hash = None
        self.counters = {"functions": set(), "call_sites": 0, "paths_or_states": 0, "table_rows": 0, "loops": 0}
        self.notes = []

    # ---- bookkeeping ----
    def rule(self, rid, desc, floor=1, template=""):
        if rid not in self.rules:
            self.rules[rid] = {"id": rid, "desc": desc, "floor": floor, "instances": 0, "failed": 0, "template": template}
            self.order.append(rid)
        return rid

    def fn(self, body):
        if body is not None:
            self.counters["functions"].add(getattr(body, "npath", str(body)))

    def count(self, what, n=1):
        self.counters[what] = self.counters.get(what, 0) + n

    def ok(self, rid, anchor, detail=None):
        r = self.rules[rid]
        r["instances"] += 1
        if len([s for s in self.samples if s["rule"] == rid]) < 3:
            self.samples.append({"rule": rid, "anchor": anchor, "verdict": "holds", "detail": detail})

    def fail(self, rid, key, where, what, detail=None, counts_as_instance=True):
        r = self.rules[rid]
        if counts_as_instance:
            r["instances"] += 1
        r["failed"] += 1
        self.violations.append({"key": "%s/%s" % (rid, key), "rule": rid, "where": where, "what": what, "detail": detail})

    def missing(self, rid, anchor):
        """A named anchor (function/static/variant) no longer exists: fail closed."""
        self.fail(rid, "%s/anchor-missing" % anchor, anchor, "anchor not found in the type-checked program (renamed or removed); the rule cannot be evaluated", counts_as_instance=False)

    def note(self, s):
        self.notes.append(s)

    def paths(self, rid, key, where, examined, skipped_infeasible=0, skipped_undecided=0):
        """Accounting for a rule that judges a function path by path.  `examined` paths were judged; the others were left
        out because the path-feasibility helper called them infeasible, or because the helper could not tell which way
        a test went on them.  A rule that examined no path at all has decided nothing: fail closed.  The three numbers are
        written to the evidence so that a drop in `examined` (a helper that starts to discard real paths) is visible."""
        pc = self.counters.setdefault("path_accounting", {})
        pc["%s/%s" % (rid, key)] = {"examined": examined, "skipped_infeasible": skipped_infeasible, "skipped_undecided": skipped_undecided}
        self.counters["paths_or_states"] = self.counters.get("paths_or_states", 0) + examined
        if examined == 0:
            self.fail(rid, "%s/no-path-examined" % key, where, "the path-by-path rule examined no feasible path of this function (%d discarded as infeasible, %d undecided): nothing was decided" % (skipped_infeasible, skipped_undecided), counts_as_instance=False)
            return False
        return True

    # ---- verdict ----
    def finish(self):
        known = [k for k in load_known() if k.get("property") == self.pid]
        open_keys = {k["key"]: k for k in known if k.get("status") == "open"}
        # floors
        for rid in self.order:
            r = self.rules[rid]
            if r["instances"] < r["floor"]:
                self.violations.append({"key": "%s/floor" % rid, "rule": rid, "where": "-", "detail": None,
                                        "what": "only %d instance(s) matched, hand-counted floor is %d: the rule would pass vacuously" % (r["instances"], r["floor"])})
                r["failed"] += 1
        new, supp = [], []
        for v in self.violations:
            (supp if v["key"] in open_keys else new).append(v)
        for v in supp:
            print("KNOWN-FINDING: property=%s %s %s" % (self.pid, v["key"], open_keys[v["key"]].get("what", v["what"])))
        stale = [k for k in open_keys if k not in {v["key"] for v in supp}]
        for k in stale:
            self.notes.append("known finding %s did not fire on this tree (repaired or re-keyed)" % k)
        replay = None
        selftest = bool(os.environ.get("VERIF_SELFTEST"))
        if new:
            d = os.path.join(VERIF, ".cache", "selftest" if selftest else "violations")
            os.makedirs(d, exist_ok=True)
            replay = os.path.join(d, "%s.json" % self.pid)
            with open(replay, "w") as f:
                json.dump({"property": self.pid, "tier": self.tier, "tree_hash": self.tree_hash, "violations": new}, f, indent=1)
            for v in new:
                print("  rule=%s key=%s\n    at %s\n    %s" % (v["rule"], v["key"], v["where"], v["what"]))
            print("VIOLATION property=%s replay=%s" % (self.pid, replay))
        obligations = sum(self.rules[r]["instances"] for r in self.order)
        failed = len(self.violations)
        cov = {
            "explanation": self.explanation,
            "configs": self.configs,
            "tree_hash": self.tree_hash,
            "functions": len(self.counters["functions"]),
            "call_sites": self.counters.get("call_sites", 0),
            "paths_or_states": self.counters.get("paths_or_states", 0),
            "table_rows": self.counters.get("table_rows", 0),
            "loops": self.counters.get("loops", 0),
            "obligations": obligations,
            "discharged": max(0, obligations - failed),
            "known_findings": len(supp),
            "rules": [dict((k, self.rules[r][k]) for k in ("id", "template", "desc", "instances", "floor", "failed")) for r in self.order],
            "samples": self.samples[:40] or [{"note": "no instance matched"}],
            "not_decided": self.not_decided,
            "notes": self.notes,
            "exhaustive": self.exhaustive,
            "checker_cmd": "./check %s --tier %s" % (self.pid, self.tier),
            "trusted_base": self.assumptions,
            "suppressed": [v["key"] for v in supp],
        }
        if self.counters.get("path_accounting"):
            # per path-by-path rule instance: paths judged / discarded as infeasible / left undecided by the helpers
            cov["path_accounting"] = self.counters["path_accounting"]
        ev = {
            "property_id": self.pid,
            "tier": self.tier,
            "seed": int(os.environ.get("VERIF_SEED", "0") or 0),
            "level": "other",
            "coverage": cov,
            "assumptions": self.assumptions,
            "wall_s": round(time.time() - self.t0, 2),
            "violations": len(new),
        }
        if getattr(self, "extra_coverage", None):
            cov.update(self.extra_coverage)
        evdir = os.path.join(VERIF, ".cache", "selftest") if selftest else os.path.join(VERIF, "evidence")
        os.makedirs(evdir, exist_ok=True)
        with open(os.path.join(evdir, "%s.json" % self.pid), "w") as f:
            json.dump(ev, f, indent=1)
        print("%s %s: %d rule(s), %d instance(s), %d failing (%d known, %d new), %.1fs" % (
            self.pid, self.tier, len(self.order), obligations, failed, len(supp), len(new), time.time() - self.t0))
        return 1 if new else 0
