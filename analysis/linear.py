"""P3 instance: linear-resource walker.  Tracks which MIR locals hold an *item* (a by-value queue element, a
popped coroutine, ...) along every path, through moves, enum wrappers (Option/Result/Steal) and drop flags.

State = (holders: frozenset of locals, consumed: 0|1|2 (saturating), flags: frozenset((local, bool)))
The walk is a fixpoint over (block, state) pairs — loops terminate because the state space is finite."""
from .cfg import term_succs
from .flow import DefUse, op_local, op_const, switch_info
from .facts import norm

# variants of wrapper enums that carry no item
EMPTY_VARIANTS = {"None", "Ok", "Empty", "Retry"}


class Linear:
    def __init__(self, body, initial_holders, sources, sinks, keep=None, ret_is_sink=True, transparent=None, watch=None):
        """sources: pred(callee, term) -> True if the call's destination holds a fresh item (wrapped or not)
           sinks:   pred(callee, term) -> 'consume' | 'maybe-return' (Worker::push: Ok consumes, Err(item) hands it back) | None
           transparent: pred(callee, term) -> True if the call hands the item in arg0 through to its result
                        (Option::map is NOT transparent; unwrap/expect/into are)"""
        self.body = body
        self.du = DefUse(body)
        self.init = frozenset((h, "item:p") for h in initial_holders)
        self.sources = sources
        self.sinks = sinks
        self.ret_is_sink = ret_is_sink
        self.transparent = transparent or (lambda c, t: False)
        self.watch = watch    # pred(adt_npath) -> True: remember which arm of a match on that enum the path took
        self.events = []     # violations: (kind, bid, detail)
        self.exits = []      # (bid, holders, consumed)
        self.visited = 0

    def _ev(self, e):
        self.events.append(e + (getattr(self, "_ctx", ()),))

    def _moves_from(self, op, holders):
        """If operand moves/copies a holder (possibly through a downcast field, e.g. (x as Err).0), return that holder."""
        l = op_local(op)
        if l is not None and l in holders:
            # whole value, or the payload of an enum wrapper ((x as Some).0); a struct field read is not a move of the item
            proj = op["p"]["proj"]
            i = 0
            while i < len(proj):
                e = proj[i]
                if isinstance(e, dict) and "dc" in e and i + 1 < len(proj) and isinstance(proj[i + 1], dict) and "f" in proj[i + 1]:
                    i += 2
                    continue
                # moving a field out of the holder (tuple element, struct field that is the item) is a move of the item;
                # a *copy* of a field (an id, a timestamp) is not
                if isinstance(e, dict) and "f" in e and op["k"] == "move":
                    i += 1
                    continue
                return None
            return l
        return None

    _TESTS = {"std::option::Option::is_some": ("Some", "None"), "std::option::Option::is_none": ("None", "Some"),
              "std::result::Result::is_ok": ("Ok", "Err"), "std::result::Result::is_err": ("Err", "Ok"),
              # crossbeam's three-valued steal result: a false is_success leaves only the payload-free variants
              "crossbeam_deque::Steal::is_retry": ("Retry", "?"), "crossbeam_deque::Steal::is_empty": ("Empty", "?"),
              "crossbeam_deque::Steal::is_success": ("Success", "Empty")}

    def _variant_test(self, bid, t, holders):
        """For a bool switch whose condition is `<holder>.is_some()` (or is_none/is_ok/is_err, possibly negated or copied):
        (holder, {successor block -> variant the holder has on that edge}); None for any other switch."""
        from .table import bool_origin
        body = self.body
        dl = op_local(t["discr"])
        if t.get("dty") != "bool" or dl is None or t["discr"]["p"]["proj"]:
            return None
        o = bool_origin(self.du, dl)
        if o is None:
            return None
        ct = body.blocks[o[0]]["term"]
        names = self._TESTS.get(norm(ct.get("callee") or ""))
        if not names or not ct["args"] or ct["args"][0]["k"] not in ("copy", "move") or ct["args"][0]["p"]["proj"]:
            return None
        # the receiver is `&holder`, taken in the block of the call
        ds = self.du.defs.get(ct["args"][0]["p"]["l"], [])
        if len(ds) != 1 or ds[0][2] != "assign" or ds[0][0] != o[0]:
            return None
        rv = ds[0][3]["rhs"]
        if rv["k"] != "ref" or rv["p"]["proj"] or rv["p"]["l"] not in holders:
            return None
        # nothing but straight-line glue between the test and the branch on it
        x, n = ct.get("target"), 0
        while x is not None and x != bid and n < 8:
            tt = body.blocks[x]["term"]
            x = tt["target"] if tt["k"] == "goto" else None
            n += 1
        if x != bid:
            return None
        ones = [bb for v, bb in t["targets"] if int(v) == 1]
        zeros = [bb for v, bb in t["targets"] if int(v) == 0]
        edges = {}
        for bb in term_succs(t):
            if bb in ones and bb not in zeros and bb != t["otherwise"]:
                val = True
            elif bb in zeros and bb not in ones and bb != t["otherwise"]:
                val = False
            elif bb == t["otherwise"] and bool(zeros) != bool(ones) and bb not in ones and bb not in zeros:
                val = bool(zeros)
            else:
                continue
            if o[1]:
                val = not val
            edges[bb] = names[0] if val else names[1]
        return (rv["p"]["l"], edges)

    def run(self, start=0, start_state=None):
        body = self.body
        st0 = start_state or (self.init, 0, frozenset(), ())
        work = [(start, st0)]
        seen = set()
        while work:
            bid, st = work.pop()
            if (bid, st) in seen:
                continue
            seen.add((bid, st))
            self.visited += 1
            if self.visited > 200000:
                self._ev(("explosion", bid, "state space too large"))
                return
            holders, consumed, flags, ctx = st
            self._ctx = ctx
            kinds = dict(holders)
            holders = set(kinds)
            flags = dict(flags)
            blk = body.blocks[bid]
            if blk["cleanup"]:
                continue
            for s in blk["stmts"]:
                if s["k"] != "assign":
                    continue
                lhs, rv = s["lhs"], s["rhs"]
                l = lhs["l"]
                # bool constant assignment (drop flags)
                if rv["k"] == "use" and not lhs["proj"]:
                    c = op_const(rv["a"]) if rv["a"]["k"] == "const" and rv["a"].get("ty") == "bool" else None
                    if c is not None:
                        flags[l] = bool(c)
                        continue
                    flags.pop(l, None)
                src = None
                moved = False
                if rv["k"] in ("use", "cast"):
                    src = self._moves_from(rv["a"], holders)
                    moved = rv["a"]["k"] == "move"
                elif rv["k"] == "agg":
                    for o in rv["ops"]:
                        h = self._moves_from(o, holders)
                        if h is not None:
                            src = h
                            moved = True
                if src is not None:
                    if l == 0 and self.ret_is_sink and not lhs["proj"]:
                        holders.discard(src)
                        holders.add(0)
                        kinds[0] = "item:" + kinds.get(src, "item:p").split(":")[1]
                    else:
                        if moved:
                            holders.discard(src)
                        if l in holders and l != src and not lhs["proj"]:
                            self._ev(("overwritten", bid, "local _%d holding an item is overwritten at line %s" % (l, s["line"])))
                        holders.add(l)
                        kinds[l] = "item:" + kinds.get(src, "item:p").split(":")[1]
                elif l in holders and not lhs["proj"] and rv["k"] != "discr":
                    self._ev(("overwritten", bid, "local %s holding an item is overwritten at line %s" % (body.name_of(l), s["line"])))
                    holders.discard(l)
            t = blk["term"]
            k = t["k"]
            nxt_states = []
            if k == "call":
                c = norm(t.get("callee") or "") or ""
                moved_in = [self._moves_from(a, holders) for a in t["args"]]
                moved_in = [m for m in moved_in if m is not None]
                sk = self.sinks(c, t) if moved_in else None
                dest = t["dest"]["l"]
                if moved_in:
                    origin = "p" if any(kinds.get(m, "item:p").endswith(":p") for m in moved_in) else "s"
                    for m in moved_in:
                        holders.discard(m)
                    if sk == "consume":
                        if origin == "p":
                            consumed = min(2, consumed + 1)
                    elif sk == "maybe-return":
                        holders.add(dest)      # Err(item) hands it back; the Ok arm consumes (decided at the switch)
                        kinds[dest] = "push-result:" + origin
                    elif c == "<std::option::Option as std::ops::Try>::branch":
                        # `opt?`: the item (if any) travels in Continue; Break carries no value
                        holders.add(dest)
                        kinds[dest] = "optcf:" + origin
                    elif self.transparent(c, t):
                        holders.add(dest)
                        kinds[dest] = "item:" + origin
                    else:
                        self._ev(("escaped", bid, "item moved into %s at line %s, which is not a modelled sink" % (c or "<fn pointer>", t["line"])))
                elif self.sources(c, t):
                    if dest in holders:
                        self._ev(("overwritten", bid, "local %s holding an item is overwritten by %s at line %s" % (body.name_of(dest), c, t["line"])))
                    holders.add(dest)
                    kinds[dest] = "item:s"
                    ctx = ()          # a fresh item: arm context of the previous one no longer applies
                if t.get("target") is not None:
                    nxt_states.append((t["target"], holders, consumed, flags))
            elif k == "switch":
                si = switch_info(body, self.du, bid)
                dl = op_local(t["discr"])
                if self.watch and si["kind"] == "discr" and self.watch(norm(si["adt"] or "")) and not (si["place"]["l"] in holders and not si["place"]["proj"]):
                    tg = {}
                    for name, bb in si["arms"].items():
                        tg.setdefault(bb, []).append(name)
                    for bb in term_succs(t):
                        names = tuple(sorted(tg.get(bb) or si.get("rest") or ["?"]))
                        nxt_states.append((bb, holders, consumed, flags, names))
                    for item in nxt_states:
                        pass
                    for (bb, hs, cs, fl, cx) in nxt_states:
                        work.append((bb, (frozenset((h, kinds.get(h, "item:p")) for h in hs), cs, frozenset(fl.items()), cx)))
                    continue
                if si["kind"] == "discr" and si["place"]["l"] in holders and not si["place"]["proj"]:
                    h = si["place"]["l"]
                    tg = {}
                    for name, bb in si["arms"].items():
                        tg.setdefault(bb, []).append(name)
                    succs = term_succs(t)
                    for bb in succs:
                        names = tg.get(bb)
                        if names is None:
                            names = si.get("rest") or ["?"]
                        hs = set(holders)
                        if all(n in EMPTY_VARIANTS for n in names) or (kinds.get(h, "").startswith("optcf:") and list(names) == ["Break"]):
                            hs.discard(h)
                            cs = consumed
                            if kinds.get(h) == "push-result:p" and "Ok" in names:
                                cs = min(2, consumed + 1)
                            nxt_states.append((bb, hs, cs, flags))
                        else:
                            nxt_states.append((bb, hs, consumed, flags))
                elif dl is not None and dl in flags and not t["discr"]["p"]["proj"]:
                    v = 1 if flags[dl] else 0
                    tgt = None
                    for val, bb in t["targets"]:
                        if int(val) == v:
                            tgt = bb
                    nxt_states.append((tgt if tgt is not None else t["otherwise"], holders, consumed, flags))
                elif self._variant_test(bid, t, holders) is not None:
                    # `if x.is_some()` / `is_none()` / `is_ok()` / `is_err()` on a holder: the same narrowing as a match on it
                    h, edges = self._variant_test(bid, t, holders)
                    for bb in term_succs(t):
                        hs, cs = set(holders), consumed
                        if edges.get(bb) in EMPTY_VARIANTS:
                            hs.discard(h)
                            if kinds.get(h) == "push-result:p" and edges[bb] == "Ok":
                                cs = min(2, consumed + 1)
                        nxt_states.append((bb, hs, cs, flags))
                else:
                    for bb in term_succs(t):
                        nxt_states.append((bb, holders, consumed, flags))
            elif k == "drop":
                pl = t["p"]
                if pl["l"] in holders and not pl["proj"]:
                    self._ev(("dropped", bid, "item held in %s is dropped at line %s" % (body.name_of(pl["l"]), t["line"])))
                    holders.discard(pl["l"])
                nxt_states.append((t["target"], holders, consumed, flags))
            elif k == "return":
                self.exits.append((bid, frozenset(holders), consumed))
                left = [h for h in holders if h != 0]
                for h in left:
                    if kinds.get(h, "").startswith("push-result"):
                        self._ev(("unchecked", bid, "result of a fallible push (%s) is never inspected: an Err(item) would be lost" % body.name_of(h)))
                if left:
                    self._ev(("leaked", bid, "function returns while %s still hold(s) an item" % ", ".join(body.name_of(h) for h in left)))
            else:
                for bb in term_succs(t):
                    nxt_states.append((bb, holders, consumed, flags))
            for (bb, hs, cs, fl) in nxt_states:
                work.append((bb, (frozenset((h, kinds.get(h, "item:p")) for h in hs), cs, frozenset(fl.items()), ctx)))
