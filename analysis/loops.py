"""P6: loop progress classifier.  For every natural loop (header h, body L) a fixpoint walk over
(block, progress?, relations) decides whether some cycle through h can complete without a progress step.

Progress steps:
  iter     – Iterator::next on an iterator that is created outside L, over a finite source
  retry    – the Retry arm of a match on crossbeam's Steal (lock-free retry: another thread made progress)
  counter  – `c = c + k` (k > 0 constant) on a counter c that an exit test of L bounds by a loop-invariant value
Relations: after `s = copy c` the pair (c, s) is `eq` until either is redefined; an increment of c makes it `gt`;
a branch on `c == s` / `c != s` is pruned accordingly (the progress-sentinel idiom)."""
from .cfg import Cfg, term_succs
from .flow import DefUse, op_local, op_const, switch_info
from .facts import norm

FINITE_ITERS = (
    "std::ops::Range", "std::ops::RangeInclusive", "crossbeam_skiplist::map::Iter", "std::iter::Rev", "std::iter::Skip", "std::iter::Take",
    "std::collections::vec_deque::Iter", "std::collections::vec_deque::IterMut", "std::slice::Iter", "std::slice::IterMut", "std::vec::IntoIter",
    "std::collections::vec_deque::IntoIter", "dashmap::iter::Iter", "dashmap::iter_set::Iter", "std::collections::hash_map::Iter", "std::collections::hash_set::Iter",
    "std::iter::Enumerate", "std::iter::Zip", "std::iter::Map", "std::iter::Filter", "std::iter::Copied", "std::iter::Cloned", "std::collections::binary_heap::Iter",
    "std::collections::hash_map::Keys", "std::collections::hash_map::Values", "std::str::Chars", "std::collections::hash_set::IntoIter", "std::collections::hash_map::IntoIter",
    "io_uring::cqueue::CompletionQueue", "mio::event::Iter", "mio::event::events::Iter",
)


def is_iter_next(t):
    return (norm(t.get("trait") or "").endswith("iter::Iterator") or norm(t.get("trait") or "").endswith("iter::traits::iterator::Iterator")) and norm(t.get("orig") or "").endswith("::next")


def iter_type_ok(t):
    c = norm(t.get("callee") or "")
    # resolved impl: `<X as Iterator>::next`
    if c.startswith("<") and " as " in c:
        ty = c[1:].split(" as ")[0].lstrip("&").replace("'a ", "").replace("mut ", "")
        return any(ty.startswith(f) for f in FINITE_ITERS), ty
    return False, c


class LoopReport:
    def __init__(self, body, header, blocks):
        self.body = body
        self.header = header
        self.blocks = blocks
        self.kinds = set()
        self.bad_cycle = None
        self.why = None
        self.line = body.blocks[header]["term"]["line"]
        self.counters = []

    @property
    def ok(self):
        return self.bad_cycle is None and self.why is None


def _base_local_of_ref(du, l, depth=6):
    """Follow `_x = &mut _y` / copies to the local that owns the iterator."""
    seen = set()
    while depth > 0 and l not in seen:
        seen.add(l)
        depth -= 1
        ds = du.defs.get(l, [])
        if len(ds) != 1 or ds[0][2] != "assign":
            return l
        rv = ds[0][3]["rhs"]
        if rv["k"] in ("ref", "rawptr") and not [e for e in rv["p"]["proj"] if e != "deref"]:
            l = rv["p"]["l"]
        elif rv["k"] == "use" and op_local(rv["a"]) is not None and not rv["a"]["p"]["proj"]:
            l = op_local(rv["a"])
        else:
            return l
    return l


def classify(body):
    cfg = Cfg(body)
    du = DefUse(body)
    loops = cfg.natural_loops()
    out = []
    for h, L in sorted(loops.items()):
        rep = LoopReport(body, h, L)
        out.append(rep)
        def_blocks = {}
        for l, ds in du.defs.items():
            def_blocks[l] = {d[0] for d in ds}
        for l, ds in du.maydefs.items():
            def_blocks.setdefault(l, set()).update(d[0] for d in ds)

        def root(bid, op):
            """Resolve a comparison operand through temporaries copied earlier in the same block."""
            l = op_local(op)
            n = 0
            while l is not None and n < 4:
                n += 1
                ds = du.defs.get(l, [])
                if len(ds) == 1 and ds[0][0] == bid and ds[0][2] == "assign" and ds[0][3]["rhs"]["k"] == "use" and not ds[0][3]["lhs"]["proj"] \
                        and ds[0][3]["rhs"]["a"]["k"] in ("copy", "move") and not ds[0][3]["rhs"]["a"]["p"]["proj"] and body.name_of(l).startswith("_"):
                    l = ds[0][3]["rhs"]["a"]["p"]["l"]
                else:
                    break
            return l

        def invariant(op):
            l = op_local(op)
            if l is None:
                return True
            return not (def_blocks.get(l, set()) & L)

        # ---- counters: c = move (t.0) with t = AddWithOverflow(copy c, const k>0) | c = Add(c, k)
        incs = {}   # block -> set of counters incremented in that block
        counter_ok = {}
        for l, ds in du.defs.items():
            inl = [d for d in ds if d[0] in L]
            if not inl:
                continue
            good = True
            for (bid, idx, kind, s) in inl:
                if kind != "assign":
                    good = False
                    break
                rv = s["rhs"]
                src = None
                if rv["k"] == "use" and rv["a"]["k"] in ("move", "copy") and rv["a"]["p"]["proj"]:
                    tl = rv["a"]["p"]["l"]
                    tds = du.defs.get(tl, [])
                    if len(tds) == 1 and tds[0][2] == "assign" and tds[0][3]["rhs"]["k"] == "binop":
                        src = tds[0][3]["rhs"]
                elif rv["k"] == "binop":
                    src = rv
                if src is None or src["op"] not in ("Add", "AddWithOverflow", "AddUnchecked"):
                    good = False
                    break
                a, b_ = src["a"], src["b"]
                k = op_const(b_) if op_local(a) == l else op_const(a) if op_local(b_) == l else None
                if k is None or k <= 0:
                    good = False
                    break
            if good:
                counter_ok[l] = True
                for (bid, idx, kind, s) in inl:
                    incs.setdefault(bid, set()).add(l)
        # bounded: an exit test of L compares the counter with an invariant operand
        bounded = set()
        for bid in L:
            t = body.blocks[bid]["term"]
            if t["k"] != "switch":
                continue
            if not any(s not in L for s in term_succs(t)):
                # both edges stay in the loop: still a guard if one edge leads only to exits... keep simple
                pass
            dl = op_local(t["discr"])
            ds = du.defs.get(dl, []) if dl is not None else []
            for d in ds:
                if d[2] == "assign" and d[3]["rhs"]["k"] == "binop" and d[3]["rhs"]["op"] in ("Lt", "Le", "Gt", "Ge", "Ne", "Eq"):
                    a, b_ = d[3]["rhs"]["a"], d[3]["rhs"]["b"]
                    for (x, y) in ((a, b_), (b_, a)):
                        xl = root(d[0], x)
                        yl = root(d[0], y)
                        y_inv = yl is None or not (def_blocks.get(yl, set()) & L)
                        if xl in counter_ok and y_inv and d[3]["rhs"]["op"] in ("Lt", "Le", "Gt", "Ge"):
                            bounded.add(xl)
        rep.counters = sorted(body.name_of(c) for c in bounded)
        # sentinel copies: s = copy c inside L
        copies = {}   # block -> list of (idx, s, c)
        for bid in L:
            for i, s in enumerate(body.blocks[bid]["stmts"]):
                if s["k"] == "assign" and not s["lhs"]["proj"] and s["rhs"]["k"] == "use" and s["rhs"]["a"]["k"] in ("copy", "move") and not s["rhs"]["a"]["p"]["proj"]:
                    c = s["rhs"]["a"]["p"]["l"]
                    if c in counter_ok:
                        copies.setdefault(bid, []).append((i, s["lhs"]["l"], c))

        def step_block(bid, progress, rels):
            rels = dict(rels)
            blk = body.blocks[bid]
            for i, s in enumerate(blk["stmts"]):
                if s["k"] != "assign" or s["lhs"]["proj"]:
                    continue
                l = s["lhs"]["l"]
                handled = False
                for (ci, sl_, c) in copies.get(bid, []):
                    if ci == i:
                        rels[(c, sl_)] = "eq"
                        handled = True
                if handled:
                    continue
                if l in counter_ok and l in incs.get(bid, set()):
                    for k in list(rels):
                        if k[0] == l:
                            rels[k] = "gt"
                    if l in bounded:
                        progress = True
                        rep.kinds.add("counter")
                    continue
                for k in list(rels):
                    if l in k:
                        del rels[k]
                # a progress flag: `let mut progressed = false; .. progressed = true; .. if !progressed { break }`
                rv_ = s["rhs"]
                if rv_["k"] == "use" and rv_["a"]["k"] == "const" and rv_["a"].get("ty") == "bool" and "v" in rv_["a"]:
                    rels[(-1, l)] = int(rv_["a"]["v"])
                elif rv_["k"] in ("use", "unop") and rv_.get("a") and rv_["a"]["k"] in ("copy", "move") and not rv_["a"]["p"]["proj"] and (-1, rv_["a"]["p"]["l"]) in rels:
                    if rv_["k"] == "use":
                        rels[(-1, l)] = rels[(-1, rv_["a"]["p"]["l"])]
                    elif rv_["op"] == "Not":
                        rels[(-1, l)] = 1 - rels[(-1, rv_["a"]["p"]["l"])]
            t = blk["term"]
            succs = []
            if t["k"] == "call":
                if is_iter_next(t):
                    recv = op_local(t["args"][0]) if t["args"] else None
                    base = _base_local_of_ref(du, recv) if recv is not None else None
                    okty, ty = iter_type_ok(t)
                    outside = base is not None and not (def_blocks.get(base, set()) & L)
                    if outside and okty:
                        progress = True
                        rep.kinds.add("iter")
                    elif outside and not okty:
                        rep.why = rep.why or "iterates %s, which is not a modelled finite iterator" % ty
                if t.get("target") is not None:
                    succs.append((t["target"], progress, rels))
            elif t["k"] == "switch":
                si = switch_info(body, du, bid)
                dl = op_local(t["discr"])
                pruned = None
                if si["kind"] == "bool" and dl is not None:
                    # the tested bool may be a named copy and/or a negation of the comparison (`let p = a != b; if !p`)
                    neg, cl, n_ = False, dl, 0
                    ds = du.defs.get(cl, [])
                    while n_ < 6 and len(ds) == 1 and ds[0][2] == "assign" and not ds[0][3]["lhs"]["proj"]:
                        n_ += 1
                        rv_ = ds[0][3]["rhs"]
                        if rv_["k"] == "use" and rv_["a"]["k"] in ("copy", "move") and not rv_["a"]["p"]["proj"]:
                            cl = rv_["a"]["p"]["l"]
                        elif rv_["k"] == "unop" and rv_["op"] == "Not" and rv_["a"]["k"] in ("copy", "move") and not rv_["a"]["p"]["proj"]:
                            cl, neg = rv_["a"]["p"]["l"], not neg
                        else:
                            break
                        ds = du.defs.get(cl, [])
                    if len(ds) == 1 and ds[0][2] == "assign" and ds[0][3]["rhs"]["k"] == "binop" and ds[0][3]["rhs"]["op"] in ("Eq", "Ne"):
                        rv = ds[0][3]["rhs"]
                        a, b_ = root(ds[0][0], rv["a"]), root(ds[0][0], rv["b"])
                        rel = rels.get((a, b_)) or rels.get((b_, a))
                        if rel in ("eq", "gt"):
                            val = (rel == "eq") if rv["op"] == "Eq" else (rel != "eq")
                            if neg:
                                val = not val
                            pruned = 1 if val else 0
                if pruned is None and si["kind"] == "bool" and dl is not None and not t["discr"]["p"]["proj"] and (-1, dl) in rels:
                    pruned = rels[(-1, dl)]
                retry_edge = None
                if pruned is None and si["kind"] == "bool" and dl is not None and not t["discr"]["p"]["proj"]:
                    # `if stolen.is_retry() { continue }`: the bool form of the Retry arm
                    from .table import bool_origin
                    o = bool_origin(du, dl)
                    if o is not None and norm(body.blocks[o[0]]["term"].get("callee") or "") == "crossbeam_deque::Steal::is_retry":
                        want = 0 if o[1] else 1
                        listed = [bb for v, bb in t["targets"] if int(v) == want]
                        other = [bb for v, bb in t["targets"] if int(v) != want]
                        retry_edge = listed[0] if listed else (t["otherwise"] if other else None)
                if retry_edge is not None:
                    rep.kinds.add("retry")
                    for bb in term_succs(t):
                        succs.append((bb, True if bb == retry_edge else progress, rels))
                elif pruned is not None:
                    tgt = None
                    for v, bb in t["targets"]:
                        if int(v) == pruned:
                            tgt = bb
                    succs.append((tgt if tgt is not None else t["otherwise"], progress, rels))
                elif si["kind"] == "discr" and norm(si["adt"] or "").endswith("Steal"):
                    for name, bb in si["arms"].items():
                        if name == "Retry":
                            rep.kinds.add("retry")
                            succs.append((bb, True, rels))
                        else:
                            succs.append((bb, progress, rels))
                    covered = set(si["arms"].values())
                    if t["otherwise"] not in covered and body.blocks[t["otherwise"]]["term"]["k"] != "unreachable":
                        rest = si.get("rest") or []
                        succs.append((t["otherwise"], True if rest == ["Retry"] else progress, rels))
                else:
                    for bb in term_succs(t):
                        succs.append((bb, progress, rels))
            else:
                for bb in term_succs(t):
                    succs.append((bb, progress, rels))
            return succs

        seen = set()
        work = [(h, False, (), (h,))]
        first = True
        while work and rep.bad_cycle is None:
            bid, progress, rels, path = work.pop()
            if bid == h and not first:
                if not progress:
                    rep.bad_cycle = list(path)
                continue
            first = False
            key = (bid, progress, rels)
            if key in seen:
                continue
            seen.add(key)
            for (nb, p2, r2) in step_block(bid, progress, dict(rels)):
                if nb not in L:
                    continue
                work.append((nb, p2, tuple(sorted(r2.items())), path + (nb,) if len(path) < 60 else path))
        rep.states = len(seen)
    return out
