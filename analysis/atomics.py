"""T4: atomic read-modify-write discipline.  A `store(v)` on an atomic whose `v` data-depends on a `load`
of the same atomic (directly or through a repo-local getter, inlining bound 2) is a lost-update window."""
from .facts import norm
from .flow import DefUse, ReachingDefs, backward, op_local, op_place

ATOMIC_RX = ("std::sync::atomic::Atomic", "core::sync::atomic::Atomic")


def is_atomic_method(t, name):
    c = norm(t.get("callee") or "")
    return c.startswith(ATOMIC_RX) and c.endswith("::" + name)


def receiver_key(body, du, op, depth=8):
    """Resolve a `&self.field` receiver operand to (adt, field) of the innermost field projection,
    or ('static', path) for statics; None if unknown."""
    seen = 0
    while op is not None and seen < depth:
        seen += 1
        if op["k"] == "const":
            if "static" in op:
                return ("static", op["static"])
            return None
        p = op["p"]
        fs = [e for e in p["proj"] if isinstance(e, dict) and "f" in e]
        if fs:
            e = fs[-1]
            return (norm(e.get("of") or "?"), e["f"])
        ds = du.defs.get(p["l"], [])
        nxt = None
        for (_b, _i, kind, s) in ds:
            if kind == "assign":
                rv = s["rhs"]
                if rv["k"] in ("ref", "rawptr"):
                    fs = [e for e in rv["p"]["proj"] if isinstance(e, dict) and "f" in e]
                    if fs:
                        e = fs[-1]
                        return (norm(e.get("of") or "?"), e["f"])
                    nxt = {"k": "copy", "p": rv["p"]}
                elif rv["k"] in ("use", "cast"):
                    nxt = rv["a"]
            elif kind == "call":
                # Deref of a Lazy static etc.
                if s["args"]:
                    nxt = s["args"][0]
        op = nxt
    return None


class AtomicModel:
    def __init__(self, facts, bound=2):
        self.facts = facts
        self.bound = bound
        self._sum = {}

    def loads_in_return(self, body, depth=0):
        """Atomic keys whose loaded value flows into the return value of `body` (getter summary)."""
        key = (body.path, depth)
        if key in self._sum:
            return self._sum[key]
        self._sum[key] = set()
        du = DefUse(body)
        sl = backward(body, 0, du)
        out = self._loads_of_slice(body, du, sl, depth)
        self._sum[key] = out
        return out

    def _loads_of_slice(self, body, du, sl, depth):
        out = set()
        for (bid, t) in sl.calls:
            if is_atomic_method(t, "load"):
                k = receiver_key(body, du, t["args"][0])
                if k:
                    out.add(k)
            elif t.get("local") and depth < self.bound:
                cb = self.facts.body(norm(t["callee"]))
                if cb is not None and cb.kind != "Closure":
                    out |= self.loads_in_return(cb, depth + 1)
        return out

    def stores(self):
        """Yield (body, bid, term, key, loaded_keys) for every atomic store in the crate."""
        for body in self.facts.bodies:
            du = None
            for bid, t in body.calls():
                if t.get("exp"):
                    continue
                if is_atomic_method(t, "store"):
                    du = du or DefUse(body)
                    k = receiver_key(body, du, t["args"][0])
                    sl = backward(body, t["args"][1], du, at=(bid, "term"))
                    loaded = self._loads_of_slice(body, du, sl, 0)
                    yield body, bid, t, k, loaded

    def rmw_calls(self, body):
        """atomic RMW operations in a body: [(bid, term, key, method)]"""
        out = []
        du = None
        for bid, t in body.calls():
            c = norm(t.get("callee") or "")
            if c.startswith(ATOMIC_RX):
                m = c.rsplit("::", 1)[1]
                if m.startswith(("fetch_", "compare_exchange", "swap")):
                    du = du or DefUse(body)
                    out.append((bid, t, receiver_key(body, du, t["args"][0]), m))
        return out


def role_field(facts, adt, accessor, default):
    """The private atomic field of `adt` that plays a role, found through the accessor that defines the role instead of
    through the field's name (a private field may be renamed freely): the field `accessor` performs an atomic operation
    on.  `default` (the name in the reference tree) is used when the accessor no longer exists or touches no atomic of
    `adt`; the rule then behaves as before and a renamed field shows up as a missing writer."""
    from .flow import DefUse
    for b in facts.by_npath.get(accessor, []):
        du = DefUse(b)
        found = []
        for (_x, t) in b.calls():
            c = norm(t.get("callee") or "")
            if c.startswith("std::sync::atomic::Atomic::") and t["args"]:
                k = receiver_key(b, du, t["args"][0])
                if k and k[0] == adt:
                    found.append(k[1])
        if len(set(found)) == 1:
            return found[0]
    return default
