"""P11: fact-level inlining.  A rule that reasons about one function's control flow must not depend on how the
author cut that function into pieces: a helper extracted from it, a closure handed to `Option::map_or_else`, an RAII
guard whose `Drop` does the clean-up are the same behaviour.  `inline(body, facts, ...)` returns a new Body in which

  * calls to repo-local functions (resolved, non-recursive, not in `keep`) are replaced by the callee's blocks,
  * direct calls of closures defined in the function are replaced by the closure's blocks (the tupled argument is
    spread, the environment is the closure value itself),
  * calls of the std combinators in MODELS whose closure argument is a closure defined in the function are replaced
    by the combinator's control flow (a switch on the discriminant) around the closure's blocks,
  * `drop` of a value whose type has a repo-local `Drop` impl is replaced by that impl's blocks.

Locals of an inlined callee are appended to the caller's (debug names prefixed `<callee>.`), parameters are assigned
from the arguments, `return` becomes an assignment to the destination and a goto.  The result is ordinary fact JSON, so
every analysis (Cfg, DefUse, PathWalker, Linear, nioabs ...) runs on it unchanged.  `body.inlined` lists what was spliced.
"""
import copy
from .facts import Body, norm

MAX_SPLICES = 60
MAX_DEPTH = 4


def _is_place(d):
    return isinstance(d, dict) and "l" in d and "proj" in d and isinstance(d["proj"], list)


def _remap(x, lmap, bmap, unwind_to):
    """Deep-copy a statement/terminator of a callee, renumbering locals and blocks."""
    if isinstance(x, list):
        return [_remap(e, lmap, bmap, unwind_to) for e in x]
    if not isinstance(x, dict):
        return x
    if _is_place(x):
        pr = []
        for e in x["proj"]:
            if isinstance(e, dict) and "idx" in e:
                e = dict(e)
                e["idx"] = lmap(e["idx"])
            pr.append(e)
        return {"l": lmap(x["l"]), "proj": pr}
    out = {}
    for k, v in x.items():
        if k == "target" and isinstance(v, int):
            out[k] = bmap(v)
        elif k == "otherwise" and isinstance(v, int):
            out[k] = bmap(v)
        elif k == "targets":
            if v and isinstance(v[0], list):
                out[k] = [[a, bmap(b)] for a, b in v]
            else:
                out[k] = [bmap(b) for b in v]
        elif k == "unwind":
            if isinstance(v, int):
                out[k] = bmap(v)
            elif v == "continue" and unwind_to is not None:
                out[k] = unwind_to
            else:
                out[k] = v
        else:
            out[k] = _remap(v, lmap, bmap, unwind_to)
    return out


class _Builder:
    def __init__(self, body, facts):
        self.facts = facts
        self.src = body
        self.raw = copy.deepcopy({k: v for k, v in body.raw.items()})
        self.locals = self.raw["locals"]
        self.blocks = self.raw["blocks"]
        self.debug = self.raw["debug"]
        self.depth = {}      # block id -> (depth, stack of callee paths)
        self.inlined = []
        self.splices = 0

    def new_local(self, ty, name=None):
        self.locals.append(ty)
        l = len(self.locals) - 1
        if name:
            self.debug.append({"name": name, "p": {"l": l, "proj": []}, "arg": None})
        return l

    def new_block(self, stmts, term, cleanup=False, ctx=None):
        bid = len(self.blocks)
        self.blocks.append({"id": bid, "cleanup": cleanup, "stmts": stmts, "term": term})
        if ctx is not None:
            self.depth[bid] = ctx
        return bid

    def ctx(self, bid):
        return self.depth.get(bid, (0, ()))

    # ---- what a call resolves to ----
    def callee_body(self, t):
        if not t.get("local") or not t.get("resolved", True):
            return None
        cands = self.facts.by_npath.get(norm(t["callee"])) or []
        cands = [c for c in cands if c.kind != "Promoted"]
        exact = [c for c in cands if c.path == t["callee"]]
        cands = exact or cands
        if len(cands) != 1:
            return None
        return cands[0]

    def closure_of_operand(self, op):
        """The closure body an operand denotes, when the operand is a local assigned exactly one closure aggregate
        (possibly through moves/copies/refs of such a local)."""
        seen = set()
        while op is not None and op.get("k") in ("move", "copy") and not [e for e in op["p"]["proj"] if e != "deref"]:
            l = op["p"]["l"]
            if l in seen:
                return None
            seen.add(l)
            defs = []
            for b in self.blocks:
                for s in b["stmts"]:
                    if s["k"] == "assign" and s["lhs"]["l"] == l and not s["lhs"]["proj"]:
                        defs.append(s)
                t = b["term"]
                if t["k"] == "call" and t.get("dest") and t["dest"]["l"] == l:
                    return None
            if len(defs) != 1:
                return None
            rv = defs[0]["rhs"]
            if rv["k"] == "agg" and rv.get("closure"):
                cands = [c for c in self.facts.by_npath.get(norm(rv["closure"])) or [] if c.path == rv["closure"] and c.kind != "Promoted"]
                return cands[0] if len(cands) == 1 else None
            if rv["k"] == "use":
                op = rv["a"]
            elif rv["k"] == "ref":
                op = {"k": "copy", "p": rv["p"]}
            else:
                return None
        return None

    # ---- splicing ----
    def splice(self, bid, callee, args, dest, target, unwind, spread_tuple, line, env_by_value_of=None):
        """Replace the terminator of block `bid` by the blocks of `callee` called with operands `args`."""
        d, stack = self.ctx(bid)
        base = len(self.locals)
        seg = callee.path.rsplit("::", 1)[-1]
        if "{closure" in seg:
            seg = callee.path.rsplit("::", 2)[-2] + "::" + seg
        for i, ty in enumerate(callee.locals):
            self.locals.append(ty)
        for dbg in callee.raw["debug"]:
            self.debug.append({"name": seg + "." + dbg["name"], "p": _remap(dbg["p"], lambda l: base + l, lambda b: b, None), "arg": None})
        b0 = len(self.blocks)
        lmap = lambda l: base + l
        bmap = lambda b: b0 + b
        uw = unwind if isinstance(unwind, int) else None
        ctx = (d + 1, stack + (callee.path,))
        for cb in callee.blocks:
            nb = {"id": b0 + cb["id"], "cleanup": cb["cleanup"], "stmts": _remap(cb["stmts"], lmap, bmap, uw), "term": None}
            t = cb["term"]
            if t["k"] == "return":
                st = []
                if dest is not None:
                    st.append({"k": "assign", "lhs": copy.deepcopy(dest), "rhs": {"k": "use", "a": {"k": "move", "p": {"l": base, "proj": []}}}, "line": t.get("line", line), "exp": False, "inl": "ret"})
                nb["stmts"] = nb["stmts"] + st
                nb["term"] = {"k": "goto", "target": target, "line": t.get("line", line), "exp": False} if target is not None else {"k": "unreachable", "line": line, "exp": False}
            elif t["k"] == "resume" and uw is not None:
                nb["term"] = {"k": "goto", "target": uw, "line": t.get("line", line), "exp": False}
            else:
                nb["term"] = _remap(t, lmap, bmap, uw)
            self.blocks.append(nb)
            self.depth[nb["id"]] = ctx
        # parameter binding
        st = []
        params = list(range(1, callee.argc + 1))
        if spread_tuple:
            # args = [env, tuple]; callee params = env, then the tuple's elements
            if params:
                st.append({"k": "assign", "lhs": {"l": base + 1, "proj": []}, "rhs": {"k": "use", "a": args[0]}, "line": line, "exp": False, "inl": "param"})
            tup = args[1] if len(args) > 1 else None
            for j, p in enumerate(params[1:]):
                if tup is None or tup["k"] == "const":
                    continue
                e = {"k": tup["k"], "p": {"l": tup["p"]["l"], "proj": tup["p"]["proj"] + [{"f": str(j), "i": j, "ty": callee.locals[p], "of": None}]}}
                st.append({"k": "assign", "lhs": {"l": base + p, "proj": []}, "rhs": {"k": "use", "a": e}, "line": line, "exp": False, "inl": "param"})
        else:
            for p, a in zip(params, args):
                st.append({"k": "assign", "lhs": {"l": base + p, "proj": []}, "rhs": {"k": "use", "a": a}, "line": line, "exp": False, "inl": "param"})
        blk = self.blocks[bid]
        blk["stmts"] = blk["stmts"] + st
        blk["term"] = {"k": "goto", "target": b0, "line": line, "exp": False, "inl": callee.path}
        self.inlined.append(callee.path)
        self.splices += 1

    # ---- combinator models ----
    def model(self, bid, t):
        """Rewrite a modelled combinator call at block `bid` into explicit control flow whose closure invocations are
        direct (spread) calls, which the main loop then splices.  Returns True when rewritten."""
        c = norm(t["callee"] or "")
        if c in ITER_MODELS:
            return self.iter_model(bid, t, c)
        m = MODELS.get(c)
        if not m:
            return False
        args = t["args"]
        kind, recv_variants = m["on"], m["arms"]
        # every closure argument used by the model must be a closure of this function
        clos = {}
        for arm in recv_variants.values():
            for step in arm:
                if step[0] in ("call", "callref"):
                    i = step[1]
                    if i >= len(args):
                        return False
                    cb = self.closure_of_operand(args[i])
                    if cb is None:
                        return False
                    clos[i] = cb
        if not clos and not m.get("pure"):
            return False
        ctx = self.ctx(bid)
        line = t.get("line")
        dest, target, unwind = t.get("dest"), t.get("target"), t.get("unwind")
        recv = args[0]
        if recv["k"] == "const" and kind != "always":
            return False
        rp = recv.get("p")
        blk = self.blocks[bid]
        if kind == "always":
            arms = {"_": recv_variants["_"]}
        else:
            arms = recv_variants
        arm_entry = {}
        for vname, steps in arms.items():
            stmts = []
            cur = self.new_block(stmts, None, ctx=ctx)
            arm_entry[vname] = cur
            val = None   # operand holding the current value
            for step in steps:
                op = step[0]
                if op == "payload":
                    vi = VARIANT_INDEX[kind][vname]
                    val = {"k": "move", "p": {"l": rp["l"], "proj": rp["proj"] + [{"dc": vname, "vi": vi}, {"f": "0", "i": 0, "ty": "?", "of": ADT_OF[kind]}]}}
                elif op == "payloadref":
                    vi = VARIANT_INDEX[kind][vname]
                    tmp = self.new_local("&?")
                    self.blocks[cur]["stmts"].append({"k": "assign", "lhs": {"l": tmp, "proj": []}, "rhs": {"k": "ref", "mut": False, "p": {"l": rp["l"], "proj": rp["proj"] + [{"dc": vname, "vi": vi}, {"f": "0", "i": 0, "ty": "?", "of": ADT_OF[kind]}]}}, "line": line, "exp": False})
                    val = {"k": "move", "p": {"l": tmp, "proj": []}}
                elif op == "arg":
                    val = args[step[1]]
                elif op == "recv":
                    val = recv
                elif op == "opaque":
                    tmp = self.new_local(step[1])
                    self.blocks[cur]["stmts"].append({"k": "assign", "lhs": {"l": tmp, "proj": []}, "rhs": {"k": "other", "dbg": "model:" + c}, "line": line, "exp": False})
                    val = {"k": "move", "p": {"l": tmp, "proj": []}}
                elif op == "const":
                    val = {"k": "const", "ty": step[1], "v": step[2]}
                elif op in ("call", "callref"):
                    i = step[1]
                    cb = clos[i]
                    env = args[i]
                    # the closure body's `_1` is the environment: by reference for Fn/FnMut closures
                    if cb.argc >= 1 and cb.locals[1].startswith("&"):
                        e = self.new_local(cb.locals[1])
                        self.blocks[cur]["stmts"].append({"k": "assign", "lhs": {"l": e, "proj": []}, "rhs": {"k": "ref", "mut": cb.locals[1].startswith("&mut"), "p": env["p"]}, "line": line, "exp": False})
                        env = {"k": "move", "p": {"l": e, "proj": []}}
                    res = self.new_local(cb.locals[0])
                    nxt = self.new_block([], None, ctx=ctx)
                    cargs = [env] + ([val] if (val is not None and step[2]) else [])
                    self.blocks[cur]["term"] = {"k": "call", "callee": cb.path, "callee_full": cb.path, "orig": c, "resolved": True, "trait": None, "local": True, "substs": [],
                                               "args": cargs, "dest": {"l": res, "proj": []}, "target": nxt, "unwind": unwind, "line": line, "exp": False, "direct": True}
                    cur = nxt
                    val = {"k": "move", "p": {"l": res, "proj": []}}
                elif op == "wrap":
                    tmp = self.new_local("?")
                    self.blocks[cur]["stmts"].append({"k": "assign", "lhs": {"l": tmp, "proj": []}, "rhs": {"k": "agg", "adt": step[1], "variant": step[2], "fields": ["0"] if val is not None else [], "ops": [val] if val is not None else []}, "line": line, "exp": False})
                    val = {"k": "move", "p": {"l": tmp, "proj": []}}
            if dest is not None and val is not None:
                self.blocks[cur]["stmts"].append({"k": "assign", "lhs": copy.deepcopy(dest), "rhs": {"k": "use", "a": val}, "line": line, "exp": False})
            self.blocks[cur]["term"] = {"k": "goto", "target": target, "line": line, "exp": False} if target is not None else {"k": "unreachable", "line": line, "exp": False}
        if kind == "always":
            blk["term"] = {"k": "goto", "target": arm_entry["_"], "line": line, "exp": False, "model": c}
        else:
            dl = self.new_local("isize")
            blk["stmts"] = blk["stmts"] + [{"k": "assign", "lhs": {"l": dl, "proj": []}, "rhs": {"k": "discr", "p": copy.deepcopy(rp), "adt": ADT_OF[kind]}, "line": line, "exp": False}]
            names = list(VARIANT_INDEX[kind].items())
            (n0, i0), (n1, i1) = names
            blk["term"] = {"k": "switch", "discr": {"k": "move", "p": {"l": dl, "proj": []}}, "dty": "isize",
                           "targets": [[str(i0), arm_entry[n0]]], "otherwise": arm_entry[n1], "line": line, "exp": False, "model": c}
        self.inlined.append("model:" + c)
        return True

    def iter_model(self, bid, t, c):
        """`it.find_map(f)`, `find`, `any`, `all`, `for_each`, `position`: the loop std runs, written out:
             head:  n = Iterator::next(&mut it);  match n { None => exit, Some(e) => body }
             body:  r = f(e);  <test r> => found / head
        so a scan written with a combinator and the same scan written as a `for` loop have the same shape."""
        args = t["args"]
        kind = ITER_MODELS[c]
        if len(args) != 2 or args[0]["k"] == "const":
            return False
        cb = self.closure_of_operand(args[1])
        if cb is None:
            return False
        ctx = self.ctx(bid)
        line = t.get("line")
        dest, target, unwind = t.get("dest"), t.get("target"), t.get("unwind")
        goto = lambda bb: {"k": "goto", "target": bb, "line": line, "exp": False} if bb is not None else {"k": "unreachable", "line": line, "exp": False}
        asg = lambda l, rv: {"k": "assign", "lhs": {"l": l, "proj": []} if isinstance(l, int) else copy.deepcopy(l), "rhs": rv, "line": line, "exp": False}
        it = args[0]
        ity = self.locals[it["p"]["l"]] if not it["p"]["proj"] else "?"
        by_ref = ity.startswith("&mut ")
        base_ty = ity[5:] if by_ref else ity
        blk = self.blocks[bid]
        itl = self.new_local(base_ty if not by_ref else ity)
        blk["stmts"] = blk["stmts"] + [asg(itl, {"k": "use", "a": it})]
        head = self.new_block([], None, ctx=ctx)
        body = self.new_block([], None, ctx=ctx)
        after = self.new_block([], None, ctx=ctx)
        found = self.new_block([], None, ctx=ctx)
        exit_ = self.new_block([], None, ctx=ctx)
        n = self.new_local("std::option::Option<?>")
        if by_ref:
            recv = {"k": "copy", "p": {"l": itl, "proj": []}}
        else:
            r_ = self.new_local("&mut " + base_ty)
            self.blocks[head]["stmts"].append(asg(r_, {"k": "ref", "mut": True, "p": {"l": itl, "proj": []}}))
            recv = {"k": "move", "p": {"l": r_, "proj": []}}
        nxt = "<%s as std::iter::Iterator>::next" % base_ty
        sw = self.new_block([], None, ctx=ctx)
        self.blocks[head]["term"] = {"k": "call", "callee": nxt, "callee_full": nxt, "orig": "std::iter::Iterator::next", "resolved": True, "trait": "std::iter::Iterator", "local": False, "substs": [],
                                     "args": [recv], "dest": {"l": n, "proj": []}, "target": sw, "unwind": unwind, "line": line, "exp": False, "model": c}
        dl = self.new_local("isize")
        self.blocks[sw]["stmts"].append(asg(dl, {"k": "discr", "p": {"l": n, "proj": []}, "adt": O}))
        self.blocks[sw]["term"] = {"k": "switch", "discr": {"k": "move", "p": {"l": dl, "proj": []}}, "dty": "isize", "targets": [["0", exit_]], "otherwise": body, "line": line, "exp": False, "model": c}
        payload = {"l": n, "proj": [{"dc": "Some", "vi": 1}, {"f": "0", "i": 0, "ty": "?", "of": O}]}
        env = args[1]
        if cb.argc >= 1 and cb.locals[1].startswith("&"):
            e = self.new_local(cb.locals[1])
            self.blocks[body]["stmts"].append(asg(e, {"k": "ref", "mut": cb.locals[1].startswith("&mut"), "p": env["p"]}))
            env = {"k": "move", "p": {"l": e, "proj": []}}
        item = {"k": "move", "p": payload}
        if kind in ("find", "position_ref"):
            pr = self.new_local("&?")
            self.blocks[body]["stmts"].append(asg(pr, {"k": "ref", "mut": False, "p": payload}))
            item = {"k": "move", "p": {"l": pr, "proj": []}}
        res = self.new_local(cb.locals[0])
        self.blocks[body]["term"] = {"k": "call", "callee": cb.path, "callee_full": cb.path, "orig": c, "resolved": True, "trait": None, "local": True, "substs": [],
                                     "args": [env, item], "dest": {"l": res, "proj": []}, "target": after, "unwind": unwind, "line": line, "exp": False, "direct": True}
        # test of the closure's result
        if kind == "find_map":
            d2 = self.new_local("isize")
            self.blocks[after]["stmts"].append(asg(d2, {"k": "discr", "p": {"l": res, "proj": []}, "adt": O}))
            self.blocks[after]["term"] = {"k": "switch", "discr": {"k": "move", "p": {"l": d2, "proj": []}}, "dty": "isize", "targets": [["0", head]], "otherwise": found, "line": line, "exp": False, "model": c}
            if dest is not None:
                self.blocks[found]["stmts"].append(asg(dest, {"k": "use", "a": {"k": "move", "p": {"l": res, "proj": []}}}))
                self.blocks[exit_]["stmts"].append(asg(dest, {"k": "agg", "adt": O, "variant": "None", "fields": [], "ops": []}))
        elif kind in ("any", "all", "find"):
            # any: true => found(true);  all: false => found(false);  find: true => found(Some(e))
            stop_on = "0" if kind == "all" else "1"
            self.blocks[after]["term"] = {"k": "switch", "discr": {"k": "move", "p": {"l": res, "proj": []}}, "dty": "bool",
                                          "targets": [[stop_on, found]], "otherwise": head, "line": line, "exp": False, "model": c}
            if dest is not None:
                if kind == "find":
                    self.blocks[found]["stmts"].append(asg(dest, {"k": "agg", "adt": O, "variant": "Some", "fields": ["0"], "ops": [{"k": "move", "p": payload}]}))
                    self.blocks[exit_]["stmts"].append(asg(dest, {"k": "agg", "adt": O, "variant": "None", "fields": [], "ops": []}))
                else:
                    self.blocks[found]["stmts"].append(asg(dest, {"k": "use", "a": {"k": "const", "ty": "bool", "v": "1" if kind == "any" else "0"}}))
                    self.blocks[exit_]["stmts"].append(asg(dest, {"k": "use", "a": {"k": "const", "ty": "bool", "v": "0" if kind == "any" else "1"}}))
        else:   # for_each
            self.blocks[after]["term"] = goto(head)
            self.blocks[found]["term"] = goto(target)
        if self.blocks[found]["term"] is None:
            self.blocks[found]["term"] = goto(target)
        self.blocks[exit_]["term"] = goto(target)
        blk["term"] = goto(head)
        blk["term"]["model"] = c
        self.inlined.append("model:" + c)
        return True

    def drop_impl(self, t):
        ty = norm(t.get("pty") or "")
        if not ty or t["p"]["proj"]:
            return None
        cands = [c for c in self.facts.by_npath.get("<%s as std::ops::Drop>::drop" % ty) or [] if c.kind != "Promoted"]
        return cands[0] if len(cands) == 1 else None


VARIANT_INDEX = {"option": {"None": 0, "Some": 1}, "result": {"Ok": 0, "Err": 1}}
ADT_OF = {"option": "std::option::Option", "result": "std::result::Result"}
O, R = "std::option::Option", "std::result::Result"
# step language: ("payload",) value of the variant; ("payloadref",) reference to it; ("arg", i); ("recv",);
# ("call", i, passes_value) invoke closure argument i; ("wrap", adt, variant); ("const", ty, v)
MODELS = {
    O + "::map": {"on": "option", "arms": {"None": [("wrap", O, "None")], "Some": [("payload",), ("call", 1, True), ("wrap", O, "Some")]}},
    O + "::map_or_else": {"on": "option", "arms": {"None": [("call", 1, False)], "Some": [("payload",), ("call", 2, True)]}},
    O + "::map_or": {"on": "option", "arms": {"None": [("arg", 1)], "Some": [("payload",), ("call", 2, True)]}},
    O + "::unwrap_or_else": {"on": "option", "arms": {"None": [("call", 1, False)], "Some": [("payload",)]}},
    O + "::is_some_and": {"on": "option", "arms": {"None": [("const", "bool", "0")], "Some": [("payload",), ("call", 1, True)]}},
    O + "::is_none_or": {"on": "option", "arms": {"None": [("const", "bool", "1")], "Some": [("payload",), ("call", 1, True)]}},
    O + "::and_then": {"on": "option", "arms": {"None": [("wrap", O, "None")], "Some": [("payload",), ("call", 1, True)]}},
    O + "::or_else": {"on": "option", "arms": {"None": [("call", 1, False)], "Some": [("recv",)]}},
    O + "::ok_or_else": {"on": "option", "arms": {"None": [("call", 1, False), ("wrap", R, "Err")], "Some": [("payload",), ("wrap", R, "Ok")]}},
    O + "::inspect": {"on": "option", "arms": {"None": [("recv",)], "Some": [("payloadref",), ("call", 1, True), ("recv",)]}},
    O + "::filter": {"on": "option", "arms": {"None": [("wrap", O, "None")], "Some": [("payloadref",), ("call", 1, True), ("recv",)]}},
    R + "::map": {"on": "result", "arms": {"Ok": [("payload",), ("call", 1, True), ("wrap", R, "Ok")], "Err": [("payload",), ("wrap", R, "Err")]}},
    R + "::map_err": {"on": "result", "arms": {"Ok": [("payload",), ("wrap", R, "Ok")], "Err": [("payload",), ("call", 1, True), ("wrap", R, "Err")]}},
    R + "::map_or_else": {"on": "result", "arms": {"Ok": [("payload",), ("call", 2, True)], "Err": [("payload",), ("call", 1, True)]}},
    R + "::map_or": {"on": "result", "arms": {"Ok": [("payload",), ("call", 2, True)], "Err": [("arg", 1)]}},
    R + "::unwrap_or_else": {"on": "result", "arms": {"Ok": [("payload",)], "Err": [("payload",), ("call", 1, True)]}},
    R + "::and_then": {"on": "result", "arms": {"Ok": [("payload",), ("call", 1, True)], "Err": [("payload",), ("wrap", R, "Err")]}},
    R + "::or_else": {"on": "result", "arms": {"Ok": [("payload",), ("wrap", R, "Ok")], "Err": [("payload",), ("call", 1, True)]}},
    R + "::is_ok_and": {"on": "result", "arms": {"Ok": [("payload",), ("call", 1, True)], "Err": [("const", "bool", "0")]}},
    R + "::is_err_and": {"on": "result", "arms": {"Ok": [("const", "bool", "0")], "Err": [("payload",), ("call", 1, True)]}},
    R + "::inspect": {"on": "result", "arms": {"Ok": [("payloadref",), ("call", 1, True), ("recv",)], "Err": [("recv",)]}},
    R + "::inspect_err": {"on": "result", "arms": {"Ok": [("recv",)], "Err": [("payloadref",), ("call", 1, True), ("recv",)]}},
    O + "::unwrap_or": {"on": "option", "pure": True, "arms": {"None": [("arg", 1)], "Some": [("payload",)]}},
    R + "::unwrap_or": {"on": "result", "pure": True, "arms": {"Ok": [("payload",)], "Err": [("arg", 1)]}},
    "std::thread::LocalKey::with": {"on": "always", "arms": {"_": [("opaque", "&T"), ("call", 1, True)]}},
}


ITER_MODELS = {"std::iter::Iterator::find_map": "find_map", "std::iter::Iterator::find": "find", "std::iter::Iterator::any": "any",
               "std::iter::Iterator::all": "all", "std::iter::Iterator::for_each": "for_each"}


def inline(body, facts, keep=(), closures=True, helpers=True, drops=True, models=True, depth=MAX_DEPTH, only=None, force=()):
    """Body with local helpers / closures / modelled combinators / local Drop impls spliced in.
    keep: npaths or last segments of functions that must stay calls (what the rule itself looks for).
    only: when given, a predicate on the callee Body that must hold for it to be spliced."""
    keep = set(keep)

    def kept(cb):
        last = cb.npath.rsplit("::", 1)[-1]
        return cb.npath in keep or last in keep or (only is not None and not only(cb))

    B = _Builder(body, facts)
    progress = True
    while progress and B.splices < MAX_SPLICES:
        progress = False
        for blk in list(B.blocks):
            bid = blk["id"]
            t = blk["term"]
            d, stack = B.ctx(bid)
            if d >= depth:
                continue
            if t["k"] == "call":
                if t.get("exp") and not t.get("direct"):
                    continue   # tracing / format machinery
                cb = B.callee_body(t)
                if cb is not None and cb.path != body.path and cb.path not in stack:
                    is_clo = cb.kind == "Closure"
                    if is_clo and closures and (t.get("direct") or norm(t.get("orig") or "") in ("std::ops::Fn::call", "std::ops::FnMut::call_mut", "std::ops::FnOnce::call_once")):
                        if not kept(cb):
                            B.splice(bid, cb, t["args"], t.get("dest"), t.get("target"), t.get("unwind"), not t.get("direct"), t.get("line"))
                            progress = True
                            continue
                    elif not is_clo and helpers and not kept(cb) and (cb.abi in (None, "Rust") or cb.npath in force or cb.npath.rsplit("::", 1)[-1] in force) and cb.kind in ("Fn", "AssocFn"):
                        B.splice(bid, cb, t["args"], t.get("dest"), t.get("target"), t.get("unwind"), False, t.get("line"))
                        progress = True
                        continue
                if models and closures and B.model(bid, t):
                    progress = True
                    continue
            elif t["k"] == "drop" and drops and not blk["cleanup"]:
                cb = B.drop_impl(t)
                if cb is not None and cb.path not in stack and not kept(cb):
                    r = B.new_local("&mut " + (t.get("pty") or "?"))
                    blk["stmts"] = blk["stmts"] + [{"k": "assign", "lhs": {"l": r, "proj": []}, "rhs": {"k": "ref", "mut": True, "p": copy.deepcopy(t["p"])}, "line": t.get("line"), "exp": False}]
                    B.splice(bid, cb, [{"k": "move", "p": {"l": r, "proj": []}}], None, t["target"], t.get("unwind"), False, t.get("line"))
                    progress = True
                    continue
    if not B.inlined:
        return body
    nb = Body(B.raw, facts)
    nb.inlined = list(B.inlined)
    nb.origin = body
    return nb
