"""P2: definitions, uses and backward data-flow slices over MIR locals (flow-insensitive, field-aware on reads)."""
from .facts import norm


def op_local(op):
    """Local read by an operand (None for constants)."""
    if op is None:
        return None
    if op["k"] in ("copy", "move"):
        return op["p"]["l"]
    return None


def op_place(op):
    if op and op["k"] in ("copy", "move"):
        return op["p"]
    return None


def op_const(op):
    """Integer/bool constant value of an operand as python int, else None."""
    if op and op["k"] == "const" and "v" in op:
        try:
            return int(op["v"])
        except ValueError:
            return None
    return None


def op_fn(op):
    """Function-item constant (def path, normalised) of an operand, else None."""
    if op and op["k"] == "const" and "fn" in op:
        return norm(op["fn"]["callee"])
    return None


def proj_fields(place):
    return [e["f"] for e in place["proj"] if isinstance(e, dict) and "f" in e]


def rv_operands(rv):
    k = rv["k"]
    if k in ("use", "repeat", "cast", "unop"):
        return [rv["a"]]
    if k == "binop":
        return [rv["a"], rv["b"]]
    if k == "agg":
        return list(rv["ops"])
    return []


def rv_places(rv):
    """Places read by an rvalue (operands + ref/rawptr/discr/len bases)."""
    out = [op_place(o) for o in rv_operands(rv)]
    if rv["k"] in ("ref", "rawptr", "discr"):
        out.append(rv["p"])
    return [p for p in out if p is not None]


class DefUse:
    def __init__(self, body):
        self.body = body
        self.defs = {}      # local -> [(bid, idx|'term', kind, payload)]
        self.refs_mut = {}  # ref local -> base local it mutably borrows
        self.refs = {}      # ref local -> (base place)
        for b in body.blocks:
            for i, s in enumerate(b["stmts"]):
                if s["k"] == "assign":
                    l = s["lhs"]["l"]
                    self.defs.setdefault(l, []).append((b["id"], i, "assign", s))
                    rv = s["rhs"]
                    if rv["k"] in ("ref", "rawptr"):
                        self.refs.setdefault(l, []).append(rv["p"])
                        if rv["mut"]:
                            self.refs_mut.setdefault(l, set()).add(rv["p"]["l"])
                elif s["k"] == "setdiscr":
                    self.defs.setdefault(s["lhs"]["l"], []).append((b["id"], i, "setdiscr", s))
            t = b["term"]
            if t["k"] == "call":
                self.defs.setdefault(t["dest"]["l"], []).append((b["id"], "term", "call", t))
        # propagate mutable-borrow aliases through plain moves/copies/reborrows of the reference
        changed = True
        while changed:
            changed = False
            for l, ds in self.defs.items():
                for (_b, _i, kind, s) in ds:
                    if kind != "assign":
                        continue
                    rv = s["rhs"]
                    src = None
                    if rv["k"] == "use":
                        src = op_local(rv["a"])
                        if src is not None and rv["a"]["p"]["proj"]:
                            src = None
                    elif rv["k"] in ("ref", "rawptr") and rv["mut"] and rv["p"]["proj"] and rv["p"]["proj"][0] == "deref":
                        src = rv["p"]["l"]
                    elif rv["k"] == "cast":
                        src = op_local(rv["a"])
                    if src is not None and src in self.refs_mut:
                        cur = self.refs_mut.setdefault(l, set())
                        if not self.refs_mut[src] <= cur:
                            cur |= self.refs_mut[src]
                            changed = True
        # calls that receive a mutable reference to X may define X
        self.maydefs = {}
        for b in body.blocks:
            t = b["term"]
            if t["k"] == "call":
                for a in t["args"]:
                    l = op_local(a)
                    if l is not None and l in self.refs_mut and not a["p"]["proj"]:
                        for base in self.refs_mut[l]:
                            self.maydefs.setdefault(base, []).append((b["id"], "term", "callmut", t))

    def all_defs(self, l):
        return self.defs.get(l, []) + self.maydefs.get(l, [])


class ReachingDefs:
    """Classic reaching definitions per local (block granularity with in-block ordering).
    A full assignment (`_x = ..`, call destination `_x`) kills; partial/may definitions do not."""

    def __init__(self, body, du):
        from .cfg import Cfg
        self.body = body
        self.du = du
        self.cfg = Cfg(body, unwind=True)
        self.sites = {}   # local -> list of def tuples (bid, idx, kind, payload)
        for l in set(du.defs) | set(du.maydefs):
            self.sites[l] = du.all_defs(l)
        self._in = {}     # local -> {bid: frozenset(def indices reaching block entry)}

    @staticmethod
    def _full(d):
        (_b, _i, kind, s) = d
        if kind == "assign":
            return not s["lhs"]["proj"]
        if kind == "call":
            return not s["dest"]["proj"]
        return False

    @staticmethod
    def _pos(d):
        return 10 ** 6 if d[1] == "term" else d[1]

    def _solve(self, l):
        sites = self.sites.get(l, [])
        byblock = {}
        for n, d in enumerate(sites):
            byblock.setdefault(d[0], []).append(n)
        for b in byblock:
            byblock[b].sort(key=lambda n: self._pos(sites[n]))
        cfg = self.cfg
        IN = {b: frozenset() for b in range(cfg.n)}
        OUT = {b: frozenset() for b in range(cfg.n)}
        # parameters: a pseudo definition -1 at entry
        entry = frozenset([-1]) if 1 <= l <= self.body.argc or True else frozenset()
        work = list(range(cfg.n))
        while work:
            b = work.pop()
            i = set(entry) if b == 0 else set()
            for p in cfg.pred[b]:
                i |= OUT[p]
            i = frozenset(i)
            cur = set(i)
            for n in byblock.get(b, []):
                d = sites[n]
                # a call's destination is defined only on the normal edge; keep it simple: treat as defined at term
                if self._full(d):
                    cur = {n}
                else:
                    cur.add(n)
            o = frozenset(cur)
            if i != IN[b] or o != OUT[b]:
                IN[b] = i
                OUT[b] = o
                for s_ in cfg.succ[b]:
                    work.append(s_)
        self._in[l] = IN
        return IN

    def reaching(self, l, bid, idx):
        """Definitions of local l that may reach the use at (bid, idx); idx='term' for the terminator.
        Returns list of def tuples; the pseudo entry definition is reported as None."""
        sites = self.sites.get(l, [])
        IN = self._in.get(l) or self._solve(l)
        cur = set(IN[bid])
        upos = 10 ** 6 if idx == "term" else idx
        for n, d in enumerate(sites):
            pass
        inblock = sorted([n for n, d in enumerate(sites) if d[0] == bid and self._pos(d) < upos], key=lambda n: self._pos(sites[n]))
        for n in inblock:
            if self._full(sites[n]):
                cur = {n}
            else:
                cur.add(n)
        return [None if n == -1 else sites[n] for n in sorted(cur)]


class Slice:
    """Result of a backward slice: the set of definition sites / sources the value may depend on."""

    def __init__(self):
        self.params = set()       # argument indices (1-based MIR locals)
        self.consts = []          # constant operands
        self.calls = []           # (bid, term) of calls whose result flows in
        self.fields = set()       # field names read on the way
        self.ops = []             # (kind, detail, stmt) for binop/unop/cast steps
        self.statics = set()
        self.locals = set()
        self.truncated = False

    def callees(self):
        return {norm(t.get("callee")) or "<fnptr>" for (_b, t) in self.calls}

    def has_call(self, pred):
        return any(pred(norm(t.get("callee")) or "", t) for (_b, t) in self.calls)

    def binops(self):
        return [d for (k, d, _s) in self.ops if k == "binop"]

    def casts(self):
        return [(d, s) for (k, d, s) in self.ops if k == "cast"]


# calls that hand their (first) argument's value through unchanged (model table §1.4)
PASS_THROUGH = (
    "core::result::Result::unwrap", "core::result::Result::expect", "core::result::Result::unwrap_or",
    "core::result::Result::unwrap_or_default", "core::result::Result::unwrap_or_else", "core::result::Result::ok",
    "core::option::Option::unwrap", "core::option::Option::expect", "core::option::Option::unwrap_or",
    "core::option::Option::unwrap_or_default", "core::option::Option::unwrap_or_else", "core::option::Option::copied",
    "core::option::Option::cloned", "core::option::Option::as_ref", "core::option::Option::as_mut",
    "core::convert::Into::into", "core::convert::From::from", "core::convert::TryInto::try_into",
    "core::convert::TryFrom::try_from", "core::clone::Clone::clone", "core::ops::Deref::deref",
    "core::ops::DerefMut::deref_mut", "core::borrow::Borrow::borrow", "core::convert::AsRef::as_ref",
    "core::ops::Try::branch", "core::ops::FromResidual::from_residual", "core::convert::num",
    "std::result::Result::unwrap", "std::result::Result::expect", "std::option::Option::unwrap", "std::option::Option::expect",
)


def is_pass_through(t):
    c = norm(t.get("callee") or "")
    o = norm(t.get("orig") or "")
    for p in PASS_THROUGH:
        q = p.replace("core::", "std::")
        if c.startswith(p) or o.startswith(p) or c.startswith(q) or o.startswith(q):
            return True
    # resolved impls of the conversion traits, e.g. `<u64 as TryFrom<i64>>::try_from`
    tr = norm(t.get("trait") or "")
    if tr in ("std::convert::Into", "std::convert::From", "std::convert::TryInto", "std::convert::TryFrom",
              "core::convert::Into", "core::convert::From", "core::convert::TryInto", "core::convert::TryFrom",
              "std::clone::Clone", "core::clone::Clone", "std::ops::Deref", "core::ops::Deref",
              "std::ops::DerefMut", "core::ops::DerefMut", "std::ops::Try", "core::ops::Try",
              "std::ops::FromResidual", "core::ops::FromResidual"):
        return True
    return False


def backward(body, start, du=None, through_calls="all", max_nodes=6000, stop_call=None, at=None, rd=None):
    """Backward slice from an operand / local.

    at: program point (bid, idx|'term') of the use. When given the slice is flow-sensitive: only definitions
        reaching each use are followed (reaching definitions); without it every definition of a local is followed.
    through_calls: "all"  – a call result depends on all of its arguments (data dependence, over-approximate);
                   "pass" – only calls in PASS_THROUGH are transparent (value provenance);
                   "none" – calls are leaves.
    stop_call: optional predicate(callee_npath, term) – matching calls are recorded but not traversed.
    """
    du = du or DefUse(body)
    if at is not None and rd is None:
        rd = ReachingDefs(body, du)
    sl = Slice()
    work = []
    seen = set()

    def push_op(op, pt):
        if op is None:
            return
        if op["k"] == "const":
            sl.consts.append(op)
            if "static" in op:
                sl.statics.add(op["static"])
            return
        p = op_place(op)
        if p is not None:
            push_place(p, pt)

    def push_place(p, pt):
        for e in p["proj"]:
            if isinstance(e, dict) and "f" in e:
                sl.fields.add(e["f"])
            if isinstance(e, dict) and "idx" in e:
                work.append((e["idx"], pt))
        work.append((p["l"], pt))

    if isinstance(start, int):
        work.append((start, at))
    else:
        push_op(start, at)
    n = 0
    while work:
        l, pt = work.pop()
        if pt is None:
            key = (l, None)
        else:
            key = (l, pt)
        if key in seen:
            continue
        seen.add(key)
        sl.locals.add(l)
        n += 1
        if n > max_nodes:
            sl.truncated = True
            break
        if pt is None:
            defs = du.all_defs(l)
            if 1 <= l <= body.argc:
                sl.params.add(l)
        else:
            defs = []
            for d in rd.reaching(l, pt[0], pt[1]):
                if d is None:
                    if 1 <= l <= body.argc:
                        sl.params.add(l)
                else:
                    defs.append(d)
        for (bid, idx, kind, s) in defs:
            dpt = None if pt is None else (bid, idx)
            dkey = (l, bid, idx, kind)
            if dkey in seen:
                continue
            seen.add(dkey)
            if kind == "assign":
                rv = s["rhs"]
                k = rv["k"]
                if k == "binop":
                    sl.ops.append(("binop", rv["op"], s))
                elif k == "unop":
                    sl.ops.append(("unop", rv["op"], s))
                elif k == "cast":
                    sl.ops.append(("cast", (rv["kind"], rv["from"], rv["to"]), s))
                elif k == "tlsref":
                    sl.statics.add(rv["static"])
                for o in rv_operands(rv):
                    push_op(o, dpt)
                if k in ("ref", "rawptr", "discr"):
                    push_place(rv["p"], dpt)
                # a partial definition (`_x.f = ..`) leaves the rest of `_x` as it was
                if s["lhs"]["proj"] and pt is not None:
                    work.append((l, (bid, idx)))
            elif kind in ("call", "callmut"):
                t = s
                sl.calls.append((bid, t))
                cn = norm(t.get("callee") or "")
                if kind == "callmut" and pt is not None:
                    work.append((l, (bid, "term")))
                if stop_call and stop_call(cn, t):
                    continue
                if through_calls == "all" or (through_calls == "pass" and is_pass_through(t)) or kind == "callmut":
                    for a in t["args"]:
                        push_op(a, dpt)
                    if t.get("callee") is None:
                        push_op(t.get("fnptr"), dpt)
    return sl


def single_def(du, l):
    ds = du.defs.get(l, [])
    return ds[0] if len(ds) == 1 else None


def resolve_copy(body, du, op, depth=12):
    """Follow plain copies/moves (no projection change) back to the earliest local; returns operand."""
    while depth > 0:
        depth -= 1
        l = op_local(op)
        if l is None or op["p"]["proj"]:
            return op
        d = single_def(du, l)
        if not d or d[2] != "assign":
            return op
        rv = d[3]["rhs"]
        if rv["k"] == "use":
            op = rv["a"]
            continue
        return op
    return op


def switch_info(body, du, bid):
    """Describe a `switch` terminator: returns dict(kind, adt, place, arms{name->bb}, otherwise) where
    kind is 'discr' when the switched value is `discriminant(place)`, 'bool'/'int' otherwise."""
    t = body.blocks[bid]["term"]
    if t["k"] != "switch":
        return None
    l = op_local(t["discr"])
    info = {"kind": "int", "adt": None, "place": None, "arms": {}, "otherwise": t["otherwise"], "bid": bid, "discr": t["discr"]}
    if t["dty"] == "bool":
        info["kind"] = "bool"
    d = None
    if l is not None and not t["discr"]["p"]["proj"]:
        ds = du.defs.get(l, [])
        # the defining statement normally sits in the same block
        for x in ds:
            if x[2] == "assign" and x[3]["rhs"]["k"] == "discr":
                d = x
    if d is not None:
        rv = d[3]["rhs"]
        info["kind"] = "discr"
        info["adt"] = rv["adt"]
        info["place"] = rv["p"]
        adt = body.facts.adts.get(rv["adt"]) if rv["adt"] else None
        names = {}
        if adt:
            for v in adt["variants"]:
                names[v["discr"]] = v["name"]
        covered = set()
        for v, bb in t["targets"]:
            nm = names.get(str(v), str(v))
            info["arms"][nm] = bb
            covered.add(nm)
        if adt:
            rest = [v["name"] for v in adt["variants"] if v["name"] not in covered]
            info["rest"] = rest
            # an `otherwise` arm standing for exactly one remaining variant is that variant
            if len(rest) == 1 and body.blocks[t["otherwise"]]["term"]["k"] != "unreachable":
                info["arms"].setdefault(rest[0], t["otherwise"])
    else:
        for v, bb in t["targets"]:
            info["arms"][str(v)] = bb
    return info


def find_calls(body, pred, include_cleanup=False):
    """[(bid, term)] for calls whose normalised callee (or orig trait method) satisfies pred(callee, term)."""
    out = []
    for bid, t in body.calls(include_cleanup):
        c = norm(t.get("callee") or "") or ""
        if pred(c, t):
            out.append((bid, t))
    return out


def callee_is(*names):
    names = set(names)

    def p(c, t):
        return c in names or norm(t.get("orig") or "") in names
    return p


def callee_ends(*suffixes):
    def p(c, t):
        o = norm(t.get("orig") or "")
        return any(c.endswith(s) or o.endswith(s) for s in suffixes)
    return p


def bool_branch(body, cfg, du, def_local, start_blocks):
    """Find the switch that tests the boolean `def_local` (directly or through `Not`) among the blocks reachable from
    start_blocks. Returns (true_bb, false_bb, switch_bid) or None."""
    aliases = {def_local: False}   # local -> negated?
    for x in sorted(cfg.reachable(set(start_blocks))):
        blk = body.blocks[x]
        for s in blk["stmts"]:
            if s["k"] == "assign" and not s["lhs"]["proj"]:
                rv = s["rhs"]
                if rv["k"] == "unop" and rv["op"] == "Not" and op_local(rv["a"]) in aliases and not rv["a"]["p"]["proj"]:
                    aliases[s["lhs"]["l"]] = not aliases[op_local(rv["a"])]
                elif rv["k"] == "use" and op_local(rv["a"]) in aliases and not rv["a"]["p"]["proj"]:
                    aliases[s["lhs"]["l"]] = aliases[op_local(rv["a"])]
        t = blk["term"]
        if t["k"] == "switch" and op_local(t["discr"]) in aliases and not t["discr"]["p"]["proj"]:
            neg = aliases[op_local(t["discr"])]
            zero = [bb for v, bb in t["targets"] if int(v) == 0]
            one = [bb for v, bb in t["targets"] if int(v) == 1]
            f_bb = zero[0] if zero else t["otherwise"]
            t_bb = one[0] if one else t["otherwise"]
            if neg:
                t_bb, f_bb = f_bb, t_bb
            return (t_bb, f_bb, x)
    return None


def variant_arms(body, cfg, du, def_local, start_blocks):
    """Find the switch on discriminant(def_local) reachable from start_blocks; returns (arms{name->bb}, switch_bid, info) or None."""
    for x in sorted(cfg.reachable(set(start_blocks))):
        if body.blocks[x]["term"]["k"] == "switch":
            si = switch_info(body, du, x)
            if si["kind"] == "discr" and si["place"]["l"] == def_local and not si["place"]["proj"]:
                arms = dict(si["arms"])
                t = body.blocks[x]["term"]
                if t["otherwise"] not in arms.values() and body.blocks[t["otherwise"]]["term"]["k"] != "unreachable":
                    for r in si.get("rest") or []:
                        arms.setdefault(r, t["otherwise"])
                return (arms, x, si)
    return None


def static_of(body, du, op, depth=16):
    """Static whose (Lazy) contents an operand refers to, following refs/deref calls."""
    seen = 0
    while op is not None and seen < depth:
        seen += 1
        if op["k"] == "const":
            return norm(op.get("static")) if op.get("static") else None
        l = op["p"]["l"]
        # a value read out of an aggregate built in this body (a closure's environment after the closure was spliced in,
        # a tuple): continue with the operand the aggregate was built from at that position
        fproj = [e for e in op["p"]["proj"] if isinstance(e, dict) and "i" in e]
        if len(fproj) == 1 and all(e == "deref" or e is fproj[0] for e in op["p"]["proj"]):
            base, hops = l, 0
            while hops < 4:
                hops += 1
                bd = du.defs.get(base, [])
                if len(bd) != 1 or bd[0][2] != "assign":
                    break
                rv0 = bd[0][3]["rhs"]
                if rv0["k"] == "agg" and fproj[0]["i"] < len(rv0.get("ops") or []):
                    op = rv0["ops"][fproj[0]["i"]]
                    base = None
                    break
                if rv0["k"] in ("use",) and rv0["a"]["k"] in ("move", "copy") and not rv0["a"]["p"]["proj"]:
                    base = rv0["a"]["p"]["l"]
                elif rv0["k"] in ("ref", "rawptr") and not rv0["p"]["proj"]:
                    base = rv0["p"]["l"]
                else:
                    break
            if base is None:
                continue
        ds = du.defs.get(l, [])
        nxt = None
        for (_b, _i, kind, s) in ds:
            if kind == "assign":
                rv = s["rhs"]
                if rv["k"] in ("ref", "rawptr"):
                    nxt = {"k": "copy", "p": rv["p"]}
                elif rv["k"] in ("use", "cast"):
                    nxt = rv["a"]
                elif rv["k"] == "tlsref":
                    return norm(rv["static"])
            elif kind == "call" and s["args"]:
                nxt = s["args"][0]
        op = nxt
    return None


def field_chain(body, du, op, depth=8):
    """Field names on the receiver chain of an operand (outermost last), e.g. &self.pool.results -> ['pool','results']."""
    out = []
    seen = 0
    while op is not None and seen < depth:
        seen += 1
        if op["k"] == "const":
            break
        p = op["p"]
        fs = [e["f"] for e in p["proj"] if isinstance(e, dict) and "f" in e]
        out = fs + out
        l = p["l"]
        if 1 <= l <= body.argc:
            out = [body.name_of(l)] + out
            break
        ds = du.defs.get(l, [])
        nxt = None
        for (_b, _i, kind, s) in ds:
            if kind == "assign":
                rv = s["rhs"]
                if rv["k"] in ("ref", "rawptr"):
                    nxt = {"k": "copy", "p": rv["p"]}
                elif rv["k"] in ("use", "cast"):
                    nxt = rv["a"]
            elif kind == "call" and s["args"] and is_pass_through(s):
                nxt = s["args"][0]
        op = nxt
    return out


def value_root(du, l, depth=16):
    """Follow `l = move/copy m` (single definition, whole value) back to the local the value was first put in."""
    n = 0
    while n < depth:
        n += 1
        ds = du.defs.get(l, [])
        if len(ds) != 1 or ds[0][2] != "assign" or ds[0][3]["lhs"]["proj"]:
            return l
        rv = ds[0][3]["rhs"]
        if rv["k"] == "use" and rv["a"]["k"] in ("copy", "move") and not rv["a"]["p"]["proj"]:
            l = rv["a"]["p"]["l"]
        else:
            return l
    return l
