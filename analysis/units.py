"""P7: unit inference for time quantities over the lattice  s(0) < ms(1) < us(2) < ns(3),  TOP (None: literal /
polymorphic),  BOT ('X': conflict).  Flow-insensitive over definitions (a loop variable takes the unit of
everything assigned to it), inter-procedural for repo-local helpers that return a scaled/clamped parameter."""
from .flow import DefUse, op_local, op_const
from .facts import norm

S, MS, US, NS = 0, 1, 2, 3
NAMES = {0: "s", 1: "ms", 2: "us", 3: "ns", None: "any", "X": "conflict"}
SCALE = {1000: 1, 1000000: 2, 1000000000: 3}

FIELD_UNITS = {"tv_sec": S, "tv_nsec": NS, "tv_usec": US}
CALL_UNITS = {
    "common::now": NS, "common::get_timeout_time": NS, "syscall::unix::recv_time_limit": NS, "syscall::unix::send_time_limit": NS,
    "syscall::unix::get_time_limit": NS,
    "std::time::Duration::as_secs": S, "std::time::Duration::as_millis": MS, "std::time::Duration::as_micros": US, "std::time::Duration::as_nanos": NS,
    "std::time::Duration::subsec_nanos": NS, "std::time::Duration::subsec_micros": US, "std::time::Duration::subsec_millis": MS,
}
SINKS = {   # callee -> unit expected for each argument (None = not a time quantity)
    "std::time::Duration::from_secs": [S], "std::time::Duration::from_millis": [MS], "std::time::Duration::from_micros": [US],
    "std::time::Duration::from_nanos": [NS], "std::time::Duration::new": [S, NS],
}
UNIFY_CALLS = ("saturating_add", "saturating_sub", "checked_add", "checked_sub", "wrapping_add", "wrapping_sub", "min", "max", "cmp", "abs_diff", "clamp")
PASS_CALLS = ("from", "try_from", "try_into", "into", "expect", "unwrap", "unwrap_or", "unwrap_or_default", "unwrap_or_else", "clone", "wrapping_rem", "rem_euclid", "ok", "copied")
MUL_CALLS = ("saturating_mul", "checked_mul", "wrapping_mul", "overflowing_mul")
DIV_CALLS = ("saturating_div", "checked_div", "wrapping_div", "div_euclid", "div_ceil")


def unify(a, b):
    if a is None:
        return b
    if b is None:
        return a
    if a == b:
        return a
    return "X"


class Units:
    def __init__(self, body, facts, param_units=None):
        self.body = body
        self.facts = facts
        self.du = DefUse(body)
        self.param_units = param_units or {}
        self.memo = {}
        self.conflicts = []   # (line, description)
        self.inprog = set()

    def of_operand(self, op):
        if op is None or op["k"] == "const":
            return None
        p = op["p"]
        for e in p["proj"]:
            if isinstance(e, dict) and "f" in e and e["f"] in FIELD_UNITS:
                return FIELD_UNITS[e["f"]]
        # element i of a tuple built by an aggregate: the unit of that element
        fs = [e for e in p["proj"] if isinstance(e, dict) and "f" in e]
        if len(fs) == 1 and fs[0]["f"].isdigit() and len(p["proj"]) == 1:
            ds = self.du.defs.get(p["l"], [])
            if len(ds) == 1 and ds[0][2] == "assign" and ds[0][3]["rhs"]["k"] == "agg" and ds[0][3]["rhs"].get("tuple"):
                ops = ds[0][3]["rhs"]["ops"]
                i = int(fs[0]["f"])
                if i < len(ops):
                    return self.of_operand(ops[i])
        return self.of_local(p["l"])

    def of_local(self, l):
        b = self.body
        if l in self.memo:
            return self.memo[l]
        if l in self.inprog:
            return None
        if 1 <= l <= b.argc:
            nm = b.name_of(l)
            if nm in self.param_units:
                return self.param_units[nm]
        self.inprog.add(l)
        u = None
        for (bid, idx, kind, s) in self.du.defs.get(l, []):
            if kind == "assign":
                if s["lhs"]["proj"]:
                    # field store: only the time fields matter
                    continue
                u = unify(u, self.of_rvalue(s["rhs"], s.get("line")))
            elif kind == "call":
                u = unify(u, self.of_call(s))
        self.inprog.discard(l)
        self.memo[l] = u
        return u

    def of_rvalue(self, rv, line=None):
        k = rv["k"]
        if k in ("use", "cast", "repeat"):
            return self.of_operand(rv["a"])
        if k in ("ref", "rawptr"):
            return self.of_operand({"k": "copy", "p": rv["p"]})
        if k == "unop":
            return self.of_operand(rv["a"])
        if k == "binop":
            op = rv["op"]
            ua, ub = self.of_operand(rv["a"]), self.of_operand(rv["b"])
            ca, cb = op_const(rv["a"]), op_const(rv["b"])
            base = op.replace("WithOverflow", "").replace("Unchecked", "")
            if base == "Mul":
                k_ = cb if cb in SCALE else ca if ca in SCALE else None
                u0 = ua if cb is not None else ub
                if k_ is not None and u0 not in (None, "X"):
                    r = u0 + SCALE[k_]
                    return r if 0 <= r <= 3 else "X"
                return unify(ua, ub)
            if base == "Div":
                if cb in SCALE and ua not in (None, "X"):
                    r = ua - SCALE[cb]
                    return r if 0 <= r <= 3 else "X"
                return ua
            if base == "Rem":
                return ua
            if base in ("Add", "Sub", "Lt", "Le", "Gt", "Ge", "Eq", "Ne"):
                r = unify(ua, ub)
                if r == "X" and ua != "X" and ub != "X":
                    self.conflicts.append((line, "%s of a value in %s and a value in %s" % (base, NAMES[ua], NAMES[ub])))
                return r if base in ("Add", "Sub") else None
            if base in ("Shl", "Shr", "BitAnd", "BitOr", "BitXor"):
                return ua
            return None
        if k == "agg":
            # tuple of a checked op: (value, overflow flag)
            if rv.get("tuple") and rv["ops"]:
                return self.of_operand(rv["ops"][0])
            if rv.get("variant") in ("Some", "Ok") and rv["ops"]:
                return self.of_operand(rv["ops"][0])
            return None
        return None

    def of_call(self, t):
        c = norm(t.get("callee") or "")
        if c in CALL_UNITS:
            return CALL_UNITS[c]
        last = c.rsplit("::", 1)[-1]
        args = t["args"]
        if last in MUL_CALLS and len(args) == 2:
            u0 = self.of_operand(args[0])
            k_ = op_const(args[1])
            if k_ in SCALE and u0 not in (None, "X"):
                r = u0 + SCALE[k_]
                return r if 0 <= r <= 3 else "X"
            return u0
        if last in DIV_CALLS and len(args) == 2:
            u0 = self.of_operand(args[0])
            k_ = op_const(args[1])
            if k_ in SCALE and u0 not in (None, "X"):
                r = u0 - SCALE[k_]
                return r if 0 <= r <= 3 else "X"
            return u0
        if last in UNIFY_CALLS and len(args) >= 2:
            us = [self.of_operand(a) for a in args]
            r = None
            for x in us:
                r = unify(r, x)
            if r == "X" and "X" not in us:
                self.conflicts.append((t.get("line"), "%s of values in %s" % (last, "/".join(NAMES[x] for x in us if x is not None))))
            return r
        if last in PASS_CALLS and args:
            return self.of_operand(args[0])
        if t.get("local") and args:
            # repo-local helper: unit of its result with the parameters bound to the argument units
            for cb in self.facts.by_npath.get(c, []):
                if cb.kind == "Promoted":
                    continue
                pu = {cb.name_of(i + 1): self.of_operand(a) for i, a in enumerate(args)}
                sub = Units(cb, self.facts, pu)
                return sub.of_local(0)
        return None

    def check_sinks(self):
        """[(line, callee, arg index, expected, got)] for every time quantity that reaches a sink in another unit."""
        out = []
        b = self.body
        for blk in b.blocks:
            if blk["cleanup"]:
                continue
            t = blk["term"]
            if t["k"] == "call":
                c = norm(t.get("callee") or "")
                if c in SINKS:
                    for i, exp in enumerate(SINKS[c]):
                        if i < len(t["args"]):
                            got = self.of_operand(t["args"][i])
                            if got is not None and got != exp:
                                out.append((t["line"], c, i, exp, got))
            for s in blk["stmts"]:
                if s["k"] == "assign" and s["rhs"]["k"] == "agg" and s["rhs"].get("fields"):
                    adt = norm(s["rhs"].get("adt") or "")
                    for fld, o in zip(s["rhs"]["fields"], s["rhs"]["ops"]):
                        if fld in FIELD_UNITS and (adt.endswith("timespec") or adt.endswith("timeval")):
                            got = self.of_operand(o)
                            if got is not None and got != FIELD_UNITS[fld]:
                                out.append((s["line"], adt + "." + fld, 0, FIELD_UNITS[fld], got))
                    if adt.endswith("SyscallState") and s["rhs"].get("variant") == "Suspend" and s["rhs"]["ops"]:
                        got = self.of_operand(s["rhs"]["ops"][0])
                        if got is not None and got != NS:
                            out.append((s["line"], "SyscallState::Suspend", 0, NS, got))
                # field stores into timeval/timespec
                if s["k"] == "assign" and s["lhs"]["proj"]:
                    fs = [e["f"] for e in s["lhs"]["proj"] if isinstance(e, dict) and "f" in e]
                    if fs and fs[-1] in FIELD_UNITS:
                        got = self.of_rvalue(s["rhs"], s.get("line"))
                        if got is not None and got != FIELD_UNITS[fs[-1]]:
                            out.append((s["line"], "store to ." + fs[-1], 0, FIELD_UNITS[fs[-1]], got))
        return out
