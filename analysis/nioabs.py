"""P3 instance for the NIO syscall wrappers: a small abstract interpreter over (block, state) pairs.

State components
  blocking   value of the remembered `is_blocking(fd)` flag (explored for both values; tests on it are pruned)
  mode       'orig' | 'nonblock'   descriptor mode relative to what the caller set
  acc_nz     the byte accumulator may be non-zero
  before_nz  acc_nz at the moment of the last inner call
  rk         what the result local holds: init0 | initneg | raw | raw_ok | raw_fail | total | other
  called     an inner call has been made
  errno0     errno is known to be 0 (reset_errno() and no errno-setting call since)
  tags       facts about temporaries: err0 (io::Error taken while errno==0), kind0 (its kind), bool constants
Infeasible paths removed: correlated tests of `blocking`; after reset_errno() the error-kind tests (== WouldBlock false,
!= Interrupted true, raw_os_error()==Some(E*) false)."""
from .cfg import term_succs
from .flow import DefUse, backward, op_local, op_const
from .facts import norm

PURE = ("std::result::Result::expect", "std::result::Result::unwrap", "std::option::Option::expect", "std::io::Error::last_os_error", "std::io::Error::kind",
        "std::io::Error::raw_os_error", "common::now", "std::cmp::Ord::min", "std::cmp::Ord::max", "std::result::Result::is_err", "std::result::Result::is_ok",
        "std::vec::Vec::new", "std::vec::Vec::push", "std::vec::Vec::len", "std::vec::Vec::as_ptr", "std::vec::Vec::as_mut_ptr", "std::mem::forget", "std::mem::zeroed",
        "std::result::Result::unwrap_or_else", "std::vec::Vec::from_raw_parts", "std::mem::size_of_val")
PURE_PREFIX = ("u64::", "usize::", "i64::", "isize::", "i32::", "u32::", "std::time::Duration::", "<usize as ", "<isize as ", "<i32 as ", "<i64 as ", "<u64 as ", "<T as std::convert::TryInto>",
               "<std::slice::Iter", "<std::iter::Skip", "<&'a std::vec::Vec", "std::iter::Iterator::skip", "std::slice::", "<std::vec::Vec as std::ops::Index", "<std::vec::Vec as std::ops::Deref",
               "<std::io::ErrorKind as std::cmp::PartialEq>", "std::cmp::PartialEq::", "<std::option::Option as std::cmp::PartialEq>", "*const T::", "*mut T::", "<I as std::iter::IntoIterator>",
               "<std::vec::Vec as std::ops::IndexMut", "<std::vec::Vec as std::ops::DerefMut", "core::panicking::", "std::fmt::", "core::fmt::", "std::ptr::")


class NioFacts:
    def __init__(self, body):
        self.body = body
        self.du = DefUse(body)
        b = body
        name = b.npath.rsplit("::", 1)[1]
        self.name = name
        self.inner = []
        for (x, t) in b.calls():
            if norm(t.get("orig") or "").endswith("::" + name) and norm(t.get("trait") or "") == (b.impl_trait or "") and t["args"]:
                self.inner.append(x)
        # flag: dest of is_blocking
        self.flag = None
        for (x, t) in b.calls():
            if norm(t.get("callee") or "") == "syscall::unix::is_blocking":
                self.flag = t["dest"]["l"]
        # result local: source of `_0 = copy r`
        rs = set()
        for blk in b.blocks:
            for s in blk["stmts"]:
                if s["k"] == "assign" and s["lhs"]["l"] == 0 and not s["lhs"]["proj"] and s["rhs"]["k"] == "use" and op_local(s["rhs"]["a"]) is not None:
                    rs.add(op_local(s["rhs"]["a"]))
        # a result that travels through an exit helper's parameter / a temporary: follow single-definition plain copies
        # back to the variable they copy (`_0 = copy finish.r; finish.r = copy r`)
        def copy_root(l):
            n = 0
            while n < 8:
                n += 1
                ds = self.du.defs.get(l, [])
                if l <= b.argc or len(ds) != 1 or ds[0][2] != "assign" or ds[0][3]["lhs"]["proj"]:
                    break
                rv = ds[0][3]["rhs"]
                if rv["k"] == "use" and rv["a"]["k"] in ("copy", "move") and not rv["a"]["p"]["proj"]:
                    l = rv["a"]["p"]["l"]
                else:
                    break
            return l
        rs = {copy_root(l) for l in rs}
        self.r = sorted(rs)
        # accumulator: X = move (T.0), T = AddWithOverflow(copy X, Y), Y derived from r
        self.acc = None
        for l, ds in self.du.defs.items():
            for (bid, idx, kind, s) in ds:
                if kind != "assign" or s["lhs"]["proj"]:
                    continue
                rv = s["rhs"]
                if rv["k"] == "use" and rv["a"]["k"] in ("move", "copy") and rv["a"]["p"]["proj"]:
                    tds = self.du.defs.get(rv["a"]["p"]["l"], [])
                    if len(tds) == 1 and tds[0][2] == "assign" and tds[0][3]["rhs"]["k"] == "binop" and tds[0][3]["rhs"]["op"] in ("AddWithOverflow", "Add"):
                        src = tds[0][3]["rhs"]
                        if op_local(src["a"]) == l and op_local(src["b"]) is not None:
                            sl = backward(b, src["b"], self.du, through_calls="all")
                            if set(self.r) & sl.locals:
                                self.acc = l
        self.ok = bool(self.inner) and len(self.r) == 1


def _root(du, bid, op):
    l = op_local(op)
    n = 0
    while l is not None and n < 5:
        n += 1
        ds = du.defs.get(l, [])
        if len(ds) == 1 and ds[0][0] == bid and ds[0][2] == "assign" and ds[0][3]["rhs"]["k"] == "use" and not ds[0][3]["lhs"]["proj"] \
                and ds[0][3]["rhs"]["a"]["k"] in ("copy", "move") and not ds[0][3]["rhs"]["a"]["p"]["proj"]:
            l = ds[0][3]["rhs"]["a"]["p"]["l"]
        else:
            break
    return l


class NioWalk:
    def __init__(self, nf):
        self.nf = nf
        self.body = nf.body
        self.du = nf.du
        self.events = []      # (kind, bid, line, detail)
        self.returns = []     # state tuples at return
        self.visited = 0

    def ev(self, kind, bid, detail):
        e = (kind, bid, self.body.blocks[bid]["term"]["line"], detail)
        if e not in self.events:
            self.events.append(e)

    def run(self):
        b, nf, du = self.body, self.nf, self.du
        r = nf.r[0]
        work = []
        for flag in ((True, False) if nf.flag is not None else (None,)):
            work.append((0, (flag, "orig", 0, 0, "unset", 0, 0, frozenset())))
        seen = set()
        while work:
            bid, st = work.pop()
            if (bid, st) in seen:
                continue
            seen.add((bid, st))
            self.visited += 1
            if self.visited > 400000:
                self.ev("explosion", bid, "state space too large")
                return
            blocking, mode, acc_nz, before_nz, rk, called, errno0, tags = st
            tags = dict(tags)
            blk = b.blocks[bid]
            if blk["cleanup"]:
                continue
            for s in blk["stmts"]:
                if s["k"] != "assign":
                    continue
                lhs, rv = s["lhs"], s["rhs"]
                l = lhs["l"]
                if lhs["proj"]:
                    continue
                tags.pop(l, None)
                src = op_local(rv["a"]) if rv["k"] in ("use", "cast") and rv.get("a") else None
                if rv["k"] in ("use", "cast") and src is not None and not rv["a"]["p"]["proj"] and src in tags:
                    tags[l] = tags[src]
                if rv["k"] in ("ref", "rawptr") and rv["p"]["l"] in tags and not [e for e in rv["p"]["proj"] if e != "deref"]:
                    tags[l] = tags[rv["p"]["l"]]
                # `match err.kind() { WouldBlock => .., Interrupted => .., _ => .. }`: the discriminant of the kind of "os error 0"
                if rv["k"] == "discr" and not rv["p"]["proj"] and tags.get(rv["p"]["l"]) == "kind0" and "ErrorKind" in (rv.get("adt") or ""):
                    tags[l] = "kind0discr"
                # the remembered flag travelling by value: plain copies, a field of a guard struct, a read of that field
                if nf.flag is not None:
                    if rv["k"] in ("use", "cast") and src == nf.flag and not rv["a"]["p"]["proj"]:
                        tags[l] = "flag"
                    elif rv["k"] == "agg":
                        for i, o in enumerate(rv["ops"]):
                            ol = op_local(o)
                            if ol is not None and not o["p"]["proj"] and (ol == nf.flag or tags.get(ol) == "flag"):
                                tags[l] = ("hasflag", i)
                    elif rv["k"] == "use" and src is not None and isinstance(tags.get(src), tuple) and tags[src][0] == "hasflag":
                        fs = [e for e in rv["a"]["p"]["proj"] if e != "deref"]
                        if len(fs) == 1 and isinstance(fs[0], dict) and fs[0].get("i") == tags[src][1]:
                            tags[l] = "flag"
                if rv["k"] == "binop" and rv["op"] in ("Eq", "Ne") :
                    a, c = _root(du, bid, rv["a"]), _root(du, bid, rv["b"])
                    ca, cc = op_const(rv["a"]), op_const(rv["b"])
                    if (a == r and cc == -1) or (c == r and ca == -1):
                        tags[l] = ("rtest", rv["op"] == "Ne")     # value True means r != -1
                if l == r:
                    c = op_const(rv["a"]) if rv["k"] == "use" else None
                    if c is not None:
                        rk = "init0" if c == 0 else "initneg" if c == -1 else "other"
                        if c == -1 and called:
                            rk = "raw_fail"
                    elif src is not None and tags.get(src) == "innerres":
                        rk = "raw"
                    elif src is not None and tags.get(src) == "total":
                        rk = "total"
                    else:
                        rk = "other"
                elif nf.acc is not None and l == nf.acc:
                    c = op_const(rv["a"]) if rv["k"] == "use" else None
                    if c == 0:
                        acc_nz = 0
                    elif c is None:
                        acc_nz = 1
            t = blk["term"]
            k = t["k"]
            nxt = []
            if k == "call":
                c = norm(t.get("callee") or "") or ""
                dest = t["dest"]["l"]
                tags.pop(dest, None)
                if bid in nf.inner:
                    if called and rk in ("raw_ok",):
                        # the previous inner call of this request succeeded and the wrapper issues another one (a retry for the
                        # rest of the same element / the next element) -- recorded for rules that care HOW that retry is set up
                        self.ev("reissue-after-success", bid, "inner call issued again after a call that succeeded")
                    called, errno0, before_nz = 1, 0, acc_nz
                    if dest == r:
                        rk = "raw"
                    else:
                        tags[dest] = "innerres"
                elif c == "syscall::unix::reset_errno":
                    errno0 = 1
                elif c == "syscall::unix::set_errno":
                    # reset_errno() is set_errno(0): written out, it is the same reset
                    errno0 = 1 if (t.get("args") and str(op_const(t["args"][0])) == "0") else 0
                elif c == "syscall::unix::set_non_blocking":
                    if blocking is False:
                        self.ev("mode-change-when-nonblocking", bid, "set_non_blocking on a descriptor the caller already made non-blocking")
                    mode = "nonblock"
                elif c == "syscall::unix::set_blocking":
                    if blocking is False:
                        self.ev("mode-change-when-nonblocking", bid, "set_blocking on a descriptor the caller made non-blocking: its mode is changed behind the caller's back")
                    mode = "orig"
                elif c in ("net::EventLoops::wait_read_event", "net::EventLoops::wait_write_event"):
                    if blocking is False:
                        self.ev("wait-when-nonblocking", bid, c.rsplit("::", 1)[1])
                    errno0 = 0
                elif c == "std::io::Error::last_os_error":
                    if errno0:
                        tags[dest] = "err0"
                elif c in ("std::io::Error::kind", "std::io::Error::raw_os_error"):
                    a0 = op_local(t["args"][0]) if t["args"] else None
                    if tags.get(a0) == "err0":
                        tags[dest] = "kind0"
                elif c.endswith("PartialEq>::eq") or c == "std::cmp::PartialEq::eq" or c.endswith("PartialEq>::ne") or c == "std::cmp::PartialEq::ne":
                    a0 = op_local(t["args"][0]) if t["args"] else None
                    a1 = op_local(t["args"][1]) if len(t["args"]) > 1 else None
                    if tags.get(a0) == "kind0" or tags.get(a1) == "kind0":
                        # kind of "os error 0" is neither WouldBlock nor Interrupted; raw_os_error()==Some(0) is no E* constant
                        tags[dest] = ("bool", c.endswith("ne"))
                elif c.endswith("TryInto>::try_into") or c.endswith("TryFrom>::try_from"):
                    a0 = _root(du, bid, t["args"][0]) if t["args"] else None
                    if nf.acc is not None and a0 == nf.acc:
                        tags[dest] = "total"
                    elif a0 is not None and a0 in tags:
                        tags[dest] = tags[a0]
                elif c in ("std::result::Result::expect", "std::result::Result::unwrap", "std::result::Result::unwrap_or_else"):
                    a0 = op_local(t["args"][0]) if t["args"] else None
                    if a0 in tags:
                        tags[dest] = tags[a0]
                    if dest == r:
                        rk = "total" if tags.get(a0) == "total" else "other"
                elif c in PURE or c.startswith(PURE_PREFIX):
                    pass
                else:
                    errno0 = 0
                    if dest == r:
                        rk = "other"
                if dest == r and bid not in nf.inner and not c.startswith("std::result::Result::"):
                    rk = "other"
                if t.get("target") is not None:
                    nxt.append(t["target"])
            elif k == "switch":
                dl = _root(du, bid, t["discr"])
                val = None
                tg = tags.get(op_local(t["discr"])) or tags.get(dl)
                if nf.flag is not None and (dl == nf.flag or tg == "flag") and blocking is not None:
                    val = 1 if blocking else 0
                elif isinstance(tg, tuple) and tg[0] == "bool":
                    val = 1 if tg[1] else 0
                if tg == "kind0discr":
                    # errno was reset: the kind is none of the named ones, only the wildcard arm is feasible
                    nxt.append(t["otherwise"])
                elif val is not None:
                    tgt = [bb for v, bb in t["targets"] if int(v) == val]
                    nxt.append(tgt[0] if tgt else t["otherwise"])
                elif isinstance(tg, tuple) and tg[0] == "rtest":
                    # branch on r != -1 / r == -1
                    for v, bb in t["targets"] + [[None, t["otherwise"]]]:
                        bval = (int(v) == 1) if v is not None else not any(int(x) == 1 for x, _ in t["targets"])
                        ne_true = bval if tg[1] else (not bval)
                        rk2 = rk
                        if rk in ("raw", "raw_ok", "raw_fail"):
                            rk2 = "raw_ok" if ne_true else "raw_fail"
                            if (rk == "raw_ok" and not ne_true) or (rk == "raw_fail" and ne_true):
                                continue
                        work.append((bb, (blocking, mode, acc_nz, before_nz, rk2, called, errno0, frozenset(tags.items()))))
                    continue
                else:
                    nxt.extend(term_succs(t))
            elif k == "return":
                self.returns.append((bid, blocking, mode, acc_nz, before_nz, rk, called))
                if mode != "orig":
                    self.ev("mode-not-restored", bid, "returns with the descriptor still forced non-blocking")
                if rk in ("raw_fail",) and before_nz:
                    self.ev("minus-one-after-bytes", bid, "returns the raw -1 of a failed call although earlier calls of this request moved bytes")
                if rk == "raw_ok" and before_nz:
                    self.ev("partial-count-instead-of-total", bid, "returns the count of the last call although earlier calls of this request moved bytes too")
                if not called and rk == "initneg" and nf.acc is not None:
                    self.ev("minus-one-without-call", bid, "returns -1 without having made any call (zero-length request)")
                continue
            else:
                nxt.extend(term_succs(t))
            st2 = (blocking, mode, acc_nz, before_nz, rk, called, errno0, frozenset(tags.items()))
            for bb in nxt:
                work.append((bb, st2))
