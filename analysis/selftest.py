"""Thorough tier: liveness of the rules.  Every mutant registered for a property (reverts of the repairs, confirmed
seeded changes) is applied to a scratch copy of /repo's working tree; the property's quick check is run against the
scratch copy and must report at least one violation that is not a known finding.  This judges the checker, never
the repository: it produces no VIOLATION line."""
import json, os, shutil, subprocess, sys, tempfile

VERIF = os.path.dirname(os.path.dirname(os.path.abspath(__file__)))


def mutants_for(pid):
    idx = os.path.join(VERIF, "mutants", "index.json")
    if not os.path.exists(idx):
        return []
    return [m for m in json.load(open(idx)) if pid in m["properties"]]


def _apply(scratch, patch):
    for cmd in (["git", "apply", patch], ["git", "apply", "-C1", patch], ["patch", "-p1", "-F3", "-s", "-i", patch]):
        r = subprocess.run(cmd, cwd=scratch, capture_output=True, text=True)
        if r.returncode == 0:
            return True
        subprocess.run(["git", "checkout", "--", "."], cwd=scratch, capture_output=True)
    return False


def run(pid, repo="/repo", limit=None):
    known = {e["key"] for e in json.load(open(os.path.join(VERIF, "known_findings.json"))) if e.get("status") == "open"}
    ms = mutants_for(pid)
    if limit:
        ms = ms[:limit]
    res = {"mutants": len(ms), "fired": 0, "skipped_not_applicable": 0, "missed": [], "details": []}
    if not ms:
        return res
    scratch = os.path.join(tempfile.gettempdir(), "ocv-selftest-%s" % pid)
    try:
        for m in ms:
            shutil.rmtree(scratch, ignore_errors=True)
            os.makedirs(scratch)
            subprocess.check_call(["rsync", "-a", "--exclude", "target", "--exclude", ".git", repo + "/", scratch + "/"])
            subprocess.run(["git", "init", "-q"], cwd=scratch, capture_output=True)
            patch = os.path.join(VERIF, m["patch"])
            if not _apply(scratch, patch):
                res["skipped_not_applicable"] += 1
                res["details"].append({"mutant": m["id"], "result": "patch no longer applies (tree was edited)"})
                continue
            env = dict(os.environ)
            env["VERIF_REPO"] = scratch
            env["VERIF_SELFTEST"] = "1"
            env["VERIF_TIER"] = "quick"
            p = subprocess.run([os.path.join(VERIF, "check"), pid, "--tier", "quick"], cwd=VERIF, env=env, capture_output=True, text=True)
            keys = [l.split("key=")[1].strip() for l in p.stdout.splitlines() if l.strip().startswith("rule=") and "key=" in l]
            new = [k for k in keys if k not in known]
            if new:
                res["fired"] += 1
                res["details"].append({"mutant": m["id"], "result": "fired", "keys": new[:3]})
            else:
                res["missed"].append(m["id"])
                res["details"].append({"mutant": m["id"], "result": "MISSED", "rc": p.returncode, "tail": (p.stdout + p.stderr)[-200:]})
    finally:
        shutil.rmtree(scratch, ignore_errors=True)
    return res
