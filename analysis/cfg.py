"""P1: control-flow graph utilities over MIR bodies (block granularity)."""


def term_succs(t, unwind=False):
    k = t["k"]
    out = []
    if k == "goto":
        out = [t["target"]]
    elif k == "switch":
        out = [x[1] for x in t["targets"]] + [t["otherwise"]]
    elif k in ("drop", "assert"):
        out = [t["target"]]
    elif k == "call":
        out = [t["target"]] if t.get("target") is not None else []
    elif k == "asm":
        out = list(t.get("targets", []))
    if unwind and isinstance(t.get("unwind"), int):
        out = out + [t["unwind"]]
    # de-dup, keep order
    seen, r = set(), []
    for x in out:
        if x not in seen:
            seen.add(x)
            r.append(x)
    return r


class Cfg:
    def __init__(self, body, unwind=False):
        self.body = body
        self.unwind = unwind
        self.n = len(body.blocks)
        self.succ = {}
        self.pred = {i: [] for i in range(self.n)}
        for b in body.blocks:
            s = term_succs(b["term"], unwind)
            self.succ[b["id"]] = s
        for a, ss in self.succ.items():
            for s in ss:
                self.pred[s].append(a)
        self.reach = self._reach({0})
        self.returns = [b["id"] for b in body.blocks if b["term"]["k"] == "return" and b["id"] in self.reach]
        self.resumes = [b["id"] for b in body.blocks if b["term"]["k"] in ("resume",) and b["id"] in self.reach]
        self._dom = None
        self._pdom = None

    def term(self, b):
        return self.body.blocks[b]["term"]

    def block(self, b):
        return self.body.blocks[b]

    def _reach(self, starts, avoid=()):
        avoid = set(avoid)
        seen = set()
        st = [s for s in starts if s not in avoid]
        while st:
            x = st.pop()
            if x in seen:
                continue
            seen.add(x)
            for s in self.succ[x]:
                if s not in seen and s not in avoid:
                    st.append(s)
        return seen

    def reachable(self, starts, avoid=()):
        """Blocks reachable from `starts` (inclusive) without entering a block in `avoid`."""
        if isinstance(starts, int):
            starts = {starts}
        return self._reach(set(starts), avoid)

    def after(self, b):
        """Non-unwind successor(s) of a block: where control is after its terminator completed."""
        return term_succs(self.term(b), False)

    # ---- dominators (iterative, small graphs) ----
    def _dominators(self, entry_set, succ, pred, nodes):
        dom = {n: set(nodes) for n in nodes}
        for e in entry_set:
            dom[e] = {e}
        changed = True
        order = list(nodes)
        while changed:
            changed = False
            for n in order:
                if n in entry_set:
                    continue
                ps = [p for p in pred[n] if p in dom]
                if not ps:
                    new = {n}
                else:
                    new = set.intersection(*[dom[p] for p in ps]) | {n}
                if new != dom[n]:
                    dom[n] = new
                    changed = True
        return dom

    @property
    def dom(self):
        if self._dom is None:
            nodes = sorted(self.reach)
            pred = {n: [p for p in self.pred[n] if p in self.reach] for n in nodes}
            self._dom = self._dominators({0}, self.succ, pred, nodes)
        return self._dom

    def dominates(self, a, b):
        return b in self.dom and a in self.dom[b]

    def postdominates(self, a, b, exits=None):
        """Every path from b to an exit (default: return blocks) passes a."""
        exits = set(self.returns if exits is None else exits)
        if a == b:
            return True
        r = self.reachable({b}, avoid={a})
        return not (r & exits)

    def must_pass(self, start_blocks, through, exits=None):
        """True iff every path from any start block to an exit enters a block of `through`.
        Returns (ok, witness_exit)."""
        exits = set(self.returns if exits is None else exits)
        r = self.reachable(set(start_blocks), avoid=set(through))
        bad = sorted(r & exits)
        return (not bad, bad[0] if bad else None)

    def path(self, start, goal_set, avoid=()):
        """A shortest block path from start to any block in goal_set avoiding `avoid` (for reports)."""
        from collections import deque
        avoid = set(avoid)
        goal_set = set(goal_set)
        prev = {start: None}
        dq = deque([start])
        while dq:
            x = dq.popleft()
            if x in goal_set:
                p = []
                while x is not None:
                    p.append(x)
                    x = prev[x]
                return p[::-1]
            for s in self.succ[x]:
                if s not in prev and s not in avoid:
                    prev[s] = x
                    dq.append(s)
        return None

    # ---- loops ----
    def back_edges(self):
        out = []
        for a in sorted(self.reach):
            for s in self.succ[a]:
                if self.dominates(s, a):
                    out.append((a, s))
        return out

    def natural_loops(self):
        """header -> set of blocks (union over back edges to that header)."""
        loops = {}
        for a, h in self.back_edges():
            body = {h, a}
            st = [a]
            while st:
                x = st.pop()
                if x == h:
                    continue
                for p in self.pred[x]:
                    if p not in body and p in self.reach:
                        body.add(p)
                        st.append(p)
            loops.setdefault(h, set()).update(body)
        return loops

    def in_cycle(self, b):
        """Is block b on some cycle?"""
        for s in self.succ[b]:
            if b in self.reachable({s}):
                return True
        return False

    def edge_blocks(self, b, value):
        """For a switch block b, the target for integer value (or otherwise)."""
        t = self.term(b)
        assert t["k"] == "switch"
        for v, bb in t["targets"]:
            if str(v) == str(value):
                return bb
        return t["otherwise"]
