//! ocfacts — rustc_private driver that exports MIR facts of the local crate as JSON.
//!
//! Used as RUSTC_WORKSPACE_WRAPPER: argv = [ocfacts, <path to rustc>, rustc args...].
//! Output: $OCFACTS_OUT/<crate_name>.json (one write per process) for crates named
//! in $OCFACTS_CRATES (comma separated; default: every non-build-script crate).
#![feature(rustc_private)]

extern crate rustc_abi;
extern crate rustc_driver;
extern crate rustc_hir;
extern crate rustc_interface;
extern crate rustc_middle;
extern crate rustc_span;

use rustc_driver::{Callbacks, Compilation};
use rustc_hir::def::DefKind;
use rustc_hir::def_id::{DefId, LOCAL_CRATE};
use rustc_interface::interface::Compiler;
use rustc_middle::mir::{
    AggregateKind, BinOp, Body, BorrowKind, CastKind, Const, Operand, Place, PlaceElem, PlaceTy,
    ProjectionElem, Rvalue, StatementKind, TerminatorKind, UnOp, UnwindAction,
};
use rustc_middle::ty::print::{with_no_trimmed_paths, PrintTraitRefExt};
use rustc_middle::ty::{self, Instance, Ty, TyCtxt, TypingEnv};
use std::collections::BTreeSet;
use std::fmt::Write as _;

fn esc(s: &str) -> String {
    let mut o = String::with_capacity(s.len() + 2);
    o.push('"');
    for c in s.chars() {
        match c {
            '"' => o.push_str("\\\""),
            '\\' => o.push_str("\\\\"),
            '\n' => o.push_str("\\n"),
            '\r' => o.push_str("\\r"),
            '\t' => o.push_str("\\t"),
            c if (c as u32) < 0x20 => {
                let _ = write!(o, "\\u{:04x}", c as u32);
            }
            c => o.push(c),
        }
    }
    o.push('"');
    o
}

struct Cx<'tcx> {
    tcx: TyCtxt<'tcx>,
    adts: BTreeSet<(u32,u32)>,
    adt_ids: Vec<DefId>,
}

fn ty_s<'tcx>(t: Ty<'tcx>) -> String {
    with_no_trimmed_paths!(t.to_string())
}

impl<'tcx> Cx<'tcx> {
    fn add_adt(&mut self, d: DefId) {
        if self.adts.insert((d.krate.as_u32(), d.index.as_u32())) {
            self.adt_ids.push(d);
        }
    }

    fn raw_path(&self, d: DefId) -> String {
        with_no_trimmed_paths!(self.tcx.def_path_str(d))
    }

    /// Canonical path: `<SelfTy as Trait>::f` / `SelfTy::f` for associated items whatever module the impl
    /// block sits in (def_path_str prints `module::<impl ..>::f` for impls outside the type's module);
    /// items nested in functions and closures are `parent::name` / `parent::{closure#n}`.
    fn path(&self, d: DefId) -> String {
        let tcx = self.tcx;
        let kind = tcx.def_kind(d);
        let parent = match tcx.opt_parent(d) {
            Some(p) => p,
            None => return self.raw_path(d),
        };
        let pk = tcx.def_kind(parent);
        match kind {
            DefKind::AssocFn | DefKind::AssocConst { .. } | DefKind::AssocTy => {
                if let DefKind::Impl { of_trait } = pk {
                    let st = tcx.type_of(parent).instantiate_identity().skip_norm_wip();
                    let name = tcx.item_name(d);
                    if of_trait {
                        let tr = tcx.impl_trait_ref(parent).instantiate_identity().skip_norm_wip();
                        return with_no_trimmed_paths!(format!(
                            "<{} as {}>::{}",
                            st,
                            tr.print_only_trait_path(),
                            name
                        ));
                    }
                    return with_no_trimmed_paths!(format!("{}::{}", st, name));
                }
                self.raw_path(d)
            }
            DefKind::Closure => {
                let key = tcx.def_key(d);
                format!("{}::{{closure#{}}}", self.path(parent), key.disambiguated_data.disambiguator)
            }
            DefKind::Fn | DefKind::Static { .. } | DefKind::Const { .. } => {
                if matches!(pk, DefKind::Fn | DefKind::AssocFn | DefKind::Closure) {
                    let key = tcx.def_key(d);
                    let dis = key.disambiguated_data.disambiguator;
                    let name = tcx.item_name(d);
                    if dis == 0 {
                        format!("{}::{}", self.path(parent), name)
                    } else {
                        format!("{}::{}#{}", self.path(parent), name, dis)
                    }
                } else {
                    self.raw_path(d)
                }
            }
            _ => self.raw_path(d),
        }
    }

    fn span_s(&self, sp: rustc_span::Span) -> (String, usize, bool) {
        let sm = self.tcx.sess.source_map();
        let exp = sp.from_expansion();
        // for macro expansions report the outermost call site (file:line of the invocation)
        let root = sp.source_callsite();
        let lo = sm.lookup_char_pos(root.lo());
        let file = match &lo.file.name {
            rustc_span::FileName::Real(r) => match r.local_path() {
                Some(p) => p.to_string_lossy().to_string(),
                None => format!("{:?}", r),
            },
            other => format!("{:?}", other),
        };
        (file, lo.line, exp)
    }

    /// is the span produced by a macro defined in a foreign crate (tracing, format_args, ...)?
    fn foreign_exp(&self, sp: rustc_span::Span) -> bool {
        if !sp.from_expansion() {
            return false;
        }
        let mut s = sp;
        // walk the expansion chain: foreign if ANY macro in the backtrace is non-local
        for _ in 0..32 {
            if !s.from_expansion() {
                break;
            }
            let data = s.ctxt().outer_expn_data();
            match data.kind {
                // `?`, `for`, `while let`, async desugarings are the user's own control flow
                rustc_span::ExpnKind::Desugaring(_) | rustc_span::ExpnKind::AstPass(_) => {}
                rustc_span::ExpnKind::Root => break,
                rustc_span::ExpnKind::Macro(_, name) => {
                    // noise: logging and formatting machinery. Macros that carry the user's own control flow
                    // (matches!, assert!, cfg_if!, thread_local!, ...) are NOT noise.
                    let n = name.as_str();
                    let noisy_name = matches!(
                        n,
                        "format_args" | "format" | "const_format_args" | "format_args_nl" | "print" | "println" | "eprint"
                            | "eprintln" | "write" | "writeln" | "panic" | "unreachable" | "todo" | "unimplemented"
                            | "concat" | "stringify" | "line" | "file" | "column" | "module_path"
                    );
                    let noisy_crate = match data.macro_def_id {
                        Some(d) => {
                            let c = self.tcx.crate_name(d.krate);
                            let c = c.as_str();
                            c.starts_with("tracing") || c == "log"
                        }
                        None => false,
                    };
                    if noisy_name || noisy_crate {
                        return true;
                    }
                }
            }
            s = data.call_site;
        }
        false
    }

    fn place(&mut self, body: &Body<'tcx>, p: &Place<'tcx>) -> String {
        let tcx = self.tcx;
        let mut o = String::new();
        let _ = write!(o, "{{\"l\":{},\"proj\":[", p.local.as_usize());
        let mut pt = PlaceTy::from_ty(body.local_decls[p.local].ty);
        let mut first = true;
        for elem in p.projection.iter() {
            if !first {
                o.push(',');
            }
            first = false;
            self.proj_elem(&mut o, pt, &elem);
            pt = pt.projection_ty(tcx, elem);
        }
        o.push_str("]}");
        o
    }

    fn proj_elem(&mut self, o: &mut String, pt: PlaceTy<'tcx>, elem: &PlaceElem<'tcx>) {
        match elem {
            ProjectionElem::Deref => o.push_str("\"deref\""),
            ProjectionElem::Field(f, fty) => {
                let mut name = format!("{}", f.as_usize());
                let mut of = "null".to_string();
                if let ty::Adt(def, _) = pt.ty.kind() {
                    of = esc(&self.path(def.did()));
                    let vi = pt.variant_index.unwrap_or(rustc_abi::FIRST_VARIANT);
                    if def.is_enum() || vi == rustc_abi::FIRST_VARIANT {
                        if let Some(fd) = def.variant(vi).fields.get(*f) {
                            name = fd.name.to_string();
                        }
                    }
                }
                let _ = write!(
                    o,
                    "{{\"f\":{},\"i\":{},\"ty\":{},\"of\":{}}}",
                    esc(&name),
                    f.as_usize(),
                    esc(&ty_s(*fty)),
                    of
                );
            }
            ProjectionElem::Downcast(name, vi) => {
                let n = match name {
                    Some(s) => s.to_string(),
                    None => format!("{}", vi.as_usize()),
                };
                let _ = write!(o, "{{\"dc\":{},\"vi\":{}}}", esc(&n), vi.as_usize());
            }
            ProjectionElem::Index(l) => {
                let _ = write!(o, "{{\"idx\":{}}}", l.as_usize());
            }
            ProjectionElem::ConstantIndex { offset, from_end, .. } => {
                let _ = write!(o, "{{\"cidx\":{},\"from_end\":{}}}", offset, from_end);
            }
            ProjectionElem::Subslice { from, to, from_end } => {
                let _ = write!(o, "{{\"sub\":[{},{}],\"from_end\":{}}}", from, to, from_end);
            }
            other => {
                let _ = write!(o, "{{\"other\":{}}}", esc(&format!("{:?}", other)));
            }
        }
    }

    fn fn_ref(&mut self, owner: DefId, did: DefId, args: ty::GenericArgsRef<'tcx>) -> String {
        let tcx = self.tcx;
        let env = TypingEnv::post_analysis(tcx, owner);
        let mut o = String::new();
        let orig = self.path(did);
        let mut resolved_did = did;
        let mut resolved_args = args;
        let mut resolved = false;
        // try_resolve can ICE on unnormalizable input only in rare cases; guard on has_escaping
        if let Ok(Some(inst)) = Instance::try_resolve(tcx, env, did, args) {
            match inst.def {
                ty::InstanceKind::Item(d) => {
                    resolved_did = d;
                    resolved_args = inst.args;
                    resolved = true;
                }
                _ => {
                    // shims (drop glue, fn ptr shim, clone shim, virtual): keep the trait path
                    resolved = matches!(inst.def, ty::InstanceKind::Virtual(..)) == false;
                }
            }
        }
        let trait_of = tcx.trait_of_assoc(did).map(|t| self.path(t));
        let rp = self.path(resolved_did);
        let full = with_no_trimmed_paths!(tcx.def_path_str_with_args(resolved_did, resolved_args));
        let _ = write!(
            o,
            "\"callee\":{},\"callee_full\":{},\"orig\":{},\"resolved\":{},\"trait\":{},\"local\":{}",
            esc(&rp),
            esc(&full),
            esc(&orig),
            resolved,
            match trait_of {
                Some(t) => esc(&t),
                None => "null".to_string(),
            },
            resolved_did.is_local()
        );
        let _ = write!(o, ",\"substs\":[");
        let mut first = true;
        for a in resolved_args.iter() {
            if !first {
                o.push(',');
            }
            first = false;
            o.push_str(&esc(&with_no_trimmed_paths!(a.to_string())));
        }
        o.push(']');
        o
    }

    fn operand(&mut self, owner: DefId, body: &Body<'tcx>, op: &Operand<'tcx>) -> String {
        match op {
            Operand::Copy(p) => format!("{{\"k\":\"copy\",\"p\":{}}}", self.place(body, p)),
            Operand::Move(p) => format!("{{\"k\":\"move\",\"p\":{}}}", self.place(body, p)),
            Operand::Constant(c) => self.constant(owner, &c.const_),
            #[allow(unreachable_patterns)]
            other => format!("{{\"k\":\"otherop\",\"dbg\":{}}}", esc(&format!("{:?}", other))),
        }
    }

    fn constant(&mut self, owner: DefId, c: &Const<'tcx>) -> String {
        let tcx = self.tcx;
        let t = c.ty();
        let mut o = String::new();
        let _ = write!(o, "{{\"k\":\"const\",\"ty\":{}", esc(&ty_s(t)));
        match t.kind() {
            ty::FnDef(did, args) => {
                let _ = write!(o, ",\"fn\":{{{}}}", self.fn_ref(owner, *did, args));
            }
            _ => {
                let env = TypingEnv::post_analysis(tcx, owner);
                let mut done = false;
                if t.is_integral() || t.is_bool() || t.is_char() {
                    if let Some(si) = c.try_eval_scalar_int(tcx, env) {
                        let size = si.size();
                        let v: String = if t.is_signed() {
                            format!("{}", si.to_int(size))
                        } else {
                            format!("{}", si.to_uint(size))
                        };
                        let _ = write!(o, ",\"v\":{}", esc(&v));
                        done = true;
                    }
                }
                if !done {
                    // statics referenced by pointer constants, strings, ZSTs, ...
                    let d = with_no_trimmed_paths!(format!("{}", c));
                    let _ = write!(o, ",\"dbg\":{}", esc(&d));
                    if let Const::Unevaluated(uv, _) = c {
                        // a named constant of the crate (`const PARK: Duration = Duration::from_millis(1)`): its value, so
                        // that a rule about "a constant of at most .." reads the named form like the literal one
                        if uv.promoted.is_none() && uv.def.is_local() && t.is_adt() {
                            if let Ok(val) = c.eval(tcx, env, rustc_span::DUMMY_SP) {
                                let ev = with_no_trimmed_paths!(format!("{}", Const::Val(val, t)));
                                let _ = write!(o, ",\"eval\":{}", esc(&ev));
                            }
                        }
                        if let Some(pi) = uv.promoted {
                            let _ = write!(
                                o,
                                ",\"promoted\":{}",
                                esc(&format!("{}::promoted[{}]", self.path(uv.def), pi.as_usize()))
                            );
                        }
                    }
                    if let Const::Val(rustc_middle::mir::ConstValue::Scalar(
                        rustc_middle::mir::interpret::Scalar::Ptr(ptr, _),
                    ), _) = c
                    {
                        let alloc_id = ptr.provenance.alloc_id();
                        if let Some(rustc_middle::mir::interpret::GlobalAlloc::Static(sd)) =
                            tcx.try_get_global_alloc(alloc_id)
                        {
                            let _ = write!(o, ",\"static\":{}", esc(&self.path(sd)));
                        }
                    }
                }
            }
        }
        o.push('}');
        o
    }

    fn rvalue(&mut self, owner: DefId, body: &Body<'tcx>, rv: &Rvalue<'tcx>) -> String {
        let tcx = self.tcx;
        match rv {
            Rvalue::Use(op, ..) => format!("{{\"k\":\"use\",\"a\":{}}}", self.operand(owner, body, op)),
            Rvalue::Repeat(op, _) => {
                format!("{{\"k\":\"repeat\",\"a\":{}}}", self.operand(owner, body, op))
            }
            Rvalue::Ref(_, bk, p) => {
                let m = matches!(bk, BorrowKind::Mut { .. });
                format!("{{\"k\":\"ref\",\"mut\":{},\"p\":{}}}", m, self.place(body, p))
            }
            Rvalue::ThreadLocalRef(d) => {
                format!("{{\"k\":\"tlsref\",\"static\":{}}}", esc(&self.path(*d)))
            }
            Rvalue::RawPtr(k, p) => {
                format!(
                    "{{\"k\":\"rawptr\",\"mut\":{},\"p\":{}}}",
                    format!("{:?}", k).contains("Mut"),
                    self.place(body, p)
                )
            }
            Rvalue::Cast(kind, op, t) => {
                let from = op.ty(&body.local_decls, tcx);
                let ks = match kind {
                    CastKind::IntToInt => "IntToInt".to_string(),
                    CastKind::Transmute => "Transmute".to_string(),
                    CastKind::PtrToPtr => "PtrToPtr".to_string(),
                    other => format!("{:?}", other),
                };
                format!(
                    "{{\"k\":\"cast\",\"kind\":{},\"a\":{},\"from\":{},\"to\":{}}}",
                    esc(&ks),
                    self.operand(owner, body, op),
                    esc(&ty_s(from)),
                    esc(&ty_s(*t))
                )
            }
            Rvalue::BinaryOp(op, ab) => {
                let (a, b) = &**ab;
                let ops: &str = match op {
                    BinOp::Add => "Add",
                    BinOp::Sub => "Sub",
                    BinOp::Mul => "Mul",
                    BinOp::Div => "Div",
                    BinOp::Rem => "Rem",
                    _ => "",
                };
                let ops = if ops.is_empty() { format!("{:?}", op) } else { ops.to_string() };
                format!(
                    "{{\"k\":\"binop\",\"op\":{},\"a\":{},\"b\":{}}}",
                    esc(&ops),
                    self.operand(owner, body, a),
                    self.operand(owner, body, b)
                )
            }
            Rvalue::UnaryOp(op, a) => {
                let ops = match op {
                    UnOp::Not => "Not".to_string(),
                    UnOp::Neg => "Neg".to_string(),
                    other => format!("{:?}", other),
                };
                format!("{{\"k\":\"unop\",\"op\":{},\"a\":{}}}", esc(&ops), self.operand(owner, body, a))
            }
            Rvalue::Discriminant(p) => {
                let pt = p.ty(&body.local_decls, tcx).ty;
                let mut adt = "null".to_string();
                if let ty::Adt(def, _) = pt.kind() {
                    self.add_adt(def.did());
                    adt = esc(&self.path(def.did()));
                }
                format!("{{\"k\":\"discr\",\"p\":{},\"adt\":{}}}", self.place(body, p), adt)
            }
            Rvalue::Aggregate(kind, ops) => {
                let mut o = String::from("{\"k\":\"agg\"");
                match &**kind {
                    AggregateKind::Adt(did, vi, _args, _, _) => {
                        self.add_adt(*did);
                        let def = tcx.adt_def(*did);
                        let v = def.variant(*vi);
                        let _ = write!(
                            o,
                            ",\"adt\":{},\"variant\":{},\"fields\":[",
                            esc(&self.path(*did)),
                            esc(&v.name.to_string())
                        );
                        let mut first = true;
                        for f in v.fields.iter() {
                            if !first {
                                o.push(',');
                            }
                            first = false;
                            o.push_str(&esc(&f.name.to_string()));
                        }
                        o.push(']');
                    }
                    AggregateKind::Closure(did, _) => {
                        let _ = write!(o, ",\"closure\":{}", esc(&self.path(*did)));
                    }
                    AggregateKind::Tuple => o.push_str(",\"tuple\":true"),
                    AggregateKind::Array(_) => o.push_str(",\"array\":true"),
                    other => {
                        let _ = write!(o, ",\"otheragg\":{}", esc(&format!("{:?}", other)));
                    }
                }
                o.push_str(",\"ops\":[");
                let mut first = true;
                for op in ops.iter() {
                    if !first {
                        o.push(',');
                    }
                    first = false;
                    o.push_str(&self.operand(owner, body, op));
                }
                o.push_str("]}");
                o
            }
            Rvalue::CopyForDeref(p) => {
                format!("{{\"k\":\"use\",\"a\":{{\"k\":\"copy\",\"p\":{}}}}}", self.place(body, p))
            }
            other => format!("{{\"k\":\"other\",\"dbg\":{}}}", esc(&format!("{:?}", other))),
        }
    }

    fn unwind(u: &UnwindAction) -> String {
        match u {
            UnwindAction::Cleanup(bb) => format!("{}", bb.as_usize()),
            UnwindAction::Continue => "\"continue\"".to_string(),
            UnwindAction::Unreachable => "\"unreachable\"".to_string(),
            UnwindAction::Terminate(_) => "\"terminate\"".to_string(),
        }
    }

    fn body(&mut self, did: DefId, kind: &str) -> Option<String> {
        let tcx = self.tcx;
        if !tcx.is_mir_available(did) {
            return None;
        }
        let body: &Body<'tcx> = tcx.optimized_mir(did);
        let path = self.path(did);
        let mut out = self.body_of(did, kind, body, &path);
        let promoted = tcx.promoted_mir(did);
        for (pi, pb) in promoted.iter_enumerated() {
            let pp = format!("{}::promoted[{}]", path, pi.as_usize());
            out.push_str(",\n");
            out.push_str(&self.body_of(did, "Promoted", pb, &pp));
        }
        Some(out)
    }

    fn body_of(&mut self, did: DefId, kind: &str, body: &Body<'tcx>, path: &str) -> String {
        let tcx = self.tcx;
        let mut o = String::new();
        let (file, line, _) = self.span_s(tcx.def_span(did));
        let parent = tcx.opt_parent(did).map(|p| self.path(p));
        // impl self type for assoc fns
        let mut impl_of = "null".to_string();
        let mut impl_trait = "null".to_string();
        if let Some(p) = tcx.opt_parent(did) {
            if let DefKind::Impl { of_trait } = tcx.def_kind(p) {
                let st = tcx.type_of(p).instantiate_identity().skip_norm_wip();
                impl_of = esc(&ty_s(st));
                if of_trait {
                    let tr = tcx.impl_trait_ref(p).instantiate_identity().skip_norm_wip();
                    impl_trait = esc(&with_no_trimmed_paths!(tr.print_only_trait_path().to_string()));
                }
            }
        }
        let abi = if matches!(tcx.def_kind(did), DefKind::Fn | DefKind::AssocFn) {
            let sig = tcx.fn_sig(did).instantiate_identity().skip_norm_wip();
            format!("{:?}", sig.abi())
        } else {
            "closure".to_string()
        };
        let _ = write!(
            o,
            "{{\"path\":{},\"kind\":{},\"parent\":{},\"impl_of\":{},\"impl_trait\":{},\"abi\":{},\"file\":{},\"line\":{},\"argc\":{},\"locals\":[",
            esc(path),
            esc(kind),
            match parent {
                Some(p) => esc(&p),
                None => "null".to_string(),
            },
            impl_of,
            impl_trait,
            esc(&abi),
            esc(&file),
            line,
            body.arg_count
        );
        let mut first = true;
        for (_l, decl) in body.local_decls.iter_enumerated() {
            if !first {
                o.push(',');
            }
            first = false;
            let _ = write!(o, "{}", esc(&ty_s(decl.ty)));
        }
        o.push_str("],\"debug\":[");
        first = true;
        for vdi in body.var_debug_info.iter() {
            if let rustc_middle::mir::VarDebugInfoContents::Place(p) = &vdi.value {
                if !first {
                    o.push(',');
                }
                first = false;
                let _ = write!(
                    o,
                    "{{\"name\":{},\"p\":{},\"arg\":{}}}",
                    esc(&vdi.name.to_string()),
                    self.place(body, p),
                    match vdi.argument_index {
                        Some(i) => format!("{}", i),
                        None => "null".to_string(),
                    }
                );
            }
        }
        o.push_str("],\"blocks\":[");
        first = true;
        for (bb, data) in body.basic_blocks.iter_enumerated() {
            if !first {
                o.push(',');
            }
            first = false;
            let _ = write!(o, "{{\"id\":{},\"cleanup\":{},\"stmts\":[", bb.as_usize(), data.is_cleanup);
            let mut f2 = true;
            for st in data.statements.iter() {
                let (_, sline, _) = self.span_s(st.source_info.span);
                let fexp = self.foreign_exp(st.source_info.span);
                match &st.kind {
                    StatementKind::Assign(b) => {
                        let (lhs, rv) = &**b;
                        if !f2 {
                            o.push(',');
                        }
                        f2 = false;
                        let _ = write!(
                            o,
                            "{{\"k\":\"assign\",\"lhs\":{},\"rhs\":{},\"line\":{},\"exp\":{}}}",
                            self.place(body, lhs),
                            self.rvalue(did, body, rv),
                            sline,
                            fexp
                        );
                    }
                    StatementKind::SetDiscriminant { place, variant_index } => {
                        if !f2 {
                            o.push(',');
                        }
                        f2 = false;
                        let _ = write!(
                            o,
                            "{{\"k\":\"setdiscr\",\"lhs\":{},\"vi\":{},\"line\":{},\"exp\":{}}}",
                            self.place(body, place),
                            variant_index.as_usize(),
                            sline,
                            fexp
                        );
                    }
                    _ => {}
                }
            }
            o.push_str("],\"term\":");
            let term = data.terminator();
            let (_, tline, _) = self.span_s(term.source_info.span);
            let texp = self.foreign_exp(term.source_info.span);
            let mut t = String::new();
            match &term.kind {
                TerminatorKind::Goto { target } => {
                    let _ = write!(t, "{{\"k\":\"goto\",\"target\":{}", target.as_usize());
                }
                TerminatorKind::SwitchInt { discr, targets } => {
                    let dty = discr.ty(&body.local_decls, tcx);
                    let _ = write!(
                        t,
                        "{{\"k\":\"switch\",\"discr\":{},\"dty\":{},\"targets\":[",
                        self.operand(did, body, discr),
                        esc(&ty_s(dty))
                    );
                    let mut f3 = true;
                    for (v, bbt) in targets.iter() {
                        if !f3 {
                            t.push(',');
                        }
                        f3 = false;
                        let _ = write!(t, "[{},{}]", esc(&format!("{}", v)), bbt.as_usize());
                    }
                    let _ = write!(t, "],\"otherwise\":{}", targets.otherwise().as_usize());
                }
                TerminatorKind::UnwindResume => t.push_str("{\"k\":\"resume\""),
                TerminatorKind::UnwindTerminate(_) => t.push_str("{\"k\":\"terminate\""),
                TerminatorKind::Return => t.push_str("{\"k\":\"return\""),
                TerminatorKind::Unreachable => t.push_str("{\"k\":\"unreachable\""),
                TerminatorKind::Drop { place, target, unwind, .. } => {
                    let pty = place.ty(&body.local_decls, tcx).ty;
                    let _ = write!(
                        t,
                        "{{\"k\":\"drop\",\"p\":{},\"pty\":{},\"target\":{},\"unwind\":{}",
                        self.place(body, place),
                        esc(&ty_s(pty)),
                        target.as_usize(),
                        Self::unwind(unwind)
                    );
                }
                TerminatorKind::Call { func, args, destination, target, unwind, .. } => {
                    t.push_str("{\"k\":\"call\",");
                    let fty = func.ty(&body.local_decls, tcx);
                    match fty.kind() {
                        ty::FnDef(fd, fargs) => {
                            t.push_str(&self.fn_ref(did, *fd, fargs));
                        }
                        _ => {
                            let _ = write!(
                                t,
                                "\"callee\":null,\"fnptr\":{},\"fnty\":{}",
                                self.operand(did, body, func),
                                esc(&ty_s(fty))
                            );
                        }
                    }
                    t.push_str(",\"args\":[");
                    let mut f3 = true;
                    for a in args.iter() {
                        if !f3 {
                            t.push(',');
                        }
                        f3 = false;
                        t.push_str(&self.operand(did, body, &a.node));
                    }
                    let _ = write!(
                        t,
                        "],\"dest\":{},\"target\":{},\"unwind\":{}",
                        self.place(body, destination),
                        match target {
                            Some(b) => format!("{}", b.as_usize()),
                            None => "null".to_string(),
                        },
                        Self::unwind(unwind)
                    );
                }
                TerminatorKind::Assert { cond, expected, msg, target, unwind } => {
                    let ms = format!("{:?}", msg);
                    let kind = ms.split(|c: char| c == '(' || c == ' ' || c == '{').next().unwrap_or("").to_string();
                    let _ = write!(
                        t,
                        "{{\"k\":\"assert\",\"cond\":{},\"expected\":{},\"msg\":{},\"target\":{},\"unwind\":{}",
                        self.operand(did, body, cond),
                        expected,
                        esc(&kind),
                        target.as_usize(),
                        Self::unwind(unwind)
                    );
                }
                TerminatorKind::FalseEdge { real_target, .. } => {
                    let _ = write!(t, "{{\"k\":\"goto\",\"target\":{}", real_target.as_usize());
                }
                TerminatorKind::FalseUnwind { real_target, .. } => {
                    let _ = write!(t, "{{\"k\":\"goto\",\"target\":{}", real_target.as_usize());
                }
                TerminatorKind::InlineAsm { targets, .. } => {
                    let _ = write!(t, "{{\"k\":\"asm\",\"targets\":[");
                    let mut f3 = true;
                    for b in targets.iter() {
                        if !f3 {
                            t.push(',');
                        }
                        f3 = false;
                        let _ = write!(t, "{}", b.as_usize());
                    }
                    t.push(']');
                }
                other => {
                    let _ = write!(t, "{{\"k\":\"otherterm\",\"dbg\":{}", esc(&format!("{:?}", other)));
                }
            }
            let _ = write!(t, ",\"line\":{},\"exp\":{}}}", tline, texp);
            o.push_str(&t);
            o.push('}');
        }
        o.push_str("]}");
        o
    }

    fn adt(&mut self, did: DefId) -> String {
        let tcx = self.tcx;
        let def = tcx.adt_def(did);
        let mut o = String::new();
        let kind = if def.is_enum() {
            "enum"
        } else if def.is_union() {
            "union"
        } else {
            "struct"
        };
        let _ = write!(o, "{}:{{\"kind\":\"{}\",\"local\":{},\"variants\":[", esc(&self.path(did)), kind, did.is_local());
        let mut first = true;
        for (vi, v) in def.variants().iter_enumerated() {
            if !first {
                o.push(',');
            }
            first = false;
            let dv = if def.is_enum() {
                format!("{}", def.discriminant_for_variant(tcx, vi).val)
            } else {
                "0".to_string()
            };
            let _ = write!(o, "{{\"name\":{},\"discr\":{},\"fields\":[", esc(&v.name.to_string()), esc(&dv));
            let mut f2 = true;
            for f in v.fields.iter() {
                if !f2 {
                    o.push(',');
                }
                f2 = false;
                let fty = tcx.type_of(f.did).instantiate_identity().skip_norm_wip();
                let _ = write!(o, "{{\"name\":{},\"ty\":{}}}", esc(&f.name.to_string()), esc(&ty_s(fty)));
            }
            o.push_str("]}");
        }
        let drop = match tcx.adt_destructor(did) {
            Some(d) => esc(&self.path(d.did)),
            None => "null".to_string(),
        };
        let _ = write!(o, "],\"repr_c\":{},\"drop\":{}}}", def.repr().c(), drop);
        o
    }
}

struct Cb;

impl Callbacks for Cb {
    fn after_analysis<'tcx>(&mut self, _c: &Compiler, tcx: TyCtxt<'tcx>) -> Compilation {
        let out_dir = match std::env::var("OCFACTS_OUT") {
            Ok(d) => d,
            Err(_) => return Compilation::Continue,
        };
        let cname = tcx.crate_name(LOCAL_CRATE).to_string();
        if cname.starts_with("build_script") {
            return Compilation::Continue;
        }
        if let Ok(list) = std::env::var("OCFACTS_CRATES") {
            if !list.split(',').any(|c| c == cname) {
                return Compilation::Continue;
            }
        }
        let mut cx = Cx { tcx, adts: BTreeSet::new(), adt_ids: Vec::new() };
        let mut bodies: Vec<String> = Vec::new();
        let mut statics: Vec<String> = Vec::new();
        let mut impls: Vec<String> = Vec::new();
        for ldid in tcx.hir_crate_items(()).definitions() {
            let did = ldid.to_def_id();
            match tcx.def_kind(did) {
                DefKind::Fn | DefKind::AssocFn => {
                    if let Some(b) = cx.body(did, if tcx.def_kind(did) == DefKind::Fn { "Fn" } else { "AssocFn" }) {
                        bodies.push(b);
                    }
                }
                DefKind::Static { mutability, .. } => {
                    let t = tcx.type_of(did).instantiate_identity().skip_norm_wip();
                    let (file, line, _) = cx.span_s(tcx.def_span(did));
                    statics.push(format!(
                        "{{\"path\":{},\"ty\":{},\"mutable\":{},\"file\":{},\"line\":{}}}",
                        esc(&cx.path(did)),
                        esc(&ty_s(t)),
                        mutability.is_mut(),
                        esc(&file),
                        line
                    ));
                }
                DefKind::Struct | DefKind::Enum | DefKind::Union => {
                    cx.add_adt(did);
                }
                DefKind::Impl { of_trait } => {
                    let st = tcx.type_of(did).instantiate_identity().skip_norm_wip();
                    let (file, line, _) = cx.span_s(tcx.def_span(did));
                    let (tr, safety) = if of_trait {
                        let hdr = tcx.impl_trait_header(did);
                        let trr = hdr.trait_ref.instantiate_identity().skip_norm_wip();
                        (
                            esc(&with_no_trimmed_paths!(trr.print_only_trait_path().to_string())),
                            format!("{:?}", hdr.safety).contains("Unsafe"),
                        )
                    } else {
                        ("null".to_string(), false)
                    };
                    impls.push(format!(
                        "{{\"trait\":{},\"self_ty\":{},\"unsafe\":{},\"file\":{},\"line\":{}}}",
                        tr,
                        esc(&ty_s(st)),
                        safety,
                        esc(&file),
                        line
                    ));
                }
                _ => {}
            }
        }
        // closures are not among the HIR item definitions: take them from the MIR keys
        let mut keys: Vec<DefId> = tcx.mir_keys(()).iter().map(|l| l.to_def_id()).collect();
        keys.sort_by_key(|d| (d.krate.as_u32(), d.index.as_u32()));
        for did in keys {
            if tcx.def_kind(did) == DefKind::Closure && tcx.is_closure_like(did) {
                if let Some(b) = cx.body(did, "Closure") {
                    bodies.push(b);
                }
            }
        }
        let mut adts: Vec<String> = Vec::new();
        let ids: Vec<DefId> = cx.adt_ids.clone();
        for d in ids {
            adts.push(cx.adt(d));
        }
        let cfg = std::env::var("OCFACTS_CONFIG").unwrap_or_default();
        let mut o = String::new();
        let _ = write!(o, "{{\"crate\":{},\"config\":{},\"adts\":{{", esc(&cname), esc(&cfg));
        o.push_str(&adts.join(","));
        o.push_str("},\"statics\":[");
        o.push_str(&statics.join(","));
        o.push_str("],\"impls\":[");
        o.push_str(&impls.join(","));
        o.push_str("],\"bodies\":[\n");
        o.push_str(&bodies.join(",\n"));
        o.push_str("\n]}\n");
        let _ = std::fs::create_dir_all(&out_dir);
        let tmp = format!("{}/.{}.{}.tmp", out_dir, cname, std::process::id());
        let fin = format!("{}/{}.json", out_dir, cname);
        std::fs::write(&tmp, o).expect("ocfacts: cannot write fact file");
        std::fs::rename(&tmp, &fin).expect("ocfacts: cannot rename fact file");
        Compilation::Continue
    }
}

fn main() {
    let mut args: Vec<String> = std::env::args().collect();
    // RUSTC_WORKSPACE_WRAPPER: argv[1] is the path of the real rustc
    if args.len() > 1 && (args[1].ends_with("rustc") || args[1].contains("/rustc")) {
        args.remove(1);
    }
    let mut cb = Cb;
    rustc_driver::run_compiler(&args, &mut cb);
}
