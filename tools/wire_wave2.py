#!/usr/bin/env python3
"""wire_wave2.py -- register the clauses of rules/wave2.py in the property modules (one-off edit script, kept for the record
of which clause went where).  Idempotent: a module that already mentions the rule id is left alone."""
import os, re, sys
V = os.path.dirname(os.path.dirname(os.path.abspath(__file__)))

# property -> [(rule id, call expression using `run`, `f`, `fx`)]
WIRES = {
    "C01": [("C01-CONTAINER-API", 'wave3.container_api_rule(run, f, "C01-CONTAINER-API")'),
            ("C01-GROW-REFUSAL", 'wave2.grow_refusal_rule(run, f, "C01-GROW-REFUSAL")')],
    "C02": [("C02-RESULTS-DELETERS", 'wave3.results_deleters_rule(run, f, "C02-RESULTS-DELETERS")'),
            ("C02-NO-STATE-GATE", 'wave2.wait_no_state_gate_rule(run, f, "C02-NO-STATE-GATE")')],
    "C03": [("C03-CONTAINER-API", 'wave3.container_api_rule(run, f, "C03-CONTAINER-API")')],
    "C05": [("C05-FIRST-HIT", 'wave2.return_at_first_hit_rule(run, f, "C05-FIRST-HIT")')],
    "C07": [("C07-BROADCAST-EVERY-CHANGE", 'wave3.change_broadcast_rule(run, f, "C07-BROADCAST-EVERY-CHANGE")'),
            # the state reported for a yield (Suspend(y, t) / Cancelled) is read from the per-yield requests: C09's rules are
            # necessary for "each change is reported with the correct new state" as well
            ("C07-YIELD-REQUESTS", 'coro.push_yield_rule(run, f, "C07-YIELD-REQUESTS")'),
            ("C07-YIELD-DRAIN", 'coro.drain_rule(run, f, "C07-YIELD-DRAIN")'),
            ("C07-REQUEST-PAIRING", 'wave2.request_pairing_rule(run, f, "C07-REQUEST-PAIRING")'),
            ("C07-NO-EXIT-BEFORE-YIELD", 'wave3.no_exit_before_yield_rule(run, f, "C07-NO-EXIT-BEFORE-YIELD")')],
    "C08": [("C08-CURRENT-ENDS", 'wave2.current_ends_rule(run, f, "C08-CURRENT-ENDS")'),
            # a yield misreported (Cancelled instead of Suspend(y, t), or with another coroutine's delay) loses the yielded value:
            # the per-yield request rules of C09 are necessary conditions of C08 as well
            ("C08-YIELD-REQUESTS", 'coro.push_yield_rule(run, f, "C08-YIELD-REQUESTS")'),
            ("C08-YIELD-DRAIN", 'coro.drain_rule(run, f, "C08-YIELD-DRAIN")'),
            ("C08-REQUEST-PAIRING", 'wave2.request_pairing_rule(run, f, "C08-REQUEST-PAIRING")'),
            ("C08-NO-EXIT-BEFORE-YIELD", 'wave3.no_exit_before_yield_rule(run, f, "C08-NO-EXIT-BEFORE-YIELD")'),
            ("C08-SUSPENDER-POPPED", 'wave3.suspender_popped_rule(run, f, "C08-SUSPENDER-POPPED")'),
            # "a panic in the body is reported as an error": also when the panic happens inside a hooked call
            ("C08-ERROR-FROM-SYSCALL", 'wave3.error_from_syscall_rule(run, f, "C08-ERROR-FROM-SYSCALL")')],
    "C09": [("C09-REQUEST-PAIRING", 'wave2.request_pairing_rule(run, f, "C09-REQUEST-PAIRING")'),
            ("C09-NO-EXIT-BEFORE-YIELD", 'wave3.no_exit_before_yield_rule(run, f, "C09-NO-EXIT-BEFORE-YIELD")'),
            ("C09-SUSPENDER-POPPED", 'wave3.suspender_popped_rule(run, f, "C09-SUSPENDER-POPPED")')],
    "C10": [("C10-PROMOTION-EXITS", 'wave3.promotion_exits_rule(run, f, "C10-PROMOTION-EXITS")')],
    "C11": [("C11-BROADCAST-EVERY-CHANGE", 'wave3.change_broadcast_rule(run, f, "C11-BROADCAST-EVERY-CHANGE")'),
            ("C11-WORKER-EXIT", 'wave2.worker_exit_rule(run, f, "C11-WORKER-EXIT")')],
    "C12": [("C12-CLEAN-ALL", 'wave3.clean_all_waiters_rule(run, f, "C12-CLEAN-ALL")'),
            ("C12-GROW-REFUSAL", 'wave2.grow_refusal_rule(run, f, "C12-GROW-REFUSAL")')],
    "C13": [("C13-RUNNING-RECORD", 'wave2.running_coroutine_record_rule(run, f, "C13-RUNNING-RECORD")'),
            ("C13-REQUEST-PAIRING", 'wave2.request_pairing_rule(run, f, "C13-REQUEST-PAIRING")')],
    "C14": [("C14-NOW-REALTIME", 'wave3.now_is_realtime_rule(run, f, "C14-NOW-REALTIME")'),
            ("C14-SCALE-WIDTH", 'wave2.wide_scale_rule(run, f, "C14-SCALE-WIDTH")')],
    "C15": [("C15-GROW-REFUSAL", 'wave2.grow_refusal_rule(run, f, "C15-GROW-REFUSAL")'),
            ("C15-IDLE-PARK", 'wave2.idle_block_rule(run, f, "C15-IDLE-PARK")')],
    "C16": [("C16-ERRNO-FRESH", 'wave2_nio.errno_not_stale_rule(run, f, "C16-ERRNO-FRESH")'),
            ("C16-NO-RAW-ARRAY", 'wave2_nio.no_raw_array_rule(run, f, "C16-NO-RAW-ARRAY")'),
            ("C16-INDEX-ADVANCES", 'wave2_nio.index_advances_rule(run, f, "C16-INDEX-ADVANCES")'),
            ("C16-HEAD-UNUSED-AFTER-SUCCESS", 'wave2_nio.no_reissue_while_head_wrong_rule(run, f, "C16-HEAD-UNUSED-AFTER-SUCCESS")')],
    "C17": [("C17-NO-RAW-ARRAY", 'wave2_nio.no_raw_array_rule(run, f, "C17-NO-RAW-ARRAY")'),
            ("C17-INDEX-ADVANCES", 'wave2_nio.index_advances_rule(run, f, "C17-INDEX-ADVANCES")'),
            ("C17-HEAD-UNUSED-AFTER-SUCCESS", 'wave2_nio.no_reissue_while_head_wrong_rule(run, f, "C17-HEAD-UNUSED-AFTER-SUCCESS")'),
            ("C17-OFFSET-PER-ELEMENT", 'wave2_nio.offset_per_element_rule(run, f, "C17-OFFSET-PER-ELEMENT")')],
    "C18": [("C18-MODE-WRITERS", 'wave3.mode_writers_rule(run, f, "C18-MODE-WRITERS")')],
    "C19": [("C19-WRITERS", 'wave3.limit_writers_rule(run, f, "C19-WRITERS")'),
            ("C19-FILL-OPTION", 'wave3.fill_option_rule(run, f, "C19-FILL-OPTION")')],
    "C21": [("C21-INNER-REACHES-OS", 'wave3.inner_reaches_os_rule(run, f, "C21-INNER-REACHES-OS")')],
    "C20": [("C20-POLL-EVERY-ROUND", 'wave2.poll_every_round_rule(run, f, "C20-POLL-EVERY-ROUND")'),
            ("C20-FRESH-EVENTS", 'wave3.fresh_events_rule(run, f, "C20-FRESH-EVENTS")'),
            ("C20-WAIT-IN-SYSCALL", 'wave3.wait_in_syscall_rule(run, f, "C20-WAIT-IN-SYSCALL")')],
    "C24": [("C24-FAULT-SIGNALS-UNBLOCKED", 'wave2.fault_signals_unblocked_rule(run, f, "C24-FAULT-SIGNALS-UNBLOCKED")'),
            ("C24-ALWAYS-REDIRECTS", 'wave3.always_redirects_rule(run, f, "C24-ALWAYS-REDIRECTS")'),
            ("C24-SUSPENDER-POPPED", 'wave3.suspender_popped_rule(run, f, "C24-SUSPENDER-POPPED")'),
            ("C24-ERROR-FROM-SYSCALL", 'wave3.error_from_syscall_rule(run, f, "C24-ERROR-FROM-SYSCALL")')],
    "C25": [("C25-DELETERS", 'wave2.local_deleters_rule(run, f, "C25-DELETERS")'),
            ("C25-CURRENT-ENDS", 'wave2.current_ends_rule(run, f, "C25-CURRENT-ENDS")'),
            ("C25-GET-CONSULTS-MAP", 'wave3.local_get_consults_map_rule(run, f, "C25-GET-CONSULTS-MAP")')],
    "C26": [("C26-LOOKUP-CONSULTS-MAP", 'wave2.lookup_consults_map_rule(run, f, "C26-LOOKUP-CONSULTS-MAP")'),
            ("C26-NO-REBIND", 'wave3.no_rebind_rule(run, f, "C26-NO-REBIND")')],
    "C27": [("C27-DIRECTION", 'wave2.uring_direction_rule(run, f, "C27-DIRECTION")')],
}

for pid, wires in sorted(WIRES.items()):
    p = os.path.join(V, "rules", pid + ".py")
    s = open(p).read()
    todo = [(rid, call) for (rid, call) in wires if rid not in s]
    if not todo:
        print(pid, "already wired")
        continue
    m = re.search(r"^(\s*)return run\.finish\(\)\s*$", s, re.M)
    if not m:
        sys.exit("no `return run.finish()` in %s" % p)
    ind = m.group(1)
    # how the module names its fact base at that point
    body = s[:m.start()]
    if re.search(r"^\s*f = fx\[", body, re.M):
        pre = ""
    elif re.search(r"^\s*for (\w+), f in fx\.items\(\):", body, re.M):
        pre = None      # clauses go inside the loop: handled below
    else:
        first_cfg = re.search(r'\["(core/[a-z_]+)"', body)
        pre = ind + 'f = fx["%s"]\n' % (first_cfg.group(1) if first_cfg else "core/default")
    lines = ""
    if pre is None:
        lines += ind + "for _cfg, f in fx.items():\n"
        for rid, call in todo:
            lines += ind + "    " + call + "\n"
    else:
        lines += pre
        for rid, call in todo:
            lines += ind + call + "\n"
    s = s[:m.start()] + ind + "# clauses added for the wave-2 seeds (rules/wave2.py; DESIGN 12a)\n" + lines + s[m.start():]
    # imports
    need_imp = []
    if "wave2." in lines and not re.search(r"^from rules import .*\bwave2\b", s, re.M):
        need_imp.append("wave2")
    if "wave3." in lines and not re.search(r"^from rules import .*\bwave3\b", s, re.M):
        need_imp.append("wave3")
    if "wave2_nio." in lines and not re.search(r"^from rules import .*\bwave2_nio\b", s, re.M):
        need_imp.append("wave2_nio")
    if "coro." in lines and not re.search(r"^from rules import .*\bcoro\b", s, re.M):
        need_imp.append("coro")
    if need_imp:
        mi = re.search(r"^from rules\.common import .*$", s, re.M)
        s = s[:mi.end()] + "\nfrom rules import " + ", ".join(need_imp) + s[mi.end():]
    open(p, "w").write(s)
    print(pid, "wired:", [rid for rid, _ in todo])
