#!/usr/bin/env python3
"""try_patch.py <patch.diff> [Cxx ...]  — apply a seeded change to /repo, run the checks, undo it.
Prints, per check, whether it raised a VIOLATION and the keys it named. Never leaves /repo modified."""
import json, os, subprocess, sys
patch = os.path.abspath(sys.argv[1])
pids = sys.argv[2:]
V = "/verif"
if not pids:
    pids = sorted(f[:-3] for f in os.listdir(V + "/rules") if f.startswith("C") and f.endswith(".py"))
st = subprocess.run(["git", "-C", "/repo", "status", "--porcelain"], capture_output=True, text=True).stdout.strip()
if st:
    sys.exit("refusing: /repo has uncommitted changes:\n" + st)
if subprocess.run(["git", "-C", "/repo", "apply", patch], capture_output=True).returncode != 0:
    if subprocess.run(["git", "-C", "/repo", "apply", "-C1", patch], capture_output=True).returncode != 0:
        r = subprocess.run(["patch", "-p1", "-F3", "-s", "-i", patch], cwd="/repo", capture_output=True, text=True)
        if r.returncode != 0:
            subprocess.check_call(["git", "-C", "/repo", "checkout", "--", "."])
            subprocess.run(["git", "-C", "/repo", "clean", "-fdq"])
            sys.exit("patch does not apply: " + r.stdout[-300:] + r.stderr[-300:])
fired = {}
try:
    for pid in pids:
        p = subprocess.run([V + "/check", pid], capture_output=True, text=True, cwd=V)
        keys = [l.split("key=")[1].strip() for l in p.stdout.splitlines() if l.strip().startswith("rule=") and "key=" in l]
        if p.returncode != 0:
            fired[pid] = keys or ["rc=%d" % p.returncode + (" " + p.stdout[-300:] + p.stderr[-300:] if p.returncode != 1 else "")]
finally:
    subprocess.check_call(["git", "-C", "/repo", "checkout", "--", "."])
    subprocess.run(["git", "-C", "/repo", "clean", "-fdq"])
print(json.dumps(fired, indent=1))
