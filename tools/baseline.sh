#!/bin/sh
# Runs the repository's pinned test suite (guard off; the machinery adds no hooks).
cd /repo && CARGO_NET_OFFLINE=true cargo nextest run --workspace --no-fail-fast --tool-config-file pb:/w/lib/nextest.toml --profile pb --test-threads 8 --offline "$@"
