#!/usr/bin/env python3
"""mk_mutant.py <id> <Cxx,Cyy> <file> <kind-text>  (old text on stdin up to a line '=====', then new text)
Creates mutants/<id>.diff by replacing exactly one occurrence of <old> in <file> of the scratch worktree /tmp/mywt,
runs the named checks against the scratch tree (must fire), registers it in mutants/index.json."""
import json, os, subprocess, sys
mid, props, path, kind = sys.argv[1], sys.argv[2].split(","), sys.argv[3], sys.argv[4]
WT = os.environ.get("WT", "/tmp/mywt")
V = os.path.dirname(os.path.dirname(os.path.abspath(__file__)))
old, new = sys.stdin.read().split("\n=====\n")
new = new.rstrip("\n")
subprocess.check_call(["git", "-C", WT, "checkout", "-q", "--", "."])
src = open(os.path.join(WT, path)).read()
n = src.count(old)
if n != 1:
    sys.exit("old text occurs %d times in %s" % (n, path))
open(os.path.join(WT, path), "w").write(src.replace(old, new))
diff = subprocess.run(["git", "-C", WT, "diff"], capture_output=True, text=True).stdout
subprocess.check_call(["git", "-C", WT, "checkout", "-q", "--", "."])
pf = os.path.join(V, "mutants", mid + ".diff")
open(pf, "w").write(diff)
r = subprocess.run(["python3", os.path.join(V, "tools", "wt_patch.py"), WT, pf] + props, capture_output=True, text=True)
print(r.stdout[-1500:], r.stderr[-500:])
try:
    fired = json.loads(r.stdout)
except Exception:
    fired = {}
fired = {p: k for p, k in fired.items() if not any('-BUILD/' in x or '-EVALUABLE/' in x for x in k)}
if not os.environ.get("NOREG") and all(p in fired for p in props):
    idx = json.load(open(os.path.join(V, "mutants", "index.json")))
    idx = [m for m in idx if m["id"] != mid]
    idx.append({"id": mid, "patch": "mutants/%s.diff" % mid, "properties": props, "kind": kind})
    json.dump(idx, open(os.path.join(V, "mutants", "index.json"), "w"), indent=1)
    print("REGISTERED", mid)
else:
    print("NOT registered (missed by: %s)" % [p for p in props if p not in fired])
