#!/usr/bin/env python3
"""try_wave2.py <config> <rule_fn> [patch.diff]  -- run ONE clause of rules/wave2.py on its own (not through ./check, so
that clauses can be developed while frozen matrix runs read rules/Cxx.py): on /repo, or on the scratch worktree $WT
with the patch applied.  Prints violations and path accounting."""
import json, os, subprocess, sys
V = os.path.dirname(os.path.dirname(os.path.abspath(__file__)))
sys.path.insert(0, V); os.chdir(V)
cfg, fn = sys.argv[1], sys.argv[2]
patch = os.path.abspath(sys.argv[3]) if len(sys.argv) > 3 else None
wt = os.environ.get("WT", "/tmp/mywt5")
if patch:
    subprocess.check_call(["git", "-C", wt, "checkout", "-q", "--", "."]); subprocess.run(["git", "-C", wt, "clean", "-fdq", "-e", "target"])
    if subprocess.run(["git", "-C", wt, "apply", patch]).returncode != 0:
        sys.exit("patch does not apply")
    os.environ["VERIF_REPO"] = wt
try:
    from analysis import facts as F
    from analysis.report import Run
    from rules import wave2, wave2_nio, wave3
    run = Run("W2", "quick", "wave2 clause on its own")
    f = F.load(cfg)
    mod = [m for m in (wave2, wave2_nio, wave3) if hasattr(m, fn)][0]
    getattr(mod, fn)(run, f, "W2-" + fn)
    for v in run.violations:
        print("VIOL", v["key"], "|", v["what"][:220])
    print("instances", {r: run.rules[r]["instances"] for r in run.rules}, "accounting", json.dumps(run.counters.get("path_accounting", {}))[:300])
finally:
    if patch:
        subprocess.check_call(["git", "-C", wt, "checkout", "-q", "--", "."])
