#!/usr/bin/env python3
"""benign_matrix.py <dir-with-r*.diff> ... : apply each behaviour-preserving refactoring to /repo, run ALL checks, undo.
Any new (non-known-finding) violation is a false alarm."""
import json, os, subprocess, sys, glob
kf = {e["key"] for e in json.load(open("/verif/known_findings.json")) if e["status"] == "open"}
for d in sys.argv[1:]:
    for patch in sorted(glob.glob(os.path.join(d, "r*.diff"))):
        r = subprocess.run(["python3", "/verif/tools/try_patch.py", patch], capture_output=True, text=True)
        try:
            out = json.loads(r.stdout)
        except Exception:
            print("%s ERROR %s" % (patch, (r.stdout + r.stderr)[-200:].replace("\n", " ")))
            continue
        new = {pid: [k for k in ks if k not in kf] for pid, ks in out.items()}
        new = {p: k for p, k in new.items() if k}
        print("%s %s" % (patch, "SILENT" if not new else "ALARM " + json.dumps({p: [x[:120] for x in k[:3]] for p, k in new.items()})))
        sys.stdout.flush()
