#!/usr/bin/env python3
"""seed_matrix.py [--wt <scratch worktree>] [seed dirs...]
For every seeded change: does the check of the seed's OWN property raise a new (not known-finding) violation?
With --wt the patch is applied to a scratch worktree of /repo (tools/wt_patch.py), otherwise to /repo itself
(tools/try_patch.py).  Paths are relative to the checkout this script lives in, so that it can run from a frozen copy
(tools/frozen.sh).  A seed whose confirm.json carries "superseded_by_fix" is listed and not counted: a later fix: commit
removed the construct the change relied on, so on today's tree the change no longer breaks the property."""
import json, os, subprocess, sys, glob
V = os.path.dirname(os.path.dirname(os.path.abspath(__file__)))
args = sys.argv[1:]
wt = None
if args[:1] == ["--wt"]:
    wt, args = args[1], args[2:]
kf = {e["key"] for e in json.load(open(V + "/known_findings.json")) if e["status"] == "open"}
rows = []
dirs = sorted(glob.glob(V + "/seeded/C*-*")) if not args else args
for d in dirs:
    pid = os.path.basename(d.rstrip("/")).split("-")[0]
    patch = os.path.join(d, "patch.diff")
    if not os.path.exists(patch):
        continue
    try:
        cj = json.load(open(os.path.join(d, "confirm.json")))
    except Exception:
        cj = {}
    if cj.get("superseded_by_fix"):
        rows.append((os.path.basename(d), "SUPERSEDED", "by fix " + cj["superseded_by_fix"]))
        continue
    cmd = ["python3", V + "/tools/wt_patch.py", wt, patch, pid] if wt else ["python3", V + "/tools/try_patch.py", patch, pid]
    r = subprocess.run(cmd, capture_output=True, text=True)
    try:
        out = json.loads(r.stdout)
    except Exception:
        rows.append((os.path.basename(d), "ERROR", (r.stdout + r.stderr)[-160:]))
        continue
    new = [k for k in out.get(pid, []) if k not in kf]
    rows.append((os.path.basename(d), "CAUGHT" if new else "MISSED", new[:2]))
    print("%-8s %-7s %s" % (rows[-1][0], rows[-1][1], "; ".join(x[:110] for x in rows[-1][2])), flush=True)
n = [r for r in rows if r[1] in ("CAUGHT", "MISSED")]
for r in rows:
    if r[1] not in ("CAUGHT", "MISSED"):
        print("%-8s %-7s %s" % r)
print("caught %d / %d (superseded %d, errors %d)" % (sum(1 for r in n if r[1] == "CAUGHT"), len(n), sum(1 for r in rows if r[1] == "SUPERSEDED"), sum(1 for r in rows if r[1] == "ERROR")))
