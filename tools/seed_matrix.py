#!/usr/bin/env python3
"""For every seeded change: does the check of the seed's OWN property raise a new (not known-finding) violation?"""
import json, os, subprocess, sys, glob
kf = {e["key"] for e in json.load(open("/verif/known_findings.json")) if e["status"] == "open"}
rows = []
dirs = sorted(glob.glob("/verif/seeded/C*-*")) if len(sys.argv) < 2 else sys.argv[1:]
for d in dirs:
    pid = os.path.basename(d).split("-")[0]
    patch = os.path.join(d, "patch.diff")
    if not os.path.exists(patch):
        continue
    r = subprocess.run(["python3", "/verif/tools/try_patch.py", patch, pid], capture_output=True, text=True)
    try:
        out = json.loads(r.stdout)
    except Exception:
        rows.append((os.path.basename(d), "ERROR", (r.stdout + r.stderr)[-160:]))
        continue
    new = [k for k in out.get(pid, []) if k not in kf]
    rows.append((os.path.basename(d), "CAUGHT" if new else "MISSED", new[:2]))
for r in rows:
    print("%-8s %-7s %s" % (r[0], r[1], "; ".join(x[:110] for x in r[2]) if isinstance(r[2], list) else r[2]))
print("caught %d / %d" % (sum(1 for r in rows if r[1] == "CAUGHT"), len(rows)))
