#!/usr/bin/env python3
"""wt_patch.py <worktree> <patch.diff> [Cxx ...] — like try_patch.py but on a scratch worktree of /repo (VERIF_REPO),
so /repo itself is never touched.  The worktree is reset to HEAD before and after.
Prints JSON {pid: [keys of new violations]} (known findings are already suppressed by the checks)."""
import json, os, subprocess, sys
wt = os.path.abspath(sys.argv[1])
patch = os.path.abspath(sys.argv[2])
pids = sys.argv[3:]
V = os.path.dirname(os.path.dirname(os.path.abspath(__file__)))
if not pids:
    pids = sorted(f[:-3] for f in os.listdir(V + "/rules") if f.startswith("C") and f.endswith(".py") and len(f) == 6)


def reset():
    subprocess.check_call(["git", "-C", wt, "checkout", "-q", "--", "."])
    subprocess.run(["git", "-C", wt, "clean", "-fdq", "-e", "target"])


reset()
if subprocess.run(["git", "-C", wt, "apply", patch], capture_output=True).returncode != 0:
    if subprocess.run(["git", "-C", wt, "apply", "-C1", patch], capture_output=True).returncode != 0:
        r = subprocess.run(["patch", "-p1", "-F3", "-s", "-i", patch], cwd=wt, capture_output=True, text=True)
        if r.returncode != 0:
            reset()
            sys.exit("patch does not apply: " + r.stdout[-300:] + r.stderr[-300:])
fired = {}
env = dict(os.environ, VERIF_REPO=wt, VERIF_SELFTEST="1")
try:
    for pid in pids:
        p = subprocess.run([V + "/check", pid], capture_output=True, text=True, cwd=V, env=env)
        keys = [l.split("key=")[1].strip() for l in p.stdout.splitlines() if l.strip().startswith("rule=") and "key=" in l]
        if p.returncode != 0:
            fired[pid] = keys or ["rc=%d" % p.returncode + (" " + p.stdout[-300:] + p.stderr[-300:] if p.returncode != 1 else "")]
finally:
    reset()
print(json.dumps(fired, indent=1))
