#!/bin/bash
# frozen.sh [dir] -- a checkout of /verif's HEAD under /tmp (default /tmp/verif-frozen) sharing the fact cache and the driver
# binary, so that long matrix / probe runs read a fixed version of analysis/ and rules/ while the working copy is edited.
# Evidence written by runs started there lands in the checkout, not in /verif/evidence.
set -e
D=${1:-/tmp/verif-frozen}
V=$(cd "$(dirname "$0")/.." && pwd)
if [ -d "$D" ]; then git -C "$V" worktree remove --force "$D"; fi
git -C "$V" worktree add -q --detach "$D" HEAD
ln -s "$V/.cache" "$D/.cache"
mkdir -p "$D/driver"; ln -s "$V/driver/target" "$D/driver/target"
[ -d "$V/fixtures/target" ] && ln -s "$V/fixtures/target" "$D/fixtures/target" || true
echo "$D at $(git -C "$D" rev-parse --short HEAD)"
