#!/bin/bash
# confirm_seed.sh <Cxx> <a|b>  — independently confirm a seeded change in a scratch worktree:
#   demo passes on the unchanged tree, fails with the patch, existing suite passes with the patch.
# Copies the confirmed seed to /verif/seeded/<Cxx>-<v>/ and writes confirm.json there.
set -u
ID=$1; V=$2
SRC=${SEEDROOT:-/tmp/seed}/$ID-out/$V
SLOT=${SLOT:-}
WT=/tmp/confirm-wt$SLOT
export CARGO_TARGET_DIR=/tmp/confirm-target$SLOT CARGO_NET_OFFLINE=true
if [ ! -d $WT ]; then git -C /repo worktree add -q --detach $WT HEAD; fi
cd $WT && git checkout -q --detach $(git -C /repo rev-parse HEAD) && git checkout -q -- . && git clean -fdq
PATCHF=${PATCHF:-$SRC/patch.diff}
DEMO_DIR=${DEMO_DIR:-core/tests}
PKG=${PKG:-open-coroutine-core}
[ -f $PATCHF ] || { echo "no patch for $ID-$V"; exit 2; }
DEMOS=$(ls $SRC | grep -E '\.rs$')
FEAT=""
grep -qiE '"(demo|needs)".*--features preemptive' $SRC/meta.json && FEAT="--features preemptive"
grep -qiE '"(demo|needs)".*--features io_uring' $SRC/meta.json && FEAT="--features io_uring"
# the grep above is a heuristic (a meta that says "compiled out under --features preemptive" also matches): FEAT_OVERRIDE wins
[ -n "${FEAT_OVERRIDE+x}" ] && FEAT="$FEAT_OVERRIDE"
for d in $DEMOS; do cp $SRC/$d $DEMO_DIR/$d; done
run_demos() {
  local rc=0
  for d in $DEMOS; do
    timeout 900 cargo test --offline -p $PKG $FEAT --test ${d%.rs} > /tmp/confirm-$ID-$V-$1-${d%.rs}.log 2>&1 || rc=1
  done
  return $rc
}
run_demos before; BEFORE=$?
git apply $PATCHF || { echo "patch does not apply"; exit 2; }
run_demos after; AFTER=$?
for d in $DEMOS; do rm -f $DEMO_DIR/$d; done
timeout 1800 cargo nextest run --workspace --no-fail-fast --test-threads 8 --offline > /tmp/confirm-$ID-$V-suite.log 2>&1; SUITE=$?
SUM=$(grep -E "Summary" /tmp/confirm-$ID-$V-suite.log | tail -1)
git checkout -q -- . && git clean -fdq
echo "$ID-$V demo_before_rc=$BEFORE demo_after_rc=$AFTER suite_rc=$SUITE $SUM"
if [ $BEFORE -eq 0 ] && [ $AFTER -ne 0 ] && [ $SUITE -eq 0 ]; then
  mkdir -p /verif/seeded/$ID-$V && cp $PATCHF /verif/seeded/$ID-$V/patch.diff && cp $SRC/meta.json /verif/seeded/$ID-$V/ && for d in $DEMOS; do cp $SRC/$d /verif/seeded/$ID-$V/; done
  printf '{"confirmed": true, "demo_on_unchanged_tree": "pass", "demo_with_patch": "fail", "suite_with_patch": "%s", "features": "%s", "base_commit": "%s"}\n' "$SUM" "$FEAT" "$(git -C /repo rev-parse --short HEAD)" > /verif/seeded/$ID-$V/confirm.json
  echo CONFIRMED
else
  echo NOT-CONFIRMED
fi
