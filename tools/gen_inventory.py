#!/usr/bin/env python3
"""Regenerates the machine-written parts of DESIGN.md (between <!-- BEGIN:x --> / <!-- END:x --> markers):
rule inventory from the evidence files, findings table from known_findings.json, seed matrix from seeded/."""
import json, os, re, glob, subprocess, sys
V = os.path.dirname(os.path.dirname(os.path.abspath(__file__)))
props = [json.loads(l) for l in open(V + "/properties.jsonl")]


def inventory():
    out = ["| property | rule | template | what is decided | instances (floor) | failing on this tree |", "|---|---|---|---|---|---|"]
    for p in props:
        ev = V + "/evidence/%s.json" % p["id"]
        if not os.path.exists(ev):
            continue
        e = json.load(open(ev))
        for r in e["coverage"]["rules"]:
            out.append("| %s | `%s` | %s | %s | %d (%d) | %s |" % (p["id"], r["id"], r["template"], r["desc"].replace("|", "/"), r["instances"], r["floor"], r["failed"] or ""))
    return "\n".join(out)


def findings():
    k = json.load(open(V + "/known_findings.json"))
    out = ["| property | status | key | what |", "|---|---|---|---|"]
    seen = set()
    for e in sorted(k, key=lambda e: (e["status"] != "open", e["property"], e["key"])):
        if (e["key"], e["status"]) in seen:
            continue
        seen.add((e["key"], e["status"]))
        out.append("| %s | %s%s | `%s` | %s |" % (e["property"], e["status"], (" " + e.get("commit", "")) if e.get("commit") else "", e["key"].replace("|", "/"), e["what"].replace("|", "/")[:200]))
    return "\n".join(out)


def seeds():
    out = ["| seeded change | property | what it needs | caught by (own property's check) |", "|---|---|---|---|"]
    mpath = V + "/seeded/matrix.json"
    m = json.load(open(mpath)) if os.path.exists(mpath) else {}
    for d in sorted(glob.glob(V + "/seeded/C*-*")):
        n = os.path.basename(d)
        try:
            meta = json.load(open(d + "/meta.json"))
        except Exception:
            meta = {}
        needs = (meta.get("needs") or "")
        needs = needs if isinstance(needs, str) else json.dumps(needs)
        out.append("| %s | %s | %s | %s |" % (n, n.split("-")[0], needs.replace("\n", " ").replace("|", "/")[:160], ", ".join("`%s`" % x.split("/")[0] for x in m.get(n, [])[:3]) or "?"))
    return "\n".join(out)


def main():
    p = V + "/DESIGN.md"
    s = open(p).read()
    for name, fn in (("inventory", inventory), ("findings", findings), ("seeds", seeds)):
        b, e = "<!-- BEGIN:%s -->" % name, "<!-- END:%s -->" % name
        if b in s and e in s:
            i, j = s.index(b) + len(b), s.index(e)
            s = s[:i] + "\n" + fn() + "\n" + s[j:]
    open(p, "w").write(s)


if __name__ == "__main__":
    main()
