#!/usr/bin/env python3
"""gen_ref_items.py — freeze the module-level item index of the reference tree (/repo HEAD, clean) that the rules'
anchor paths were written against: analysis/ref_items.json.  Run after every fix: commit to /repo."""
import json, os, sys
V = os.path.dirname(os.path.dirname(os.path.abspath(__file__)))
sys.path.insert(0, V)
os.environ["VERIF_NO_RELOCATE"] = "1"
from analysis import facts as F
out = {}
for c in F.CONFIGS:
    if c == "fixtures":
        continue
    p = F.build(c)
    d = os.path.dirname(p)
    for fn in sorted(os.listdir(d)):
        raw = json.load(open(os.path.join(d, fn)))
        out["%s|%s" % (raw["crate"], raw.get("config"))] = F.items_of(raw)
json.dump(out, open(os.path.join(V, "analysis", "ref_items.json"), "w"), indent=0, sort_keys=True)
print({k: {kk: len(vv) for kk, vv in v.items()} for k, v in out.items()})
