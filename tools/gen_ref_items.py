#!/usr/bin/env python3
"""gen_ref_items.py — freeze the module-level item index of the reference tree (/repo HEAD, clean) that the rules'
anchor paths were written against: analysis/ref_items.json.  Run after every fix: commit to /repo."""
import json, os, sys
V = os.path.dirname(os.path.dirname(os.path.abspath(__file__)))
sys.path.insert(0, V)
os.environ["VERIF_NO_RELOCATE"] = "1"
from analysis import facts as F
out = {}
for c in F.CONFIGS:
    if c == "fixtures":
        continue
    p = F.build(c)
    d = os.path.dirname(p)
    for fn in sorted(os.listdir(d)):
        raw = json.load(open(os.path.join(d, fn)))
        it = F.items_of(raw)
        # reference call graph (who calls each repo-local function; a closure counts as its defining function): used to
        # find the host of an anchor function that a later edit inlined into its only caller
        fx = F.Facts(os.path.join(d, fn))
        from rules.common import callers_map
        cm = callers_map(fx)
        def top(p):
            return F.norm(p.split("::{closure#", 1)[0])
        callers = {}
        for callee, cs in cm.items():
            if "{closure#" in callee:
                continue
            cs2 = sorted({top(c) for c in cs} - {callee})
            if cs2:
                callers[callee] = cs2
        it["callers"] = callers
        # every named function and method of the reference tree: a function that is NOT in this list did not exist when the
        # rules were written, so no rule can mean it by its name -- it is an extracted helper, whatever it is called
        it["bodies"] = sorted({F.norm(b["path"]) for b in raw["bodies"] if b["kind"] in ("Fn", "AssocFn")})
        # parameter names of the reference functions by position: a parameter that was merely renamed keeps the name the
        # rules know (analysis/facts.py Body.name_of)
        params = {}
        for b in raw["bodies"]:
            if b["kind"] not in ("Fn", "AssocFn"):
                continue
            nm = {}
            for d in b["debug"]:
                if not d["p"]["proj"] and 1 <= d["p"]["l"] <= b["argc"]:
                    nm.setdefault(d["p"]["l"], d["name"])
            params.setdefault(F.norm(b["path"]), [nm.get(i, "_%d" % i) for i in range(1, b["argc"] + 1)])
        it["params"] = params
        out["%s|%s" % (raw["crate"], raw.get("config"))] = it
json.dump(out, open(os.path.join(V, "analysis", "ref_items.json"), "w"), indent=0, sort_keys=True)
print({k: {kk: len(vv) for kk, vv in v.items()} for k, v in out.items()})
