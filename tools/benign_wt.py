#!/usr/bin/env python3
"""benign_wt.py <worktree> <dir-or-diff> ... : apply each behaviour-preserving refactoring to a scratch worktree, run ALL
checks against it (VERIF_REPO), reset.  Any new (non-known-finding) violation is a false alarm."""
import json, os, subprocess, sys, glob
V = os.path.dirname(os.path.dirname(os.path.abspath(__file__)))
kf = {e["key"] for e in json.load(open(V + "/known_findings.json")) if e["status"] == "open"}
wt = sys.argv[1]
# BENIGN_CLUSTER=1: run, for a probe of group Cxx_Cyy, the checks of every property that shares code with one of them
# (all 28 otherwise).  The clusters follow the anchors: queues; coroutine / scheduler / pool / monitor; syscall / net.
CLUSTERS = [
    ["C01", "C03", "C04", "C05", "C06"],
    ["C01", "C02", "C07", "C08", "C09", "C10", "C11", "C12", "C13", "C15", "C22", "C23", "C24", "C25", "C26"],
    ["C14", "C15", "C16", "C17", "C18", "C19", "C20", "C21", "C27", "C28"],
]


def cluster(patch):
    import re
    if not os.environ.get("BENIGN_CLUSTER"):
        return []
    own = set(re.findall(r"C\d\d", os.path.basename(os.path.dirname(patch)))) or set()
    if not own:
        return []
    out = set(own)
    for c in CLUSTERS:
        if own & set(c):
            out |= set(c)
    return sorted(out)


for d in sys.argv[2:]:
    for patch in ([d] if d.endswith(".diff") else sorted(glob.glob(os.path.join(d, "r*.diff")))):
        r = subprocess.run(["python3", V + "/tools/wt_patch.py", wt, patch] + cluster(patch), capture_output=True, text=True)
        try:
            out = json.loads(r.stdout)
        except Exception:
            print("%s ERROR %s" % (patch, (r.stdout + r.stderr)[-200:].replace("\n", " ")))
            continue
        new = {pid: [k for k in ks if k not in kf] for pid, ks in out.items()}
        new = {p: k for p, k in new.items() if k}
        print("%s %s" % (patch, "SILENT" if not new else "ALARM " + json.dumps({p: [x[:140] for x in k[:4]] for p, k in new.items()})))
        sys.stdout.flush()
