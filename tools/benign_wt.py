#!/usr/bin/env python3
"""benign_wt.py <worktree> <dir-or-diff> ... : apply each behaviour-preserving refactoring to a scratch worktree, run ALL
checks against it (VERIF_REPO), reset.  Any new (non-known-finding) violation is a false alarm."""
import json, os, subprocess, sys, glob
V = os.path.dirname(os.path.dirname(os.path.abspath(__file__)))
kf = {e["key"] for e in json.load(open(V + "/known_findings.json")) if e["status"] == "open"}
wt = sys.argv[1]
for d in sys.argv[2:]:
    for patch in ([d] if d.endswith(".diff") else sorted(glob.glob(os.path.join(d, "r*.diff")))):
        r = subprocess.run(["python3", V + "/tools/wt_patch.py", wt, patch], capture_output=True, text=True)
        try:
            out = json.loads(r.stdout)
        except Exception:
            print("%s ERROR %s" % (patch, (r.stdout + r.stderr)[-200:].replace("\n", " ")))
            continue
        new = {pid: [k for k in ks if k not in kf] for pid, ks in out.items()}
        new = {p: k for p, k in new.items() if k}
        print("%s %s" % (patch, "SILENT" if not new else "ALARM " + json.dumps({p: [x[:140] for x in k[:4]] for p, k in new.items()})))
        sys.stdout.flush()
