#!/usr/bin/env python3
"""Regenerates MANIFEST.json from rules/*.py (each rule module carries MANIFEST metadata)."""
import importlib, json, os, sys
HERE = os.path.dirname(os.path.dirname(os.path.abspath(__file__)))
sys.path.insert(0, HERE)
props = [json.loads(l) for l in open(os.path.join(HERE, "properties.jsonl"))]
checks, na = [], []
NA = json.load(open(os.path.join(HERE, "tools", "not_applicable.json"))) if os.path.exists(os.path.join(HERE, "tools", "not_applicable.json")) else {}
for p in props:
    pid = p["id"]
    path = os.path.join(HERE, "rules", pid + ".py")
    if not os.path.exists(path) or pid in NA:
        na.append({"property_id": pid, "reason": NA.get(pid, "static check not built yet (see DESIGN.md section 3 for the planned rules)")})
        continue
    mod = importlib.import_module("rules." + pid)
    meta = getattr(mod, "MANIFEST", {})
    checks.append({
        "property_id": pid,
        "quick_cmd": "./check %s --tier quick" % pid,
        "thorough_cmd": "./check %s --tier thorough" % pid,
        "evidence_file": "/verif/evidence/%s.json" % pid,
        "replay_cmd_template": "./check --explain {path}",
        "engine": "ocfacts+rules",
        "level_claimed": {
            "category": "other",
            "text": meta.get("level", "static analysis of structural necessary conditions on all paths of the named functions (MIR of the type-checked program); it decides those clauses, not the behavioural property as a whole"),
            "design_ref": "DESIGN.md section 3, " + pid,
        },
        "level_note": meta.get("note", "trusted base: rustc's MIR for the analysed configurations, the model table of external-crate contracts in DESIGN.md 1.4, the oracle tables in rules/%s.py" % pid),
        "technique": meta.get("technique", "static analysis: MIR dataflow/CFG rules"),
    })
man = {
    "version": 1,
    "setup_cmd": "cd /verif/driver && CARGO_NET_OFFLINE=true cargo +nightly build --release --offline && cd /verif && ./check --warm",
    "hooks": {
        "guard": "acl_dev_open_coroutine_verif",
        "enable": "none needed: static analysis reads the type-checked program; the guard name is reserved and unused",
        "baseline_off_cmd": "/verif/tools/baseline.sh",
        "source_commits": [],
        "add_only": True,
    },
    "engines": [
        {"name": "ocfacts", "path": "driver/", "serves_properties": [c["property_id"] for c in checks],
         "kind_free_text": "rustc_private driver (RUSTC_WORKSPACE_WRAPPER under cargo +nightly check) exporting MIR facts: resolved callees, CFG, places with field names, ADTs, statics, impls"},
        {"name": "rules", "path": "analysis/ rules/", "serves_properties": [c["property_id"] for c in checks],
         "kind_free_text": "python3 (stdlib) analyses over the fact base: CFG/dominators, reaching definitions and backward slices, path walker with branch conditions, decision tables, loop classifier, unit inference"},
    ],
    "checks": checks,
    "notes": "Static analysis only. Every check rebuilds its facts from /repo's working tree (cached by a hash of the tree). Known genuine defects that are not repaired are listed in known_findings.json and printed as KNOWN-FINDING lines.",
    "not_applicable": na,
}
json.dump(man, open(os.path.join(HERE, "MANIFEST.json"), "w"), indent=1)
print("checks:", len(checks), "not_applicable:", len(na))
