"""Rule instances for C15 on the core crate (wait path, facade bracket, pool growth)."""
from analysis.facts import norm
from analysis.cfg import Cfg
from analysis.flow import DefUse, backward, find_calls, callee_is, callee_ends, op_local, op_const, bool_branch, variant_arms, switch_info
from analysis.table import describe_val, PathWalker
from rules.common import need

LOOP = "net::event_loop::EventLoop"
CO = "coroutine::korosensei::Coroutine"
SUS = "coroutine::suspender::korosensei::Suspender"
POOL = "co_pool::CoroutinePool"


def yield_rule(run, f, rid):
    run.rule(rid, "in wait_just a coroutine yields (until the deadline) before any OS wait, the OS wait then uses a zero timeout, and the Syscall(Suspend) mark precedes the yield", floor=3, template="T2/T5/T3")
    b = need(run, rid, f, LOOP + "::wait_just")
    if b is None:
        return
    cfg = Cfg(b)
    du = DefUse(b)
    un = find_calls(b, callee_is(SUS + "::until", SUS + "::until_with", SUS + "::delay"))
    sel = [(x, t) for (x, t) in b.calls() if norm(t.get("callee") or "").endswith("Selector::select")]
    sc = find_calls(b, callee_is(CO + "::syscall"))
    cur = find_calls(b, callee_is(SUS + "::current"))
    if len(un) != 1 or len(sel) != 1 or not cur:
        run.fail(rid, "wait_just/shape", b.loc(), "wait_just no longer has one yield (suspender.until) and one selector.select")
        return
    ub, ut = un[0]
    sb, st = sel[0]
    # yield precedes the OS wait on the coroutine path
    if ub in cfg.reachable({0}, avoid={sb}) and sb in cfg.reachable(cfg.after(ub)) and ub not in cfg.reachable(cfg.after(sb)):
        run.ok(rid, "wait_just/yield-before-os-wait", "suspender.until(ts) happens before selector.select")
    else:
        run.fail(rid, "wait_just/yield-before-os-wait", b.loc(), "a coroutine reaches the OS wait without having yielded first: it blocks the whole event-loop thread for its timeout")
    # after the yield the timeout handed to select is Some(Duration::ZERO)
    ok = False
    for blk_id in cfg.reachable(cfg.after(ub)):
        for s in b.blocks[blk_id]["stmts"]:
            if s["k"] == "assign" and cfg.dominates(ub, blk_id) and s["rhs"]["k"] == "agg" and s["rhs"].get("variant") == "Some":
                d = repr(describe_val(b, du, s["rhs"]["ops"][0]))
                if "ZERO" in d or "Duration" in d and "'0'" in d:
                    l = s["lhs"]["l"]
                    sl = backward(b, st["args"][2], du, at=(sb, "term"), through_calls="none")
                    if l in sl.locals:
                        ok = True
    # and the deadline yielded until is the one computed from the requested timeout
    tsl = backward(b, ut["args"][1], du, at=(ub, "term"), through_calls="none")
    ts_ok = any(norm(t.get("callee") or "") == "common::get_timeout_time" for (_x, t) in tsl.calls)
    if ok and ts_ok:
        run.ok(rid, "wait_just/zero-timeout-after-yield", "left_time = Some(Duration::ZERO) after the yield; yield until get_timeout_time(time)")
    else:
        run.fail(rid, "wait_just/zero-timeout-after-yield", b.loc(), "after a coroutine has waited by yielding, the OS wait must be a zero-timeout poll, and the yield must last until get_timeout_time(requested) (zero after yield: %s, deadline: %s)" % (ok, ts_ok))
    # Suspend mark precedes the yield
    marks = [(x, t) for (x, t) in sc if "Suspend" in repr(describe_val(b, du, t["args"][3])) and x in cfg.reachable({0}, avoid={ub})]
    if marks and all(ub in cfg.reachable(cfg.after(x)) for (x, _t) in marks):
        run.ok(rid, "wait_just/suspend-mark-before-yield", "syscall(.., Suspend(timestamp)) before until(timestamp)")
    else:
        run.fail(rid, "wait_just/suspend-mark-before-yield", b.loc(), "the coroutine is not marked Syscall(Suspend(deadline)) before it yields: the scheduler would not park it until the deadline")


def facade_rule(run, f, rid):
    run.rule(rid, "every syscall facade enters Syscall(name, Executing) before the inner call and returns to Running after it", floor=39, template="T3")
    n = 0
    for b in f.bodies:
        if b.kind != "AssocFn" or not b.npath.startswith("<syscall::unix::") or "SyscallFacade as " not in b.npath or b.npath.endswith(("::fmt", "::default")):
            continue
        nm = b.npath.rsplit("::", 1)[1]
        run.fn(b)
        n += 1
        cfg = Cfg(b)
        du = DefUse(b)
        inner = [x for (x, t) in b.calls() if norm(t.get("orig") or "").endswith("Syscall::" + nm) and (t.get("trait") or "") == (b.raw.get("impl_trait") or "")]
        inner = inner or [x for (x, t) in b.calls() if norm(t.get("orig") or "").endswith("Syscall::" + nm)]
        if len(inner) > 1:
            # the stdout/stderr bypass of the write facade calls the raw layer directly: the inner call is the one on self.inner
            from analysis.flow import field_chain
            inner = [x for x in inner if (field_chain(b, du, b.blocks[x]["term"]["args"][0]) or [""])[-1] == "inner"]
        sc = [(x, t) for (x, t) in find_calls(b, callee_is(CO + "::syscall"))]
        rn = [x for (x, t) in find_calls(b, callee_is(CO + "::running"))]
        why = []
        if len(inner) != 1:
            why.append("no single inner call")
        else:
            ix = inner[0]
            pre = [(x, t) for (x, t) in sc if ix in cfg.reachable(cfg.after(x)) and x not in cfg.reachable(cfg.after(ix))]
            post = [x for x in rn if x in cfg.reachable(cfg.after(ix))]
            if not pre:
                why.append("the coroutine is not put into Syscall state before the inner call")
            else:
                st = repr(describe_val(b, du, pre[0][1]["args"][3]))
                nmv = repr(describe_val(b, du, pre[0][1]["args"][2]))
                if "Executing" not in st:
                    why.append("the state entered is not Executing")
                if "'%s'" % nm not in nmv and nm not in nmv:
                    why.append("the syscall name recorded is not %s" % nm)
            if not post:
                why.append("running() is not called after the inner call")
            # the result returned is the inner call's
            r = backward(b, 0, du, through_calls="none")
            if not any(x == ix for (x, _t) in r.calls):
                why.append("the value returned is not the inner call's result")
        if why:
            run.fail(rid, b.npath, b.loc(), "%s facade: %s" % (nm, "; ".join(why)))
        else:
            run.ok(rid, b.npath, "syscall(.., %s, Executing) -> inner -> running()" % nm)
    return n


def grow_rule(run, f, rid):
    run.rule(rid, "the pool creates another worker when one blocks (Suspend/Syscall) as long as tasks are waiting in any queue it can take from", floor=3, template="T6/T2")
    b = need(run, rid, f, "<co_pool::creator::CoroutineCreator as coroutine::listener::Listener>::on_state_changed")
    if b is not None:
        cfg = Cfg(b)
        du = DefUse(b)
        sw = None
        for blk in b.blocks:
            if blk["term"]["k"] == "switch":
                si = switch_info(b, du, blk["id"])
                if si["kind"] == "discr" and norm(si["adt"] or "").endswith("CoroutineState"):
                    sw = si
        tg = [x for (x, t) in find_calls(b, callee_is(POOL + "::try_grow"))]
        ok = sw is not None
        if ok:
            t = b.blocks[sw["bid"]]["term"]
            for v in ("Suspend", "Syscall", "Error", "Cancelled"):
                arm = sw["arms"].get(v, t["otherwise"])
                if not any(x in cfg.reachable({arm}) for x in tg):
                    ok = False
        if ok:
            run.ok(rid, "creator/grow-on-block", "try_grow on Suspend, Syscall (and after Error/Cancelled)")
        else:
            run.fail(rid, "creator/grow-on-block", b.loc(), "the pool does not try to grow when a worker suspends or enters a system call: queued tasks wait for the blocked worker")
    b = need(run, rid, f, POOL + "::try_grow")
    if b is not None:
        cfg = Cfg(b)
        du = DefUse(b)
        em = [(x, t) for (x, t) in b.calls() if norm(t.get("callee") or "").endswith(("OrderedLocalQueue::is_empty", "OrderedLocalQueue::is_local_empty", "OrderedLocalQueue::is_global_empty", "CoroutinePool::is_empty", "CoroutinePool::is_local_empty"))]
        sc = find_calls(b, callee_is(POOL + "::submit_co"))
        ok = len(em) == 1 and norm(em[0][1]["callee"]).endswith("OrderedLocalQueue::is_empty") and sc
        if ok:
            br = bool_branch(b, cfg, du, em[0][1]["dest"]["l"], cfg.after(em[0][0]))
            ok = br is not None and cfg.dominates(br[1], sc[0][0])
        if ok:
            run.ok(rid, "try_grow/guard", "skips only when local, sibling and shared queues are all empty")
        else:
            run.fail(rid, "try_grow/guard", b.loc(), "try_grow must decide on OrderedLocalQueue::is_empty() (local + siblings + shared); with a narrower test no worker is created for tasks that spilled to the shared queue while every worker is blocked")
    b = need(run, rid, f, "common::ordered_work_steal::OrderedLocalQueue::is_empty")
    if b is not None:
        cs = [norm(t.get("callee") or "") for (_x, t) in b.calls()]
        if "common::ordered_work_steal::OrderedLocalQueue::len" in cs:
            lb = f.body("common::ordered_work_steal::OrderedLocalQueue::len")
            lcs = {norm(t.get("callee") or "") for (_x, t) in lb.calls()} if lb else set()
            if "common::ordered_work_steal::OrderedWorkStealQueue::len" in lcs and "st3::fifo::Worker::capacity" in lcs:
                run.ok(rid, "OrderedLocalQueue::is_empty", "len() counts the shared queue and every local queue")
            else:
                run.fail(rid, "OrderedLocalQueue::is_empty", lb.loc() if lb else b.loc(), "OrderedLocalQueue::len no longer counts the shared queue and all local queues")
        else:
            run.fail(rid, "OrderedLocalQueue::is_empty", b.loc(), "is_empty is not len() == 0 over all queues")
