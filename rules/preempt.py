"""Rule instances on the preemption monitor (C22; config core/preemptive)."""
from analysis.facts import norm
from analysis.cfg import Cfg
from analysis.flow import DefUse, backward, find_calls, callee_is, callee_ends, op_local, op_const, bool_branch, variant_arms, field_chain, switch_info
from analysis.table import PathWalker, describe_val, switch_test
from rules.common import need, inl, arg_by_name

M = "monitor::Monitor"
CO = "coroutine::korosensei::Coroutine"
SUS = "coroutine::suspender::korosensei::Suspender"


def handler_rule(run, f, rid):
    run.rule(rid, "the SIGURG handler suspends only a coroutine that is in Running state, and re-enables SIGURG before parking inside the handler", floor=2, template="T2")
    b = need(run, rid, f, M + "::start::sigurg_handler")
    if b is None:
        return
    b = inl(f, b)
    w = PathWalker(b)
    sus = [x for (x, t) in find_calls(b, callee_is(SUS + "::suspend", SUS + "::suspend_with", SUS + "::delay", SUS + "::until"))]
    if not sus:
        run.fail(rid, "sigurg_handler/suspend", b.loc(), "the handler no longer suspends the current coroutine")
        return
    paths = w.walk(0, lambda bid, t: ("suspend", bid) if bid in sus else (("return",) if t["k"] == "return" else None))
    run.count("paths_or_states", len(paths))
    bad = False
    for (path, conds, sv) in paths:
        if sv[0] != "suspend":
            continue
        has_co = any(cd[0] == "variant" and set(cd[2]) == {"Some"} and any(norm(b.blocks[x]["term"].get("callee") or "") == CO + "::current" for x in path) for cd in conds)
        states = [set(cd[2]) for cd in conds if cd[0] == "variant" and set(cd[2]) <= {"Ready", "Running", "Suspend", "Syscall", "Cancelled", "Complete", "Error"}]
        cur_some = [cd for cd in conds if cd[0] == "variant" and "Some" in cd[2]]
        went_through_state = any(norm(b.blocks[x]["term"].get("callee") or "") == CO + "::state" for x in path)
        if went_through_state:
            if not states or not all(s == {"Running"} for s in states):
                bad = True
        else:
            # reached suspend() without looking at the state: only acceptable if no coroutine is current on that path
            cur_calls = [x for x in path if norm(b.blocks[x]["term"].get("callee") or "") == CO + "::current"]
            if not cur_calls:
                bad = True
            else:
                # the path must have taken the None arm of Coroutine::current()
                none_taken = any(cd[0] == "variant" and set(cd[2]) == {"None"} for cd in conds)
                if not none_taken:
                    bad = True
    if bad:
        run.fail(rid, "sigurg_handler/running-only", b.loc(), "the SIGURG handler can suspend a coroutine that is not in Running state (a coroutine preempted inside a system call lands in the syscall table and nobody wakes it)")
    else:
        run.ok(rid, "sigurg_handler/running-only", "suspend() only when state() == Running (or no coroutine is current)")
    # unmask before parking
    cfg = Cfg(b)
    du = DefUse(b)
    rm = [(x, t) for (x, t) in find_calls(b, callee_is("nix::sys::signal::SigSet::remove")) if "SIGURG" in repr(describe_val(b, du, t["args"][1]))]
    sm = [x for (x, t) in find_calls(b, callee_is("nix::sys::signal::SigSet::thread_set_mask", "nix::sys::signal::SigSet::thread_unblock"))]
    if rm and sm and all(any(cfg.dominates(r[0], s_) and cfg.dominates(s_, y) for r in rm for s_ in sm) for y in sus):
        run.ok(rid, "sigurg_handler/unmask-before-suspend", "SIGURG removed from the thread mask before suspend()")
    else:
        run.fail(rid, "sigurg_handler/unmask-before-suspend", b.loc(), "the handler parks the preempted coroutine inside the signal handler without first unblocking SIGURG: the next coroutine on this thread can never be preempted")


def listener_rule(run, f, rid):
    """Path by path over the listener as one unit, per CoroutineState variant: the paths whose tests of `new_state` are
    consistent with the variant are the ones that variant can take (a `match`, an `if let .. else if !matches!(..)`
    chain and a negated early return all give the same sets).  On them: Running arms exactly one 10 ms node and stores
    it; Suspend/Syscall/Cancelled/Complete/Error disarm the stored node; Ready does neither.  "Disarm" is Monitor::remove,
    or -- when the author inlined it -- HashSet::remove on the monitor's notify_queue."""
    run.rule(rid, "MonitorListener: Running arms a 10ms deadline node, every other non-Ready state disarms the node stored for this coroutine", floor=7, template="T6 (exhaustive over CoroutineState)")
    b = need(run, rid, f, "<monitor::MonitorListener as coroutine::listener::Listener>::on_state_changed")
    if b is None:
        return
    b = inl(f, b, keep=(M + "::submit", M + "::remove", M + "::current"))
    cfg = Cfg(b)
    du = DefUse(b)
    VARS = ("Ready", "Running", "Suspend", "Syscall", "Cancelled", "Complete", "Error")
    ns_local = [l for l in range(1, b.argc + 1) if b.name_of(l) == "new_state"]
    sub = {x for (x, _t) in find_calls(b, callee_is(M + "::submit"))}
    rem = {x for (x, _t) in find_calls(b, callee_is(M + "::remove"))}
    for (x, t) in find_calls(b, callee_is("std::collections::HashSet::remove")):
        if "notify_queue" in repr(describe_val(b, du, t["args"][0])) or "notify_queue" in (field_chain(b, du, t["args"][0]) or []):
            rem.add(x)
    put = find_calls(b, callee_is("coroutine::local::CoroutineLocal::put"))
    get = find_calls(b, callee_is("coroutine::local::CoroutineLocal::get"))
    mc = find_calls(b, callee_is(M + "::current"))
    if not ns_local or not sub or not rem:
        run.fail(rid, "on_state_changed/match", b.loc(), "the listener no longer arms (Monitor::submit) and disarms (Monitor::remove) on its new_state parameter")
        return
    from analysis.table import outcome_on_path, result_outcomes
    w = PathWalker(b)
    paths = [(p_, c_) for (p_, c_, sv) in w.walk(0, lambda bid, t: ("return",) if t["k"] == "return" else None) if sv[0] == "return"]

    def allowed(conds):
        """variants of new_state this path's tests leave possible"""
        vs = set(VARS)
        for cd in conds:
            if cd[0] == "variant" and cd[1].split("@", 1)[0].split(".", 1)[0] in ("new_state",) and set(cd[2]) <= set(VARS):
                vs &= set(cd[2])
        return vs

    n_ex = n_inf = n_und = 0
    per = {v: [] for v in VARS}
    for (pth, conds) in paths:
        # the monitor-thread exemption: on the monitor thread nothing is armed or disarmed; those paths are judged apart
        on_mon = outcome_on_path(b, du, pth, [x for x in pth if x in {y for (y, _t) in mc}][0]) if any(x in {y for (y, _t) in mc} for x in pth) else None
        oc, feas = result_outcomes(b, du, pth)
        if not feas:
            n_inf += 1
            continue
        if mc and on_mon is None:
            # Monitor::current().is_some() is read through Option::is_some: ask the bool test
            isn = [x for x in pth if norm(b.blocks[x]["term"].get("callee") or "") in ("std::option::Option::is_some", "std::option::Option::is_none")]
            if isn:
                v_ = outcome_on_path(b, du, pth, isn[0])
                if v_ is not None:
                    on_mon = v_ if norm(b.blocks[isn[0]]["term"]["callee"]).endswith("is_some") else (not v_)
        if mc and on_mon is None:
            n_und += 1
            continue
        n_ex += 1
        for v in allowed(conds):
            per[v].append((pth, bool(on_mon)))
    if not run.paths(rid, "on_state_changed", b.loc(), n_ex, n_inf, n_und):
        return
    if n_und:
        run.fail(rid, "on_state_changed/monitor-thread-exempt", b.loc(), "on %d path(s) the monitor-thread test could not be read off the path: those paths were not judged" % n_und)
    for v in VARS:
        run.count("table_rows")
        ps = per[v]
        why = None
        if not ps:
            why = "no path of the listener is consistent with new state %s" % v
        for (pth, on_mon) in ps:
            ns, nr = len([x for x in pth if x in sub]), len([x for x in pth if x in rem])
            if on_mon:
                if ns or nr:
                    why = why or "on the monitor thread a node is armed/disarmed"
                continue
            if v == "Running":
                if ns != 1 or nr:
                    why = why or "Running: %d submit / %d remove on a path (expected one submit, no remove)" % (ns, nr)
                else:
                    sx = [x for x in pth if x in sub][0]
                    ts = describe_val(b, du, arg_by_name(f, b.blocks[sx]["term"], "timestamp", 0))
                    if not (ts[0] == "call" and ts[1] == "common::get_timeout_time" and "from_millis" in repr(ts) and "'10'" in repr(ts)):
                        why = why or "Running: the deadline is not get_timeout_time(10 ms) (%r)" % (ts,)
                    pk = [x for x in pth if x in {y for (y, _t) in put}]
                    # unless the path shows submit FAILED, its node must be stored (an outcome nobody looks at may have
                    # been a success: `_ = Monitor::submit(..)` arms a node that can never be disarmed)
                    if result_outcomes(b, du, pth)[0].get(sx) != "err" and not (len(pk) == 1 and any(y == sx for (y, _t) in backward(b, b.blocks[pk[0]]["term"]["args"][2], du, at=(pk[0], "term")).calls)):
                        why = why or "Running: the node returned by submit is not stored in the coroutine's local storage"
            elif v == "Ready":
                if ns or nr:
                    why = why or "Ready: %d submit / %d remove (expected neither)" % (ns, nr)
            else:
                gk = [x for x in pth if x in {y for (y, _t) in get}]
                if ns:
                    why = why or "%s: a node is armed" % v
                elif not gk:
                    why = why or "%s: the stored node is not looked up" % v
                elif some_on_path(b, du, pth, gk[0]) and nr != 1:
                    why = why or "%s: a stored node is not disarmed exactly once (%d remove)" % (v, nr)
                elif nr == 1:
                    rx = [x for x in pth if x in rem][0]
                    ra = b.blocks[rx]["term"]["args"]
                    node_arg = arg_by_name(f, b.blocks[rx]["term"], "node", 0) if norm(b.blocks[rx]["term"].get("callee") or "") == M + "::remove" else ra[1]
                    if not any(y in gk for (y, _t) in backward(b, node_arg, du, at=(rx, "term")).calls):
                        why = why or "%s: the node disarmed is not the one stored for this coroutine" % v
        if why:
            run.fail(rid, "on_state_changed/" + v, b.loc(), "new state %s: %s; Running must arm one 10ms node and store it, Suspend/Syscall/Cancelled/Complete/Error must disarm the stored node, Ready does nothing" % (v, why))
        else:
            run.ok(rid, "on_state_changed/" + v, {"paths": len(ps)})
    # same key for put and get
    keys = set()
    for (x, tt) in put + get:
        keys.add(repr(describe_val(b, du, tt["args"][1])))
    if len(keys) == 1:
        run.ok(rid, "on_state_changed/node-key", "put and get use the same key")
    else:
        run.fail(rid, "on_state_changed/node-key", b.loc(), "the node is stored and looked up under different keys")
    if mc and not n_und:
        run.ok(rid, "on_state_changed/monitor-thread-exempt", "arms/disarms only when Monitor::current() is not set (judged per path)")
    elif not mc:
        run.fail(rid, "on_state_changed/monitor-thread-exempt", b.loc(), "arming/disarming is not guarded by the monitor-thread test")


def oc_ok(b, du, pth, call_bid):
    from analysis.table import result_outcomes
    return result_outcomes(b, du, pth)[0].get(call_bid) == "ok"


def some_on_path(b, du, pth, call_bid):
    """the Option returned by the call at call_bid was Some on this path"""
    from analysis.table import result_outcomes
    return result_outcomes(b, du, pth)[0].get(call_bid) == "ok"


def overdue_rule(run, f, rid):
    run.rule(rid, "the monitor signals a thread only for a node whose deadline has passed, and signals that node's own thread with SIGURG", floor=1, template="T2/T5")
    b = need(run, rid, f, M + "::monitor_thread_main")
    if b is None:
        return
    b = inl(f, b)          # a per-node signalling helper is part of the monitor loop
    cfg = Cfg(b)
    du = DefUse(b)
    pk = find_calls(b, callee_is("nix::sys::pthread::pthread_kill"))
    ok, why = False, "no pthread_kill"
    if len(pk) == 1:
        x, t = pk[0]
        for blk in b.blocks:
            st = switch_test(b, du, blk["id"])
            if not st or st[0][0] != "cmp" or st[0][1] not in ("Lt", "Le"):
                continue
            (_c, op, a, c), holds, fails = st
            is_now = lambda v: v[0] == "call" and v[1] == "common::now"
            is_ts = lambda v: "timestamp" in repr(v) and "common::now" not in repr(v)
            due_bb = None
            if is_ts(a) and is_now(c):        # timestamp < / <= now: the deadline has passed on the edge where it holds
                due_bb = holds
            elif is_now(a) and is_ts(c):      # now < / <= timestamp: not yet due on the edge where it holds
                due_bb = fails
            if due_bb is not None and cfg.dominates(due_bb, x) and holds != fails:
                ok = True
                why = "pthread_kill dominated by the overdue edge"
        sig = repr(describe_val(b, du, t["args"][1]))
        # the thread signalled is the `pthread` FIELD of a node yielded by the monitor's iteration -- read through
        # value-preserving steps only, not any expression that mentions pthreads (pthread_self() is the monitor itself)
        tsl = backward(b, t["args"][0], du, at=(x, "term"), through_calls="none")
        nexts = {y for (y, tt) in tsl.calls if norm(tt.get("orig") or "").endswith("Iterator::next")}
        others = [norm(tt.get("callee") or "") for (y, tt) in tsl.calls if y not in nexts and not norm(tt.get("callee") or "").endswith(("::deref", "Deref>::deref", "::clone", "Clone>::clone", "Option::unwrap", "Option::expect"))]
        own_field = "pthread" in tsl.fields and bool(nexts) and not others and not tsl.binops()
        if ok and not own_field:
            ok, why = False, "the thread signalled is not the pthread field of the overdue node (fields %s, calls %s)" % (sorted(tsl.fields), others[:3])
        elif ok and "SIGURG" not in sig:
            ok, why = False, "signal %s" % sig[:60]
        if ok:
            # ... and it is the node whose deadline was tested: the timestamp compared with now() comes from the same next()
            same = False
            for blk in b.blocks:
                for i_, s_ in enumerate(blk["stmts"]):
                    if s_["k"] == "assign" and s_["rhs"]["k"] == "binop" and s_["rhs"]["op"] in ("Lt", "Le", "Gt", "Ge") and cfg.dominates(blk["id"], x):
                        for o_ in (s_["rhs"]["a"], s_["rhs"]["b"]):
                            ssl = backward(b, o_, du, at=(blk["id"], i_), through_calls="none")
                            if "timestamp" in ssl.fields and nexts & {y for (y, tt) in ssl.calls}:
                                same = True
            if not same:
                ok, why = False, "the node signalled is not the node whose deadline was compared with now()"
    if ok:
        run.ok(rid, "monitor_thread_main/overdue-only", "pthread_kill(node.pthread, SIGURG) only when !(now() < node.timestamp)")
    else:
        run.fail(rid, "monitor_thread_main/overdue-only", b.loc(), "the monitor must signal exactly the node's own thread with SIGURG and only once its deadline passed (%s)" % why)


def shared_set_rule(run, f, rid):
    run.rule(rid, "the monitor's node set is accessed only inside a critical section (or is a concurrent container) and each function only performs its own kind of access", floor=3, template="T9/T10")
    want_ops = {M + "::submit": {"insert"}, M + "::remove": {"remove"}, M + "::monitor_thread_main": {"is_empty", "iter", "into_iter"}}
    for fn in (M + "::submit", M + "::remove", M + "::monitor_thread_main"):
        b = need(run, rid, f, fn)
        if b is None:
            continue
        du = DefUse(b)
        cfg = Cfg(b)
        gets = [(x, t) for (x, t) in find_calls(b, callee_is("std::cell::UnsafeCell::get")) if (field_chain(b, du, t["args"][0]) or [""])[-1] == "notify_queue"]
        locks = [x for (x, t) in b.calls() if norm(t.get("callee") or "").endswith(("Mutex::lock", "RwLock::write", "RwLock::read", "::try_lock")) or "spin" in norm(t.get("callee") or "")]
        ops = {norm(t.get("callee") or "").rsplit("::", 1)[1] for (_x, t) in b.calls() if norm(t.get("callee") or "").startswith("std::collections::HashSet::") or "HashSet as std::iter::IntoIterator" in norm(t.get("callee") or "")}
        ops = {"into_iter" if o == "into_iter" else o for o in ops}
        extra = ops - want_ops[fn]
        if extra:
            run.fail(rid, fn + "/ops", b.loc(), "%s performs %s on the shared node set (expected only %s): nodes of other coroutines/threads may be dropped and those coroutines are never preempted" % (fn.rsplit("::", 1)[1], sorted(extra), sorted(want_ops[fn])), counts_as_instance=False)
        if gets and not any(cfg.dominates(l, gets[0][0]) for l in locks):
            run.fail(rid, fn + "/unsynchronised-notify_queue", b.loc(gets[0][1]["line"]),
                     "%s dereferences the UnsafeCell<HashSet<NotifyNode>> of the process-wide Monitor without any lock: every scheduling thread inserts/removes while the monitor thread iterates (data race on a HashSet)" % fn.rsplit("::", 1)[1])
        elif gets:
            run.ok(rid, fn + "/locked", "access under a lock")
        else:
            run.ok(rid, fn + "/no-raw-access", "no raw access to notify_queue")


def registration_rule(run, f, rid):
    run.rule(rid, "the monitor listener is attached exactly to coroutines with Param == () and Yield == ()", floor=1, template="T2")
    b = need(run, rid, f, CO + "::new")
    if b is None:
        return
    cfg = Cfg(b)
    du = DefUse(b)
    al = [(x, t) for (x, t) in find_calls(b, callee_is(CO + "::add_listener"))]
    tid = [(x, t) for (x, t) in b.calls() if norm(t.get("callee") or "") == "std::any::TypeId::of"]
    eqs = [(x, t) for (x, t) in b.calls() if norm(t.get("callee") or "").endswith("TypeId as std::cmp::PartialEq>::eq")]
    ok = len(al) == 1 and len(eqs) == 2 and len(tid) >= 3
    if ok:
        for (x, t) in eqs:
            br = bool_branch(b, cfg, du, t["dest"]["l"], cfg.after(x))
            ok = ok and br is not None and cfg.dominates(br[0], al[0][0])
        subs = sorted(tt["substs"][0] for (_x, tt) in tid if tt.get("substs"))
        ok = ok and "()" in subs and "Param" in subs and "Yield" in subs
    if ok:
        run.ok(rid, "Coroutine::new/monitor-listener", "add_listener(MonitorListener) iff TypeId(Param)==TypeId(()) && TypeId(Yield)==TypeId(())")
    else:
        run.fail(rid, "Coroutine::new/monitor-listener", b.loc(), "the preemption listener must be attached exactly when Param and Yield are both ()")
