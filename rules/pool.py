"""Rule instances on CoroutinePool / Scheduler / EventLoops (shared by C01, C02, C10, C11, C12, C13)."""
from analysis.facts import norm
from analysis.cfg import Cfg
from analysis.flow import (DefUse, backward, find_calls, callee_is, callee_ends, op_local, op_const, switch_info,
                           bool_branch, variant_arms, static_of, field_chain)
from analysis.linear import Linear
from analysis.atomics import is_atomic_method, receiver_key, role_field
from analysis.table import describe_val, PathWalker
from rules.common import need, inl, family, uncovered_roots, unit, closure_with

POOL = "co_pool::CoroutinePool"
SCHED = "scheduler::Scheduler"
LOOPS = "net::EventLoops"
LOOP = "net::event_loop::EventLoop"
OLQ = "common::ordered_work_steal::OrderedLocalQueue"
OWS = "common::ordered_work_steal::OrderedWorkStealQueue"
CANCEL_TASKS = "co_pool::CANCEL_TASKS"
RUNNING_TASKS = "co_pool::RUNNING_TASKS"


def calls_on_static(b, du, callee, static):
    return [(x, t) for (x, t) in find_calls(b, callee_is(callee)) if static_of(b, du, t["args"][0]) == static]


def calls_on_field(b, du, callee, field):
    out = []
    for (x, t) in find_calls(b, callee_is(callee)):
        fc = field_chain(b, du, t["args"][0])
        if fc and fc[-1] == field:
            out.append((x, t))
    return out


def derives_from_call(b, du, op, at, pred):
    sl = backward(b, op, du, at=at)
    return [(x, t) for (x, t) in sl.calls if pred(norm(t.get("callee") or ""), t)]


# ---------------------------------------------------------------- C01 / C13: try_run
def run_once_rule(run, f, rid, settle_rid=None, skip_rid=None):
    run.rule(rid, "try_run: a popped task is run exactly once, or skipped only when CANCEL_TASKS contains its own id", floor=2, template="T2 + path count")
    outer = need(run, rid, f, POOL + "::try_run")
    if outer is None:
        return
    # try_run as one unit: the body may be a closure handed to Option::map, straight-line code after `pop()?`, or a helper
    b = inl(f, outer)
    cfg = Cfg(b)
    du = DefUse(b)
    pops = [(x, t) for (x, t) in find_calls(b, callee_is(OLQ + "::pop")) if (field_chain(b, du, t["args"][0]) or [""])[-1] == "task_queue"]
    runs = find_calls(b, callee_is("co_pool::task::Task::run"))
    ids = find_calls(b, callee_is("co_pool::task::Task::id"))
    from_pop = lambda op, at: bool(pops) and any(x == pops[0][0] for (x, _t) in backward(b, op, du, at=at).calls)
    # edges on which the pop is known to have produced nothing (None arm of a match on it, Break arm of `pop()?`)
    no_task = set()
    for blk in b.blocks:
        if blk["term"]["k"] != "switch" or not pops:
            continue
        si = switch_info(b, du, blk["id"])
        if si["kind"] != "discr" or si["place"]["proj"]:
            continue
        if not from_pop({"k": "copy", "p": si["place"]}, (blk["id"], "term")):
            continue
        adt = norm(si["adt"] or "")
        if adt.endswith("option::Option") and "None" in si["arms"]:
            no_task.add(si["arms"]["None"])
        elif adt.endswith("ControlFlow") and "Break" in si["arms"]:
            no_task.add(si["arms"]["Break"])
    wire = []
    if len(pops) != 1 or cfg.in_cycle(pops[0][0]):
        wire.append("expected exactly one task_queue.pop() outside any loop (found %d)" % len(pops))
    elif len(ids) < 1 or len(runs) != 1:
        wire.append("the popped task's id / run sites were not found")
    else:
        if not from_pop(runs[0][1]["args"][0], (runs[0][0], "term")):
            wire.append("Task::run is not invoked on the task that was popped")
        first_id = [x for (x, _t) in ids if all(cfg.dominates(x, y) or x == y for (y, _t2) in ids)]
        if not first_id or not no_task or not cfg.must_pass(cfg.after(pops[0][0]), set(first_id) | no_task)[0]:
            wire.append("a popped task can be dropped without entering the run-or-skip body")
    if not wire:
        run.ok(rid, "try_run/pop-map", "the task popped from task_queue (and only it) enters the body; the empty-queue edge returns")
    else:
        run.fail(rid, "try_run/pop-map", outer.loc(), "try_run must hand the task popped from self.task_queue to its body exactly once: " + "; ".join(wire))
    cont = calls_on_static(b, du, "dashmap::DashSet::contains", CANCEL_TASKS)
    why = []
    tb = None
    if len(runs) != 1 or cfg.in_cycle(runs[0][0]):
        why.append("Task::run must be called at exactly one site outside any loop (found %d)" % len(runs))
    if len(cont) != 1:
        why.append("expected one CANCEL_TASKS.contains test (found %d)" % len(cont))
    if not why:
        cb, ct = cont[0]
        # key of the test is the popped task's own id
        if not derives_from_call(b, du, ct["args"][1], (cb, "term"), lambda c, t: c == "co_pool::task::Task::id"):
            why.append("the cancel test is not keyed by the popped task's own id")
        br = bool_branch(b, cfg, du, ct["dest"]["l"], cfg.after(cb))
        if br is None:
            why.append("result of CANCEL_TASKS.contains is not branched on")
        else:
            tb, fb, _sw = br
            okp, _ = cfg.must_pass([0], {runs[0][0], tb} | no_task)
            if not okp:
                why.append("a path returns without running the task although it was not cancelled")
            if runs[0][0] in cfg.reachable({tb}):
                why.append("a task found in CANCEL_TASKS can still be run")
            if not from_pop(runs[0][1]["args"][0], (runs[0][0], "term")):
                why.append("Task::run is not invoked on the popped task")
    if why:
        run.fail(rid, "try_run/run-or-cancelled", b.loc(), "; ".join(why))
    else:
        run.ok(rid, "try_run/run-or-cancelled", "every path: Task::run once, or CANCEL_TASKS.contains(task.id()) true edge")
    if tb is None:
        return
    # C13-SKIP: the skip path removes exactly that id from CANCEL_TASKS
    if skip_rid:
        run.rule(skip_rid, "the skip path consumes exactly the cancelled task's own request; CANCEL_TASKS is consumed nowhere else", floor=2, template="T5/T9")
        rem = [(x, t) for (x, t) in calls_on_static(b, du, "dashmap::DashSet::remove", CANCEL_TASKS)]
        good = [x for (x, t) in rem if cfg.dominates(tb, x) and derives_from_call(b, du, t["args"][1], (x, "term"), lambda c, tt: c == "co_pool::task::Task::id")]
        okp, _ = cfg.must_pass([tb], good) if good else (False, None)
        if len(rem) == 1 and good and okp:
            run.ok(skip_rid, "try_run/consume-own-request", "CANCEL_TASKS.remove(&task_id) on the skip path")
        else:
            run.fail(skip_rid, "try_run/consume-own-request", b.loc(), "the skip path must remove exactly the popped task's id from CANCEL_TASKS (remove sites %d, on skip path keyed by own id %d, on every skip path %s)" % (len(rem), len(good), okp))
        # who else removes from CANCEL_TASKS
        others = []
        fam = {c.path for c in family(f, outer)}
        for ob in f.bodies:
            if ob.kind == "Promoted" or ob.path in fam:
                continue
            d2 = None
            for (x, t) in ob.calls():
                if norm(t.get("callee") or "") in ("dashmap::DashSet::remove", "dashmap::DashSet::clear", "dashmap::DashSet::retain"):
                    d2 = d2 or DefUse(ob)
                    if static_of(ob, d2, t["args"][0]) == CANCEL_TASKS:
                        others.append((ob, t))
        for (ob, t) in others:
            run.fail(skip_rid, "%s/removes-pending-cancel" % ob.npath, ob.loc(t["line"]), "%s withdraws a pending cancel request (CANCEL_TASKS.%s) although the task has not been skipped: the task then runs anyway" % (ob.npath, norm(t["callee"]).rsplit("::", 1)[1]))
        if not others:
            run.ok(skip_rid, "CANCEL_TASKS/consumers", "only try_run consumes cancel requests")
    # RUNNING_TASKS pairing: the task->coroutine record is removed on every path after the task ran
    if skip_rid and runs:
        ins = calls_on_static(b, du, "dashmap::DashMap::insert", RUNNING_TASKS)
        rem = calls_on_static(b, du, "dashmap::DashMap::remove", RUNNING_TASKS)
        okp = bool(rem) and cfg.must_pass(cfg.after(runs[0][0]), [x for (x, _t) in rem])[0]
        keyed = all(derives_from_call(b, du, t["args"][1], (x, "term"), lambda c, tt: c == "co_pool::task::Task::id") for (x, t) in ins + rem)
        if ins and okp and keyed and all(x not in cfg.reachable(cfg.after(runs[0][0])) for (x, _t) in ins):
            run.ok(skip_rid, "try_run/running-record-paired", "RUNNING_TASKS.insert(id, co) before run, remove(id) on every path after run")
        else:
            run.fail(skip_rid, "try_run/running-record-paired", b.loc(), "the RUNNING_TASKS record of a task is not removed on every path after the task ran: a later cancel of the finished task is aimed at the worker coroutine, which by then runs another task")
    # C13-SETTLE: on the skip path the waiter is settled unless no_waits
    if settle_rid:
        run.rule(settle_rid, "a task skipped because it was cancelled settles its waiter (result inserted, notify) unless the handle was dropped", floor=1, template="T1")
        ins = [x for (x, t) in calls_on_field(b, du, "dashmap::DashMap::insert", "results") if cfg.dominates(tb, x)]
        nots = [x for (x, t) in find_calls(b, callee_is(POOL + "::notify")) if cfg.dominates(tb, x)]
        nw = [(x, t) for (x, t) in calls_on_field(b, du, "dashmap::DashSet::contains", "no_waits") if cfg.dominates(tb, x)]
        exempt = []
        for (x, t) in nw:
            br = bool_branch(b, cfg, du, t["dest"]["l"], cfg.after(x))
            if br:
                exempt.append(br[0])
        ok = False
        if ins and nots:
            r = cfg.reachable({tb}, avoid=set(nots) | set(exempt))
            ok = not (set(cfg.returns) & r) and all(any(cfg.dominates(i, n) for i in ins) for n in nots)
        if ok:
            run.ok(settle_rid, "try_run/cancel-skip", "skip path: results.insert(Err) then notify, unless no_waits")
        else:
            run.fail(settle_rid, "try_run/cancel-skip", b.loc(), "the cancel-skip path of try_run returns without inserting a result and notifying the waiter: join() on a task cancelled before it starts blocks until its deadline")


def publish_rule(run, f, rid):
    run.rule(rid, "result is published before the waiter is woken; results are keyed by the task's own id and hold its own outcome", floor=4, template="T3/T5")
    b = unit(run, rid, f, POOL + "::try_run")
    if b is not None:
        cfg = Cfg(b)
        du = DefUse(b)
        runs = find_calls(b, callee_is("co_pool::task::Task::run"))
        ins = calls_on_field(b, du, "dashmap::DashMap::insert", "results")
        nots = find_calls(b, callee_is(POOL + "::notify"))
        after_run = [(x, t) for (x, t) in ins if runs and cfg.dominates(runs[0][0], x)]
        why = []
        if len(after_run) != 1:
            why.append("expected one results.insert after Task::run (found %d)" % len(after_run))
        else:
            ib, it = after_run[0]
            if not derives_from_call(b, du, it["args"][1], (ib, "term"), lambda c, t: c == "co_pool::task::Task::id"):
                why.append("results.insert is not keyed by the task's own id")
            vs = backward(b, it["args"][2], du, at=(ib, "term"), through_calls="none")
            if not any(x == runs[0][0] for (x, _t) in vs.calls):
                why.append("the stored value is not the outcome of this Task::run")
            nn = [x for (x, t) in nots if cfg.dominates(runs[0][0], x)]
            if not nn or not all(cfg.dominates(ib, n) for n in nn):
                why.append("notify is not preceded by results.insert (a woken waiter could find no result)")
            else:
                for n in nn:
                    nt = b.blocks[n]["term"]
                    if not derives_from_call(b, du, nt["args"][1], (n, "term"), lambda c, t: c == "co_pool::task::Task::id"):
                        why.append("notify is not keyed by the task's own id")
            # every path after run that is not exempted by no_waits publishes
            nw = [(x, t) for (x, t) in calls_on_field(b, du, "dashmap::DashSet::contains", "no_waits") if cfg.dominates(runs[0][0], x)]
            exempt = [bool_branch(b, cfg, du, t["dest"]["l"], cfg.after(x))[0] for (x, t) in nw if bool_branch(b, cfg, du, t["dest"]["l"], cfg.after(x))]
            r = cfg.reachable(cfg.after(runs[0][0]), avoid={ib} | set(exempt))
            if set(cfg.returns) & r:
                why.append("a path after Task::run returns without publishing the result")
        if why:
            run.fail(rid, "try_run/publish", b.loc(), "; ".join(why))
        else:
            run.ok(rid, "try_run/publish", "results.insert(task.id(), run().1) dominates notify(task.id())")
    b = need(run, rid, f, POOL + "::notify")
    if b is not None:
        cfg = Cfg(b)
        du = DefUse(b)
        rm = calls_on_field(b, du, "dashmap::DashMap::remove", "waits")
        lk = find_calls(b, callee_is("std::sync::Mutex::lock"))
        dm = find_calls(b, callee_ends("DerefMut>::deref_mut"))
        no = find_calls(b, callee_is("std::sync::Condvar::notify_one", "std::sync::Condvar::notify_all"))
        ok = len(rm) == 1 and lk and dm and no and cfg.dominates(rm[0][0], no[0][0]) and cfg.dominates(lk[0][0], dm[0][0]) and cfg.dominates(dm[0][0], no[0][0])
        keyok = rm and any(b.name_of(p) == "task_id" for p in backward(b, rm[0][1]["args"][1], du, at=(rm[0][0], "term"), through_calls="none").params)
        # the flag written is the constant false
        wrote_false = False
        for blk in b.blocks:
            for s in blk["stmts"]:
                if s["k"] == "assign" and s["lhs"]["proj"] and s["lhs"]["proj"][0] == "deref" and s["rhs"]["k"] == "use" and op_const(s["rhs"]["a"]) == 0 and s["rhs"]["a"].get("ty") == "bool":
                    wrote_false = True
        if ok and keyok and wrote_false:
            run.ok(rid, "notify/order", "waits.remove(task_id) -> lock -> pending=false -> notify_one")
        else:
            run.fail(rid, "notify/order", b.loc(), "notify must remove the waiter of its own task_id, clear the pending flag under the mutex and then signal (remove=%d lock=%d write-false=%s signal=%d)" % (len(rm), len(lk), wrote_false, len(no)))
    b = need(run, rid, f, "net::join::JoinHandle::timeout_at_join")
    if b is not None:
        du = DefUse(b)
        w = find_calls(b, callee_is(POOL + "::wait_task_result"))
        ok = len(w) == 1 and derives_from_call(b, du, w[0][1]["args"][1], (w[0][0], "term"), lambda c, t: c == "net::join::JoinHandle::id")
        fc = field_chain(b, du, w[0][1]["args"][0]) if w else []
        # the receiver is the handle's own event-loop field (positional `.0` or named), told by its type
        jf = {x["name"]: x["ty"] for x in ((f.nadts.get("net::join::JoinHandle") or {}).get("variants") or [{}])[0].get("fields", [])}
        if ok and any("EventLoop" in jf.get(x, "") for x in fc):
            run.ok(rid, "JoinHandle/own-id", "self.0.wait_task_result(self.id()?, ..)")
        else:
            run.fail(rid, "JoinHandle/own-id", b.loc(), "JoinHandle must wait on its own loop (self.0) for its own id")
        # a finished task is joinable whatever the deadline: every return passes wait_task_result (or the invalid-id error)
        cfg = Cfg(b)
        fr = [x for (x, t) in find_calls(b, callee_ends("FromResidual>::from_residual"))]
        r = cfg.reachable({0}, avoid={x for (x, _t) in w} | set(fr))
        if w and not (set(cfg.returns) & r):
            run.ok(rid, "JoinHandle/always-consults-results", "every return passes wait_task_result")
        else:
            run.fail(rid, "JoinHandle/always-consults-results", b.loc(), "timeout_at_join can return without consulting the stored result (a task that finished before an already expired deadline is reported as timed out)")
    b = unit(run, rid, f, POOL + "::wait_task_result")
    if b is not None:
        du = DefUse(b)
        tk = find_calls(b, callee_is(POOL + "::try_take_task_result"))
        bad = [x for (x, t) in tk if not any(b.name_of(p) == "task_id" for p in backward(b, t["args"][1], du, at=(x, "term"), through_calls="none").params)]
        cfg = Cfg(b)
        first = [x for (x, t) in tk if all(cfg.dominates(x, r) for r in cfg.returns)]
        if not first:
            run.fail(rid, "wait_task_result/take-first", b.loc(), "wait_task_result can return (e.g. time out) without first taking an already stored result")
        else:
            run.ok(rid, "wait_task_result/take-first", "a stored result is taken before any deadline logic")
        if tk and not bad:
            run.ok(rid, "wait_task_result/key", "%d takes keyed by task_id" % len(tk))
        else:
            run.fail(rid, "wait_task_result/key", b.loc(), "wait_task_result takes a result under a key that is not its task_id parameter")


def recheck_rule(run, f, rid):
    run.rule(rid, "wait_task_result re-reads the result after registering its waiter and before blocking (no lost wake-up)", floor=1, template="T3/T1")
    b = unit(run, rid, f, POOL + "::wait_task_result")     # waiter-registration / take-and-notify helpers are part of it
    if b is None:
        return
    cfg = Cfg(b)
    du = DefUse(b)
    waits = find_calls(b, callee_is("std::sync::Condvar::wait_timeout_while", "std::sync::Condvar::wait_timeout", "std::sync::Condvar::wait", "std::sync::Condvar::wait_while"))
    reg = [x for (x, t) in b.calls() if norm(t.get("callee") or "") in ("dashmap::DashMap::insert", "dashmap::DashMap::get", "dashmap::DashMap::entry", "dashmap::DashMap::get_mut") and (field_chain(b, du, t["args"][0]) or [""])[-1] == "waits"]
    takes = [x for (x, t) in find_calls(b, callee_is(POOL + "::try_take_task_result"))]
    if not waits or not reg:
        run.fail(rid, "wait_task_result/recheck-after-register", b.loc(), "waiter registration (waits) or the blocking Condvar wait not found")
        return
    bad = []
    for r in reg:
        rr = cfg.reachable(cfg.after(r), avoid=set(takes))
        for (w, _t) in waits:
            if w in rr:
                bad.append((r, w))
    run.count("call_sites", len(reg) + len(waits))
    if bad:
        r, w = bad[0]
        run.fail(rid, "wait_task_result/recheck-after-register", b.loc(b.blocks[r]["term"]["line"]),
                 "the waiter blocks (line %s) after registering in `waits` (line %s) without re-reading `results`: a completion that lands between the first check and the registration is never signalled, join() blocks until its deadline" % (b.blocks[w]["term"]["line"], b.blocks[r]["term"]["line"]),
                 detail={"path": cfg.path(cfg.after(r)[0], {w}, avoid=set(takes))})
    else:
        run.ok(rid, "wait_task_result/recheck-after-register", {"registrations": len(reg), "rechecks": len(takes)})


def affinity_rule(run, f, rid):
    run.rule(rid, "the pool that stores a task's result is the pool its join handle waits on", floor=1, template="T9/T5")
    b = unit(run, rid, f, POOL + "::try_run")
    pop = need(run, rid, f, OLQ + "::pop")
    if b is None or pop is None:
        return
    du = DefUse(b)
    ins = calls_on_field(b, du, "dashmap::DashMap::insert", "results")
    per_pool = bool(ins)
    migrates = [norm(t["callee"]) for (_x, t) in pop.calls() if norm(t.get("callee") or "") in ("st3::fifo::Stealer::steal", OWS + "::pop")]
    # does the task carry its origin?
    task = f.nadts.get("co_pool::task::Task")
    carries = any(fd["name"] in ("origin", "pool", "event_loop", "submitter") for v in (task or {"variants": []})["variants"] for fd in v["fields"])
    if per_pool and migrates and not carries:
        run.fail(rid, "co_pool::CoroutinePool::results/per-pool-but-tasks-migrate", b.loc(),
                 "results/waits are fields of the executing pool while OrderedLocalQueue::pop takes tasks submitted through other pools (%s): with two or more event loops a task submitted to loop A may run on loop B, its result is stored in B and join() on A's handle never sees it" % ", ".join(sorted(set(migrates))))
    else:
        run.ok(rid, "co_pool::CoroutinePool::results/affinity", {"per_pool": per_pool, "migrates": migrates, "task_carries_origin": carries})


# ---------------------------------------------------------------- C01: submit / dispatch / keep scheduling
def submit_rule(run, f, rid):
    run.rule(rid, "an accepted submission is queued, the consumer is woken, and the handle names the loop and id it was queued under", floor=3, template="T1/T3/T5")
    # submit_task as one unit, submit_raw_task spliced in (whether it still exists as a function or was inlined)
    b = unit(run, rid, f, POOL + "::submit_task", force=(POOL + "::submit_raw_task",))
    if b is not None:
        cfg = Cfg(b)
        du = DefUse(b)
        pu = [(x, t) for (x, t) in find_calls(b, callee_is(OLQ + "::push")) if (field_chain(b, du, t["args"][0]) or [""])[-1] == "task_queue"]
        no = find_calls(b, callee_ends("CondvarBlocker::notify"))
        oks = []
        for blk in b.blocks:
            for i, s in enumerate(blk["stmts"]):
                if s["k"] == "assign" and s["lhs"]["l"] == 0 and s["rhs"]["k"] == "agg" and s["rhs"].get("variant") == "Ok":
                    oks.append((blk["id"], s, i))
        why = None
        if len(pu) != 1 or not oks or not all(cfg.dominates(pu[0][0], x) for (x, _s, _i) in oks):
            why = "submit_task can return Ok(id) without having queued that task (task_queue.push must dominate every Ok)"
        else:
            # the id returned is the id of the task that was queued
            ids = find_calls(b, callee_is("co_pool::task::Task::id"))
            tnew = find_calls(b, callee_is("co_pool::task::Task::new"))
            okid = len(ids) >= 1 and len(tnew) == 1
            if okid:
                s2 = backward(b, pu[0][1]["args"][1], du, at=(pu[0][0], "term"), through_calls="none")
                okid = any(x == tnew[0][0] for (x, _t) in s2.calls)
                for (x, s, i) in oks:
                    s3 = backward(b, s["rhs"]["ops"][0], du, at=(x, i), through_calls="none")
                    idc = [(y, t) for (y, t) in s3.calls if norm(t.get("callee") or "") == "co_pool::task::Task::id"]
                    okid = okid and bool(idc) and all(any(z == tnew[0][0] for (z, _t) in backward(b, t["args"][0], du, at=(y, "term"), through_calls="none").calls) for (y, t) in idc)
            if not okid:
                why = "the id returned by submit_task is not the id of the task that was queued"
            elif not no or not cfg.dominates(pu[0][0], no[0][0]) or not cfg.must_pass(cfg.after(pu[0][0]), [x for (x, _t) in no])[0]:
                why = "the consumer is not woken (blocker.notify) after the task was queued"
        if why:
            run.fail(rid, "submit_task/queued", b.loc(), why)
        else:
            run.ok(rid, "submit_task/queued", "Ok(id) only after task_queue.push(task) and blocker.notify(); id = task.id() of the queued task")
    if f.body(POOL + "::submit_raw_task") is not None:
        b = need(run, rid, f, POOL + "::submit_raw_task")
        cfg = Cfg(b)
        du = DefUse(b)
        pu = [x for (x, t) in find_calls(b, callee_is(OLQ + "::push")) if (field_chain(b, du, t["args"][0]) or [""])[-1] == "task_queue"]
        no = find_calls(b, callee_ends("CondvarBlocker::notify"))
        lw = Linear(b, [l for l in range(1, b.argc + 1) if b.name_of(l) == "task"], lambda c, t: False, lambda c, t: "consume" if c == OLQ + "::push" else None, ret_is_sink=False)
        lw.run()
        lin = not lw.events and all(c == 1 for (_b, _h, c) in lw.exits)
        if len(pu) == 1 and no and cfg.dominates(pu[0], no[0][0]) and cfg.must_pass(cfg.after(pu[0]), [x for (x, _t) in no])[0] and lin:
            run.ok(rid, "submit_raw_task/push-then-notify", "task_queue.push(task) then blocker.notify()")
        else:
            run.fail(rid, "submit_raw_task/push-then-notify", b.loc(), "submit_raw_task must push the task to task_queue exactly once and then wake the consumer on every path")
    b = need(run, rid, f, LOOPS + "::submit_task")
    if b is not None:
        du = DefUse(b)
        rr = find_calls(b, callee_is(LOOPS + "::round_robin"))
        st = find_calls(b, callee_is(POOL + "::submit_task"))
        why = []
        if len(rr) != 1 or len(st) != 1:
            why.append("expected one round_robin() and one submit_task call")
        else:
            if not any(x == rr[0][0] for (x, _t) in backward(b, st[0][1]["args"][0], du, at=(st[0][0], "term")).calls):
                why.append("the task is not submitted to the loop chosen by round_robin")
            for cb in f.closures_of(b):
                jn = [t for (_x, t) in cb.calls() if norm(t.get("callee") or "") in ("net::join::JoinHandle::new", "net::join::JoinHandle::err")]
                for t in jn:
                    d2 = DefUse(cb)
                    fc = field_chain(cb, d2, t["args"][0])
                    if not ("_1" in fc or "0" in fc):
                        why.append("JoinHandle is not built from the captured loop")
                    if norm(t["callee"]).endswith("::new"):
                        sl = backward(cb, t["args"][1], d2, through_calls="none")
                        if 2 not in sl.params:
                            why.append("JoinHandle::new is not given the id returned by submit_task")
            # the captured value is the round_robin result
            for blk in b.blocks:
                for i, s in enumerate(blk["stmts"]):
                    if s["k"] == "assign" and s["rhs"]["k"] == "agg" and "closure" in s["rhs"]:
                        for o in s["rhs"]["ops"]:
                            if not any(x == rr[0][0] for (x, _t) in backward(b, o, du, at=(blk["id"], i)).calls):
                                why.append("a JoinHandle closure captures something other than the chosen loop")
        if why:
            run.fail(rid, "EventLoops::submit_task/handle", b.loc(), "; ".join(sorted(set(why))))
        else:
            run.ok(rid, "EventLoops::submit_task/handle", "JoinHandle(loop chosen by round_robin, id returned by that loop)")
    b = need(run, rid, f, LOOPS + "::round_robin")
    if b is not None:
        du = DefUse(b)
        g = find_calls(b, callee_is("std::collections::VecDeque::get"))
        ok = False
        why = "no VecDeque::get"
        if len(g) == 1:
            sl = backward(b, g[0][1]["args"][1], du, at=(g[0][0], "term"))
            ops = set(sl.binops())
            fa = [t for (_x, t) in sl.calls if is_atomic_method(t, "fetch_add")]
            ln = [t for (_x, t) in sl.calls if norm(t.get("callee") or "") == "std::collections::VecDeque::len"]
            same = ln and field_chain(b, du, ln[0]["args"][0])[-1:] == field_chain(b, du, g[0][1]["args"][0])[-1:] == ["loops"]
            ok = "Rem" in ops and len(fa) == 1 and op_const(fa[0]["args"][1]) == 1 and same and not ({"Div", "Shr", "Mul", "MulWithOverflow", "BitAnd", "Sub", "SubWithOverflow"} & ops)
            why = "ops %s, fetch_add(1) %d, len of same deque %s" % (sorted(ops), len(fa), bool(same))
        if ok:
            run.ok(rid, "round_robin/index", "loops.get(index.fetch_add(1) % loops.len())")
        else:
            run.fail(rid, "round_robin/index", b.loc(), "round-robin index must be fetch_add(1) %% loops.len() of the same deque (%s)" % why)


def keep_scheduling_rule(run, f, rid):
    run.rule(rid, "the event-loop thread leaves its scheduling loop only when the pool is not Running, its queues are empty and no worker is alive", floor=2, template="T2")
    b = closure_with(f, LOOP + "::start", lambda c: any(norm(t.get("callee") or "") == LOOP + "::wait_event" for (_x, t) in c.calls()))
    if b is None:
        run.missing(rid, LOOP + "::start::{closure calling wait_event}")
    else:
        run.fn(b)
        b = inl(f, b)
        cfg = Cfg(b)
        du = DefUse(b)
        we = find_calls(b, callee_is(LOOP + "::wait_event"))
        loops = cfg.natural_loops()
        L = None
        for h, blocks in loops.items():
            if we and we[0][0] in blocks:
                L = (h, blocks)
        if not we or L is None:
            run.fail(rid, "start/loop", b.loc(), "the consumer loop around wait_event was not found")
        else:
            h, blocks = L
            exits = {s for x in blocks for s in cfg.succ[x] if s not in blocks}
            req = {
                "state()": [x for (x, t) in b.calls() if norm(t.get("callee") or "") == POOL + "::state"],
                "is_local_empty()": [x for (x, t) in b.calls() if norm(t.get("callee") or "") == POOL + "::is_local_empty"],
                "get_running_size()": [x for (x, t) in b.calls() if norm(t.get("callee") or "") == POOL + "::get_running_size"],
            }
            why = []
            for nm, blks in req.items():
                blks = [x for x in blks if x in blocks]
                if not blks:
                    why.append("loop condition does not consult %s" % nm)
                    continue
                r = cfg.reachable({h}, avoid=set(blks))
                if exits & r:
                    why.append("the loop can be left without consulting %s" % nm)
            if why:
                run.fail(rid, "start/loop", b.loc(b.blocks[h]["term"]["line"]), "; ".join(why) + ": queued tasks would be stranded when the loop exits")
            else:
                run.ok(rid, "start/loop", "exit requires state != Running, is_local_empty(), get_running_size() == 0")
    b = need(run, rid, f, POOL + "::is_local_empty")
    if b is not None:
        cs = {norm(t.get("callee") or "") for (_x, t) in b.calls()}
        if {OLQ + "::is_local_empty", OLQ + "::is_global_empty"} <= cs:
            run.ok(rid, "is_local_empty/both", "local and shared emptiness")
        else:
            run.fail(rid, "is_local_empty/both", b.loc(), "CoroutinePool::is_local_empty must consult both the local and the shared queue")


def owner_rule(run, f, rid):
    """st3::fifo::Worker::{push,pop} are owner-only; the documented any-thread entry points must not reach them."""
    run.rule(rid, "owner-only st3 Worker operations are not reachable from the any-thread submission entry points", floor=1, template="T9 (call graph)")
    entries = [LOOPS + "::submit_task", LOOPS + "::submit_co"]
    owner_only = ("st3::fifo::Worker::push", "st3::fifo::Worker::pop")
    sync_impl = [i for i in f.impls if i["unsafe"] and (i["trait"] or "").endswith("Sync") and norm(i["self_ty"]) == LOOPS]
    for e in entries:
        b = need(run, rid, f, e)
        if b is None:
            continue
        # BFS over local callees recording the path
        prev = {b.npath: None}
        work = [b]
        hit = None
        while work and hit is None:
            cur = work.pop(0)
            for (_x, t) in cur.calls():
                c = norm(t.get("callee") or "")
                if c in owner_only:
                    hit = (cur.npath, c)
                    break
                if t.get("local"):
                    for nb in f.by_npath.get(c, []):
                        if nb.kind != "Promoted" and nb.npath not in prev:
                            prev[nb.npath] = cur.npath
                            work.append(nb)
            for cl in f.closures_of(cur):
                if cl.npath not in prev:
                    prev[cl.npath] = cur.npath
                    work.append(cl)
        if hit and sync_impl:
            chain = [hit[1], hit[0]]
            while prev.get(chain[-1]):
                chain.append(prev[chain[-1]])
            run.fail(rid, "%s->%s" % (e, hit[1]), b.loc(),
                     "%s is callable from any thread (unsafe impl Sync for EventLoops) and reaches the owner-only %s without a lock: %s. Two user threads submitting to the same loop write the same slot and one task is lost" % (e, hit[1], " <- ".join(chain)))
        else:
            run.ok(rid, e, "no owner-only queue operation reachable")


# ---------------------------------------------------------------- C11
def running_rule(run, f, rid_inc, rid_dec, rid_rmw):
    run.rule(rid_inc, "running is incremented exactly once per created worker, after the max-size refusal", floor=1, template="T2")
    run.rule(rid_dec, "running is decremented exactly once on Complete/Error/Cancelled, never otherwise; Suspend/Syscall grow the pool", floor=7, template="T6 (exhaustive over CoroutineState)")
    run.rule(rid_rmw, "every change of running is an atomic read-modify-write", floor=2, template="T4")
    key = (POOL, role_field(f, POOL, POOL + "::get_running_size", "running"))     # the counter get_running_size() reports
    writers = {}
    for body in f.bodies:
        if body.kind == "Promoted":
            continue
        du = None
        for bid, t in body.calls():
            c = norm(t.get("callee") or "")
            if c.startswith("std::sync::atomic::Atomic::") and c.rsplit("::", 1)[1] not in ("load", "new"):
                du = du or DefUse(body)
                if receiver_key(body, du, t["args"][0]) == key:
                    writers.setdefault(body.npath, []).append((bid, t, c.rsplit("::", 1)[1]))
    allowed = {POOL + "::submit_co::{closure#1}", POOL + "::submit_co::{closure#0}", POOL + "::submit_co", "<co_pool::creator::CoroutineCreator as coroutine::listener::Listener>::on_state_changed"}
    # a writer outside the allowed set is fine when it is only ever entered from the allowed functions (a helper cut
    # out of them); what matters is from which entry points running can be changed
    extra = {w for w in set(writers) - allowed if uncovered_roots(f, w, allowed)}
    if extra:
        run.fail(rid_dec, "running/writers", "core/src/co_pool", "running is written outside submit_co and CoroutineCreator: %s" % sorted(extra))
    for fn, ws in writers.items():
        for (bid, t, m) in ws:
            if m == "store":
                b = f.body(fn)
                run.fail(rid_rmw, "%s/running" % fn, b.loc(t["line"]), "running is changed with a plain store (lost update against a concurrent fetch_add/fetch_update)")
            else:
                run.ok(rid_rmw, "%s/running/%s" % (fn, m), m)
    # increment: on the inlined unit (the `.map(|_| ..)` closure, a `?` + statement, or a helper are the same thing)
    b = unit(run, rid_inc, f, POOL + "::submit_co")
    if b is not None:
        from analysis.table import result_outcomes
        cfg = Cfg(b)
        du = DefUse(b)
        sc = find_calls(b, callee_is(SCHED + "::submit_co"))
        incs = []
        for bid, t in b.calls():
            c = norm(t.get("callee") or "")
            if c.startswith("std::sync::atomic::Atomic::") and c.rsplit("::", 1)[1] not in ("load", "new") and receiver_key(b, du, t["args"][0]) == key:
                incs.append((bid, t, c.rsplit("::", 1)[1]))
        why = []
        if len(sc) != 1:
            why.append("expected one Scheduler::submit_co call")
        elif not incs:
            why.append("running is not incremented exactly once under Ok of Scheduler::submit_co")
        else:
            grs = [x for (x, t) in find_calls(b, callee_is(POOL + "::get_running_size"))]
            gms = [x for (x, t) in find_calls(b, callee_is(POOL + "::get_max_size"))]
            if not grs or not gms or not all(cfg.dominates(x, sc[0][0]) for x in (grs[0], gms[0])):
                why.append("the coroutine is created without first comparing running with max")
            if not all(m == "fetch_add" and op_const(t["args"][1]) == 1 for (_x, t, m) in incs):
                why.append("running is not incremented by fetch_add(1)")
            w = PathWalker(b)
            inc_blocks = {x for (x, _t, _m) in incs}
            n_ex = n_inf = 0
            for (pth, _c, sv) in w.walk(0, lambda bid, t: ("return",) if t["k"] == "return" else None):
                if sv[0] != "return":
                    continue
                oc, feasible = result_outcomes(b, du, pth)
                if not feasible:
                    n_inf += 1
                    continue
                n_ex += 1
                n = len([x for x in pth if x in inc_blocks])
                created = sc[0][0] in pth and oc.get(sc[0][0]) == "ok"
                if sc[0][0] in pth and oc.get(sc[0][0]) is None:
                    # the result is returned / mapped without this function looking at it: both outcomes reach here
                    if n:
                        why.append("running is incremented on a path where no worker was created (creation failed or was refused)")
                elif created and n != 1:
                    why.append("a created worker is counted %d times" % n)
                elif not created and n:
                    why.append("running is incremented on a path where no worker was created (creation failed or was refused)")
        if len(sc) == 1 and incs:
            run.paths(rid_inc, "submit_co/increment", b.loc(), n_ex, n_inf)
        if why:
            run.fail(rid_inc, "submit_co/increment", b.loc(), "; ".join(sorted(set(why))))
        else:
            run.ok(rid_inc, "submit_co/increment", "running.fetch_add(1) only under Ok(created), after running >= max refusal")
    # decrement table
    b = need(run, rid_dec, f, "<co_pool::creator::CoroutineCreator as coroutine::listener::Listener>::on_state_changed")
    if b is not None:
        raw = b
        b = inl(f, b)      # helpers cut out of the listener are part of it
        cfg = Cfg(b)
        du = DefUse(b)
        ws = []
        for bid, t in b.calls():
            c = norm(t.get("callee") or "")
            if c.startswith("std::sync::atomic::Atomic::") and c.rsplit("::", 1)[1] not in ("load", "new") and receiver_key(b, du, t["args"][0]) == key:
                ws.append((bid, t, c.rsplit("::", 1)[1]))
        grow = [x for (x, t) in find_calls(b, callee_is(POOL + "::try_grow"))]
        # the match on new_state
        sw = None
        for blk in b.blocks:
            if blk["term"]["k"] == "switch":
                si = switch_info(b, du, blk["id"])
                if si["kind"] == "discr" and norm(si["adt"] or "").endswith("CoroutineState") and b.name_of(si["place"]["l"]) == "new_state":
                    sw = si
                    break
        if sw is None:
            run.fail(rid_dec, "on_state_changed/match", b.loc(), "no match on new_state found")
            return
        t = b.blocks[sw["bid"]]["term"]
        for v in ("Ready", "Running", "Suspend", "Syscall", "Cancelled", "Complete", "Error"):
            arm = sw["arms"].get(v, t["otherwise"])
            r = cfg.reachable({arm})
            # blocks exclusive to this arm: reachable from arm; decrement sites reachable
            decs = [(x, tt, m) for (x, tt, m) in ws if x in r]
            grows = [x for x in grow if x in r]
            run.count("table_rows")
            want_dec = v in ("Cancelled", "Complete", "Error")
            want_grow = v in ("Suspend", "Syscall")
            okd = True
            if want_dec:
                okd = len(decs) == 1 and decs[0][2] in ("fetch_sub", "fetch_update") and not cfg.in_cycle(decs[0][0])
                # on every path of the arm where a current pool exists; allow the `if let Some(pool)` miss
                if okd and decs[0][2] == "fetch_sub":
                    # the listener is attached to every coroutine of the pool's scheduler, only submit_co counts:
                    # an uncounted coroutine finishing at running == 0 must not wrap the counter
                    okd = False
                    run.fail(rid_dec, "on_state_changed/%s/non-saturating" % v, b.loc(decs[0][1]["line"]), "running is decremented with a plain fetch_sub: a coroutine that was never counted (submitted through the scheduler interface, or stolen before it was counted) finishing at running == 0 wraps the counter to usize::MAX", counts_as_instance=False)
                if okd and decs[0][2] == "fetch_update":
                    amt = None
                    for c in family(f, raw):
                        if c.kind != "Closure":
                            continue
                        for (_x, tt) in c.calls():
                            if norm(tt.get("callee") or "").endswith(("saturating_sub", "checked_sub")):
                                amt = op_const(tt["args"][1])
                    okd = amt == 1
                elif okd:
                    okd = op_const(decs[0][1]["args"][1]) == 1
            else:
                okd = not decs
            okg = bool(grows) if want_grow else True
            if okd and okg:
                run.ok(rid_dec, "on_state_changed/" + v, {"decrement": want_dec, "grow": bool(grows)})
            else:
                run.fail(rid_dec, "on_state_changed/" + v, b.loc(), "new state %s: decrement sites reachable %d (expected %d, by exactly 1), try_grow reachable %s (required %s)" % (v, len(decs), 1 if want_dec else 0, bool(grows), want_grow))


def stop_rule(run, f, rid):
    run.rule(rid, "do_stop leaves its wait loop only when no worker is alive or the deadline passed", floor=1, template="T2")
    b = need(run, rid, f, POOL + "::do_stop")
    if b is None:
        return
    cfg = Cfg(b)
    loops = cfg.natural_loops()
    sl = find_calls(b, callee_is("std::thread::sleep"))
    L = None
    for h, blocks in loops.items():
        if sl and sl[0][0] in blocks:
            L = (h, blocks)
    if L is None:
        run.fail(rid, "do_stop/loop", b.loc(), "wait loop not found")
        return
    h, blocks = L
    exits = {s for x in blocks for s in cfg.succ[x] if s not in blocks and not b.blocks[s]["cleanup"]}
    grs = [x for (x, t) in find_calls(b, callee_is(POOL + "::get_running_size")) if x in blocks]
    now = [x for (x, t) in find_calls(b, callee_is("common::now")) if x in blocks]
    # exits that are error propagation (`?`) are not "leaving because done"
    normal_exits = set()
    for e in exits:
        r = cfg.reachable({e})
        if any(norm(b.blocks[x]["term"].get("callee") or "").endswith("::stopped") for x in r if b.blocks[x]["term"]["k"] == "call"):
            normal_exits.add(e)
    r = cfg.reachable({h}, avoid=set(grs))
    if grs and now and not (normal_exits & {s for x in r & blocks for s in cfg.succ[x]}):
        run.ok(rid, "do_stop/loop", "exit to stopped() requires get_running_size()==0 or deadline test")
    else:
        run.fail(rid, "do_stop/loop", b.loc(), "do_stop can proceed to stopped() without having observed running == 0 (or the deadline)")


# ---------------------------------------------------------------- C12
def pool_state_rule(run, f, rid):
    run.rule(rid, "pool state only moves Running -> Stopping -> Stopped through the guarded change_state", floor=4, template="T6/T9")
    PS = "common::constants::PoolState"
    # sole writer
    writers = set()
    for b in f.bodies:
        if b.kind == "Promoted":
            continue
        du = None
        for (bid, t) in b.calls():
            c = norm(t.get("callee") or "")
            if c.startswith("std::cell::Cell::") and c.rsplit("::", 1)[1] in ("replace", "set", "swap", "take", "update", "as_ptr", "get_mut"):
                du = du or DefUse(b)
                k = receiver_key(b, du, t["args"][0])
                if k == (POOL, "state"):
                    writers.add(b.npath)
    if writers == {POOL + "::change_state"}:
        run.ok(rid, "state/sole-writer", sorted(writers))
    else:
        run.fail(rid, "state/sole-writer", "core/src/co_pool", "CoroutinePool.state is written by %s (only change_state may)" % sorted(writers))
    # callers and their constant arguments
    pairs = {}
    for b in f.bodies:
        if b.kind == "Promoted":
            continue
        du = None
        for (bid, t) in b.calls():
            if norm(t.get("callee") or "") == POOL + "::change_state":
                du = du or DefUse(b)
                a1, a2 = describe_val(b, du, t["args"][1]), describe_val(b, du, t["args"][2])
                pairs[b.npath] = (a1[2] if a1[0] == "agg" else str(a1), a2[2] if a2[0] == "agg" else str(a2))
    want = {POOL + "::stopping": ("Running", "Stopping"), POOL + "::stopped": ("Stopping", "Stopped")}
    if pairs == want:
        run.ok(rid, "change_state/callers", {k.rsplit("::", 1)[1]: list(v) for k, v in pairs.items()})
    else:
        run.fail(rid, "change_state/callers", "core/src/co_pool/state.rs", "change_state is called with %s; the documented edges are Running->Stopping (stopping) and Stopping->Stopped (stopped)" % pairs)
    # the guard inside change_state: replace only when current == old_state; other states -> Err
    b = need(run, rid, f, POOL + "::change_state")
    if b is not None:
        w = PathWalker(b)

        def stop(bid, t):
            if t["k"] == "call" and norm(t.get("callee") or "").endswith("cell::Cell::replace"):
                return ("replace", bid)
            if t["k"] == "return":
                return ("return",)
        paths = w.walk(0, stop)
        run.count("paths_or_states", len(paths))
        ok = True
        why = ""
        seen_replace = False
        for (path, conds, sv) in paths:
            eqs = [(c[1], c[2]) for c in conds if c[0] == "bool" and c[1][0] == "call" and c[1][1].endswith("PoolState as std::cmp::PartialEq>::eq")]
            def mentions(d, name):
                return name in repr(d)
            if sv[0] == "replace":
                seen_replace = True
                if not any(v and mentions(d, "old_state") for (d, v) in eqs):
                    ok, why = False, "state is replaced on a path where current == old_state was not established"
                rt = b.blocks[sv[1]]["term"]
                if describe_val(b, w.du, rt["args"][1]) != ("param", 3, "new_state"):
                    ok, why = False, "the value stored is not the new_state parameter"
            else:
                from rules.C07 import ret_variant
                rv = ret_variant(b, path)
                neither = all((not v) for (d, v) in eqs) and len(eqs) >= 2
                if neither and rv != "Err":
                    ok, why = False, "a current state equal to neither old_state nor new_state is not refused"
        if ok and seen_replace:
            run.ok(rid, "change_state/guard", "replace only under current == old_state; otherwise Ok(no-op when already new) or Err")
        else:
            run.fail(rid, "change_state/guard", b.loc(), why or "no guarded replace found")
    # submit rejects unless Running
    b = unit(run, rid, f, POOL + "::submit_task", force=(POOL + "::submit_raw_task",))
    if b is not None:
        cfg = Cfg(b)
        du = DefUse(b)
        st = find_calls(b, callee_is(POOL + "::state"))
        raw = [(x, t) for (x, t) in find_calls(b, callee_is(OLQ + "::push")) if (field_chain(b, du, t["args"][0]) or [""])[-1] == "task_queue"]
        ok = False
        if st and raw:
            # path by path: on every path that reaches the queue push, the tests of state() left only Running possible --
            # a `match`, `matches!(.., Running)`, `== Running`, or `!= Running { return Err }` alike
            from analysis.table import enum_facts
            w_ = PathWalker(b)
            reach = [(p_, c_) for (p_, c_, sv) in w_.walk(0, lambda bid, t: ("push",) if bid == raw[0][0] else None) if sv[0] == "push"]
            n_ex = 0
            ok = True
            for (p_, c_) in reach:
                n_ex += 1
                if st[0][0] not in p_ or enum_facts(c_, ("Running", "Stopping", "Stopped")) != {"Running"}:
                    ok = False
            ok = run.paths(rid, "submit_task/reject", b.loc(), n_ex) and ok
        if ok:
            run.ok(rid, "submit_task/reject", "submit_raw_task only on the Running arm")
        else:
            run.fail(rid, "submit_task/reject", b.loc(), "submit_task queues a task although the pool is Stopping/Stopped (submit_raw_task must be dominated by the Running arm of state())")


def settle_rule(run, f, rid):
    run.rule(rid, "stop settles every waiter: drain loop, then stopped(), then do_clean which fails each remaining waiter", floor=3, template="T1/T3")
    b = need(run, rid, f, POOL + "::stop")
    if b is not None:
        cfg = Cfg(b)
        dc = [x for (x, t) in find_calls(b, callee_is(POOL + "::do_clean"))]
        ds = [x for (x, t) in find_calls(b, callee_is(POOL + "::do_stop"))]
        oks = [blk["id"] for blk in b.blocks for s in blk["stmts"] if s["k"] == "assign" and s["lhs"]["l"] == 0 and s["rhs"]["k"] == "agg" and s["rhs"].get("variant") == "Ok"]
        okp = cfg.must_pass([0], dc + ds, exits=oks) [0] if oks else False
        if okp:
            run.ok(rid, "stop/clean", "every Ok path passes do_stop (-> do_clean) or do_clean")
        else:
            run.fail(rid, "stop/clean", b.loc(), "CoroutinePool::stop can report success without cleaning the remaining waiters")
    b = need(run, rid, f, POOL + "::do_stop")
    if b is not None:
        cfg = Cfg(b)
        sd = [x for (x, t) in find_calls(b, callee_is(POOL + "::stopped"))]
        dc = [x for (x, t) in find_calls(b, callee_is(POOL + "::do_clean"))]
        sch = [x for (x, t) in find_calls(b, callee_is(POOL + "::try_timeout_schedule_task"))]
        # the clean-up that follows the drain loop (in a host that also cleans on its already-Stopped arm, only the one
        # reachable from the loop is ordered after stopped())
        dca = [x for x in dc if sch and x in cfg.reachable({sch[0]})]
        ok = sd and dca and sch and cfg.dominates(sch[0], sd[0]) and all(cfg.dominates(sd[0], x) for x in dca)
        oks = [blk["id"] for blk in b.blocks for s in blk["stmts"] if s["k"] == "assign" and s["lhs"]["l"] == 0 and s["rhs"]["k"] == "agg" and s["rhs"].get("variant") == "Ok"]
        ok = ok and oks and cfg.must_pass([0], dc, exits=oks)[0]
        if ok:
            run.ok(rid, "do_stop/order", "schedule loop -> stopped() -> do_clean() -> Ok")
        else:
            run.fail(rid, "do_stop/order", b.loc(), "do_stop must drain, mark Stopped and then clean the waiters before returning Ok")
    b = need(run, rid, f, POOL + "::do_clean")
    if b is not None:
        cfg = Cfg(b)
        du = DefUse(b)
        ins = calls_on_field(b, du, "dashmap::DashMap::insert", "results")
        no = find_calls(b, callee_is(POOL + "::notify"))
        nx = [x for (x, t) in b.calls() if norm(t.get("orig") or "").endswith("Iterator::next") and cfg.in_cycle(x)]
        ok = False
        why = "expected a loop with one results.insert and one notify (found %d/%d, loop heads %d)" % (len(ins), len(no), len(nx))
        if len(nx) == 1 and len(ins) == 1 and len(no) == 1:
            # the loop runs over (a snapshot of) the keys of `waits`
            src = backward(b, b.blocks[nx[0]]["term"]["args"][0], du, at=(nx[0], "term"))
            over_waits = "waits" in src.fields or any("waits" in field_chain(b, du, t["args"][0]) for (_x, t) in src.calls if t["args"])
            for cl in f.closures_of(b):
                over_waits = over_waits or any(norm(t.get("callee") or "").endswith("RefMulti::key") for (_x, t) in cl.calls())
            va = variant_arms(b, cfg, du, b.blocks[nx[0]]["term"]["dest"]["l"], cfg.after(nx[0]))
            if va and va[0].get("Some") is not None and over_waits:
                some = va[0]["Some"]
                r = cfg.reachable({some}, avoid={ins[0][0]})
                r2 = cfg.reachable({some}, avoid={no[0][0]})
                ok = nx[0] not in r and nx[0] not in r2 and cfg.dominates(ins[0][0], no[0][0])
                val = describe_val(b, du, ins[0][1]["args"][2])
                ok = ok and val[0] == "agg" and val[2] == "Err"
                k1 = any(x == nx[0] for (x, _t) in backward(b, ins[0][1]["args"][1], du, at=(ins[0][0], "term")).calls)
                k2 = any(x == nx[0] for (x, _t) in backward(b, no[0][1]["args"][1], du, at=(no[0][0], "term")).calls)
                ok = ok and k1 and k2
                why = "each element: insert before notify %s, Err value %s, both keyed by the element %s/%s" % (cfg.dominates(ins[0][0], no[0][0]), val[0] == "agg" and val[2] == "Err", k1, k2)
            else:
                why = "the loop does not run over the waiters (waits)"
        if ok:
            run.ok(rid, "do_clean/each-waiter", "for each waiting id: results.insert(id, Err(..)); notify(id)")
        else:
            run.fail(rid, "do_clean/each-waiter", b.loc(), "do_clean must give every remaining waiter an Err result and wake it (%s)" % why)
    b = need(run, rid, f, LOOPS + "::stop")
    if b is not None:
        cs = [norm(t.get("callee") or "") for (_x, t) in b.calls()]
        cl = [c for c in f.closures_of(b)]
        waits = any(c.startswith("std::sync::Condvar::wait_timeout_while") for c in cs)
        zero = False
        for c in cl:
            d2 = DefUse(c)
            for blk in c.blocks:
                for s in blk["stmts"]:
                    if s["k"] == "assign" and s["rhs"]["k"] == "binop" and s["rhs"]["op"] in ("Gt", "Ne") and (op_const(s["rhs"]["b"]) == 0 or op_const(s["rhs"]["a"]) == 0):
                        zero = True
        if waits and zero:
            run.ok(rid, "EventLoops::stop/wait-all", "waits while started > 0")
        else:
            run.fail(rid, "EventLoops::stop/wait-all", b.loc(), "EventLoops::stop must wait until every loop thread has reported that it stopped")


# ---------------------------------------------------------------- C13 dispatch
def cancel_dispatch_rule(run, f, rid):
    run.rule(rid, "try_cancel_task: a running task is cancelled through its own coroutine, a queued one through CANCEL_TASKS under its own id", floor=1, template="T5/T6")
    b = need(run, rid, f, POOL + "::try_cancel_task")
    if b is None:
        return
    cfg = Cfg(b)
    du = DefUse(b)
    g = calls_on_static(b, du, "dashmap::DashMap::get", RUNNING_TASKS)
    why = []
    if len(g) != 1:
        why.append("no RUNNING_TASKS lookup")
    else:
        gb, gt = g[0]
        if not any(b.name_of(p) == "task_id" for p in backward(b, gt["args"][1], du, at=(gb, "term"), through_calls="none").params):
            why.append("RUNNING_TASKS is not looked up with the task_id parameter")
        va = variant_arms(b, cfg, du, gt["dest"]["l"], cfg.after(gb))
        if not va:
            why.append("lookup result is not matched")
        else:
            some, none = va[0].get("Some"), va[0].get("None")
            ins = calls_on_static(b, du, "dashmap::DashSet::insert", CANCEL_TASKS)
            if len(ins) != 1 or not cfg.dominates(none, ins[0][0]) or not any(b.name_of(p) == "task_id" for p in backward(b, ins[0][1]["args"][1], du, at=(ins[0][0], "term"), through_calls="none").params):
                why.append("a task that is not running must be recorded in CANCEL_TASKS under its own id (None arm)")
            tc = find_calls(b, callee_is(SCHED + "::try_cancel_coroutine"))
            gs = find_calls(b, callee_is(SCHED + "::get_scheduling_thread"))
            pk = find_calls(b, callee_is("nix::sys::pthread::pthread_kill"))
            for (x, t) in tc + gs:
                if not cfg.dominates(some, x) or not any(y == gb for (y, _t) in backward(b, t["args"][0], du, at=(x, "term")).calls):
                    why.append("%s is not applied to the coroutine recorded for this task" % norm(t["callee"]).rsplit("::", 1)[1])
            for (x, t) in pk:
                if not gs or not any(y == gs[0][0] for (y, _t) in backward(b, t["args"][0], du, at=(x, "term")).calls):
                    why.append("the signal is not sent to the thread that schedules this task's coroutine")
                sig = describe_val(b, du, t["args"][1])
                if "SIGVTALRM" not in repr(sig):
                    why.append("the cancel signal is not SIGVTALRM")
            if not tc or not gs or not pk:
                why.append("running-task branch incomplete (signal %d, thread lookup %d, fallback %d)" % (len(pk), len(gs), len(tc)))
    if why:
        run.fail(rid, "try_cancel_task/dispatch", b.loc(), "; ".join(sorted(set(why))))
    else:
        run.ok(rid, "try_cancel_task/dispatch", "RUNNING_TASKS[task] -> thread of co -> SIGVTALRM, else try_cancel_coroutine(co); not running -> CANCEL_TASKS.insert(task)")


def identity_rule(run, f, rid):
    run.rule(rid, "the signal-driven cancel acts only on the coroutine it was aimed at", floor=1, template="T2")
    b = need(run, rid, f, "coroutine::korosensei::Coroutine::setup_sigvtalrm_handler::sigvtalrm_handler")
    if b is None:
        return
    cfg = Cfg(b)
    du = DefUse(b)
    cs = find_calls(b, callee_ends("Suspender::cancel"))
    cur = find_calls(b, callee_ends("Suspender::current"))
    # a guard would compare the current coroutine (id) with an intended target
    ident = [t for (_x, t) in b.calls() if norm(t.get("callee") or "").endswith(("Coroutine::current", "Coroutine::id")) or "RUNNING" in (static_of(b, du, t["args"][0]) or "" if t["args"] else "")]
    if cs and not ident:
        run.fail(rid, "sigvtalrm_handler/unguarded-cancel", b.loc(cs[0][1]["line"]),
                 "the SIGVTALRM handler cancels whatever coroutine is current on the signalled thread; the thread is looked up before pthread_kill, so if it switches coroutines in between another task is cancelled")
    elif cs:
        run.ok(rid, "sigvtalrm_handler/guard", "cancel guarded by an identity test")
    else:
        run.fail(rid, "sigvtalrm_handler/cancel-missing", b.loc(), "handler no longer cancels")


# ---------------------------------------------------------------- DashMap self-deadlock (C12)
MUTATORS = ("insert", "remove", "clear", "retain", "entry", "get_mut", "alter", "remove_if", "iter_mut", "shrink_to_fit", "alter_all")


def _fields_mutated(f, body, depth, memo):
    """DashMap/DashSet fields of `self` that a function mutates (through local callees on self, bounded depth)."""
    key = (body.path, depth)
    if key in memo:
        return memo[key]
    memo[key] = set()
    out = set()
    du = DefUse(body)
    for (x, t) in body.calls():
        c = norm(t.get("callee") or "")
        if c.startswith(("dashmap::DashMap::", "dashmap::DashSet::")) and c.rsplit("::", 1)[1] in MUTATORS:
            fc = field_chain(body, du, t["args"][0])
            if fc and fc[0] == "self":
                out.add(fc[-1])
        elif t.get("local") and depth > 0 and t["args"]:
            fc = field_chain(body, du, t["args"][0])
            if fc == ["self"] or (fc and fc[0] == "self" and len(fc) == 1):
                for cb in f.by_npath.get(c, []):
                    if cb.kind != "Promoted":
                        out |= _fields_mutated(f, cb, depth - 1, memo)
    memo[key] = out
    return out


def dashmap_reentrancy_rule(run, f, rid, prefixes=("co_pool::", "scheduler::", "net::")):
    run.rule(rid, "no DashMap is mutated while an iterator over the same map is live (dashmap iterators hold the shard lock: self-deadlock)", floor=0, template="T3/T9")
    memo = {}
    n = 0
    for b in f.bodies:
        if b.kind == "Promoted" or not b.npath.startswith(prefixes):
            continue
        nxt = [(x, t) for (x, t) in b.calls() if norm(t.get("callee") or "") in ("<dashmap::iter::Iter as std::iter::Iterator>::next", "<dashmap::iter_set::Iter as std::iter::Iterator>::next", "<dashmap::iter::IterMut as std::iter::Iterator>::next")]
        if not nxt:
            continue
        cfg = Cfg(b)
        du = DefUse(b)
        loops = cfg.natural_loops()
        for (nb, nt) in nxt:
            src = backward(b, nt["args"][0], du, at=(nb, "term"))
            flds = {fc[-1] for (_x, t) in src.calls if t["args"] for fc in [field_chain(b, du, t["args"][0])] if fc and fc[0] == "self"} | {x for x in src.fields}
            L = set()
            for h, blocks in loops.items():
                if nb in blocks:
                    L |= blocks
            n += 1
            bad = None
            for x in sorted(L):
                t = b.blocks[x]["term"]
                if t["k"] != "call":
                    continue
                c = norm(t.get("callee") or "")
                if c.startswith(("dashmap::DashMap::", "dashmap::DashSet::")) and c.rsplit("::", 1)[1] in MUTATORS:
                    fc = field_chain(b, du, t["args"][0])
                    if fc and fc[-1] in flds:
                        bad = (t, fc[-1], c)
                elif t.get("local") and t["args"]:
                    fc = field_chain(b, du, t["args"][0])
                    if fc and fc[0] == "self":
                        for cb in f.by_npath.get(c, []):
                            if cb.kind != "Promoted":
                                m = _fields_mutated(f, cb, 2, memo) & flds
                                if m:
                                    bad = (t, sorted(m)[0], c)
            key = "%s/iter-%s" % (b.npath, "+".join(sorted(x for x in flds if not x.isdigit())) or "?")
            if bad:
                run.fail(rid, key, b.loc(bad[0]["line"]), "while iterating the DashMap `%s` the loop calls %s, which mutates the same map: the iterator holds the shard lock, the call blocks forever" % (bad[1], bad[2]))
            else:
                run.ok(rid, key, "no mutation of the iterated map inside the loop")
    return n
