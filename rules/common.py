"""Helpers shared by rule modules."""
from analysis import facts as F
from analysis.report import Run


def start(pid, tier, explanation, configs, **kw):
    run = Run(pid, tier, explanation, **kw)
    run.tree_hash = F.tree_hash()
    fx = {}
    for c in configs:
        fx[c] = F.load(c)
        run.configs.append(c)
    return run, fx


def need(run, rid, facts, npath):
    b = facts.body(npath)
    if b is None:
        run.missing(rid, npath)
    else:
        run.fn(b)
    return b


def short(npath):
    return npath.split("::", 2)[-1] if npath.count("::") > 2 else npath
