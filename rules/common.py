"""Helpers shared by rule modules."""
from analysis import facts as F
from analysis.report import Run


def start(pid, tier, explanation, configs, **kw):
    run = Run(pid, tier, explanation, **kw)
    run.tree_hash = F.tree_hash()
    fx = {}
    for c in configs:
        fx[c] = F.load(c)
        run.configs.append(c)
        if fx[c].relocated:
            run.notes.append("%s: items found under another module path than in the reference tree, analysed under their reference path: %s" % (c, dict(sorted(fx[c].relocated.items())[:12])))
    return run, fx


def need(run, rid, facts, npath):
    b = facts.body(npath)
    if b is None:
        b = hosted(run, facts, npath)
    if b is None:
        run.missing(rid, npath)
    else:
        run.fn(b)
    return b


def hosted(run, facts, npath):
    """An anchor function that no longer exists as a function of its own: when, in the reference tree, it had exactly one
    caller that still exists, that caller (as one inlined unit) now hosts its code -- the author inlined the helper.  The
    rule is evaluated on the host; a function that vanished together with its caller, or had several callers, stays a
    missing anchor."""
    ref = F.ref_items(facts.crate, facts.config) or {}
    hosts = [h for h in (ref.get("callers") or {}).get(npath, []) if facts.body(h) is not None]
    if len(hosts) != 1:
        return None
    hb = facts.body(hosts[0])
    b = inl(facts, hb)
    b.hosted_for = npath
    note = "%s no longer exists as a function; evaluated on its only reference caller %s (helper inlined by the author)" % (npath, hosts[0])
    if note not in run.notes:
        run.notes.append(note)
    return b


def short(npath):
    return npath.split("::", 2)[-1] if npath.count("::") > 2 else npath


def family(facts, body, depth=3, keep=()):
    """[body, closures..., repo-local helpers and their closures...]: everything whose code runs as part of `body`
    and that a refactoring may move code into.  Functions named in `keep` (npaths / last segments) or known to the
    rules by name (vocab) are not entered."""
    from analysis.facts import norm
    keep = set(keep)
    out, seen = [], set()
    work = [(body, 0)]
    while work:
        b, d = work.pop(0)
        if b.path in seen or b.kind == "Promoted":
            continue
        seen.add(b.path)
        out.append(b)
        for c in facts.closures_of(b):
            work.append((c, d))
        if d >= depth:
            continue
        for (_x, t) in b.calls():
            if t.get("local") and t.get("resolved", True) and not t.get("exp"):
                c = norm(t["callee"])
                if c in keep or c.rsplit("::", 1)[-1] in keep or c.rsplit("::", 1)[-1] in vocab():
                    continue      # a function the rules know by name is a unit of its own
                for cb in facts.by_npath.get(c, []):
                    if cb.kind in ("Fn", "AssocFn") and cb.abi in (None, "Rust"):
                        work.append((cb, d + 1))
    return out


_VOCAB = None


def vocab():
    """Every identifier that occurs inside a string literal of a rule or analysis module: the function names the rules
    look for.  A repo-local callee whose name is in this set stays a call when a body is inlined for a rule; a callee
    the rules have never heard of (an extracted helper) is spliced into its caller."""
    global _VOCAB
    if _VOCAB is None:
        import glob, io, os, re, tokenize
        here = os.path.dirname(os.path.abspath(__file__))
        ids = set()
        for p in glob.glob(os.path.join(here, "*.py")) + glob.glob(os.path.join(os.path.dirname(here), "analysis", "*.py")):
            if p.endswith("inline.py"):
                continue
            with open(p, "rb") as fh:
                try:
                    for tok in tokenize.tokenize(fh.readline):
                        if tok.type == tokenize.STRING:
                            lit = tok.string
                            # only path-like literals ("A::b", "<X as T>::f", "name"), not prose
                            if re.search(r"\s", lit.replace(" as ", "")) or len(lit) > 200:
                                continue
                            ids.update(re.findall(r"[A-Za-z_][A-Za-z0-9_]*", lit))
                except tokenize.TokenError:
                    pass
        _VOCAB = ids
    return _VOCAB


def inl(facts, body, keep=(), force=(), **kw):
    """`body` as one unit for a rule: closures, modelled combinators, local Drop impls and helpers the rules do not
    name are spliced in (analysis.inline)."""
    from analysis.inline import inline
    v = vocab()
    force = set(force)
    from analysis.facts import ref_items
    ref = ref_items(facts.crate, facts.config) or {}
    refb = set(ref.get("bodies") or ())
    def only(cb):
        if cb.kind == "Closure":
            return True
        if cb.npath in force or cb.npath.rsplit("::", 1)[-1] in force:
            return True      # a link of the chain the rule follows end to end: spliced although the rules know its name
        if refb and cb.kind in ("Fn", "AssocFn") and cb.npath not in refb and cb.impl_trait is None:
            # a function the reference tree does not have: no rule names it, even if its name (`take`, `get`, `push`)
            # happens to occur in the rules' vocabulary for some other type's method
            return True
        if cb.impl_trait == "std::ops::Drop":
            # a Drop impl is known to the rules by its type, not by the method name
            return (cb.impl_of or "").rsplit("::", 1)[-1] not in v
        return cb.npath.rsplit("::", 1)[-1] not in v
    return inline(body, facts, keep=set(keep), only=only, force=force, **kw)


_CALLERS = {}


def callers_map(facts):
    """npath -> set of npaths that call it (resolved repo-local calls); a closure counts as called by the function
    that defines it."""
    k = id(facts)
    if k not in _CALLERS:
        from analysis.facts import norm
        m = {}
        for b in facts.bodies:
            if b.kind == "Promoted":
                continue
            if "::{closure#" in b.path:
                m.setdefault(b.npath, set()).add(norm(b.path.rsplit("::{closure#", 1)[0]))
            for (_x, t) in b.calls(include_cleanup=True):
                if t.get("local") and t.get("callee"):
                    m.setdefault(norm(t["callee"]), set()).add(b.npath)
            for blk in b.blocks:
                for s in blk["stmts"]:
                    if s["k"] == "assign":
                        # a function item taken by value (fn pointer / callback) counts as a use by this body
                        for o in ([s["rhs"].get("a")] if s["rhs"].get("a") else []) + list(s["rhs"].get("ops") or []):
                            if isinstance(o, dict) and o.get("k") == "const" and o.get("fn") and o["fn"].get("local"):
                                m.setdefault(norm(o["fn"]["callee"]), set()).add(b.npath)
        _CALLERS[k] = m
    return _CALLERS[k]


def uncovered_roots(facts, fn, allowed):
    """Entry points from which `fn` is reachable without passing a function in `allowed`: [] when every call chain
    into `fn` starts inside `allowed` (fn is a private helper of the allowed functions)."""
    cm = callers_map(facts)
    if fn in allowed:
        return []
    bad, seen, work = [], set(), [fn]
    while work:
        x = work.pop()
        if x in seen:
            continue
        seen.add(x)
        cs = cm.get(x, set()) - {x}
        if not cs:
            bad.append(x)      # nobody calls it: it is its own entry point (public API, trait method, callback)
            continue
        for c in cs:
            if c not in allowed:
                work.append(c)
    return sorted(bad)


_STATIC_TY = {}


def static_types(facts):
    """static path -> type text, read off the operands that mention the static."""
    k = id(facts)
    if k not in _STATIC_TY:
        from analysis.facts import norm
        m = {}
        for b in facts.bodies:
            for blk in b.blocks:
                for s_ in blk["stmts"]:
                    if s_["k"] != "assign":
                        continue
                    for o in ([s_["rhs"].get("a")] if isinstance(s_["rhs"].get("a"), dict) else []) + list(s_["rhs"].get("ops") or []):
                        if isinstance(o, dict) and o.get("k") == "const" and o.get("static"):
                            m.setdefault(norm(o["static"]), o.get("ty") or "")
        _STATIC_TY[k] = m
    return _STATIC_TY[k]


def refers_to_static(facts, body, du, op, static):
    """True when the operand is (a part of) the contents of `static`: directly, or -- inside a method of a local type that
    the static's contents are made of (a newtype put around the collection) -- through that method's own `self`."""
    from analysis.flow import static_of, backward
    from analysis.facts import norm
    if static_of(body, du, op) == static:
        return True
    own = body.impl_of or ""
    ty = static_types(facts).get(static, "")
    import re
    if not own or not re.search(r"(?<![\w:])%s(?![\w:])" % re.escape(own), ty):
        return False
    if body.argc < 1 or body.name_of(1) != "self":
        return False
    sl = backward(body, op, du, through_calls="none")
    return set(sl.params) == {1}


def const_duration_ns(body, du, op):
    """Nanoseconds of a Duration operand that is a compile-time constant: `Duration::from_millis(1)` and the like with a
    literal argument, or a named constant of the crate (the driver evaluates it: "Duration { secs: S, nanos: ..(N) }");
    None for anything computed."""
    import re
    from analysis.table import describe_val
    from analysis.flow import op_local
    cur = op
    for _ in range(6):
        if cur is None:
            return None
        if cur.get("k") == "const":
            m = re.search(r"Duration \{+ secs: (\d+)_u64, nanos: [\w:]*\((\d+)_u32", cur.get("eval") or "")
            return int(m.group(1)) * 10**9 + int(m.group(2)) if m else None
        l = op_local(cur)
        ds = du.defs.get(l, []) if l is not None else []
        if len(ds) == 1 and ds[0][2] == "assign" and ds[0][3]["rhs"]["k"] == "use":
            cur = ds[0][3]["rhs"]["a"]
            continue
        break
    d = describe_val(body, du, op)
    if isinstance(d, tuple) and d and d[0] == "call" and str(d[1]).startswith("std::time::Duration::from_") and len(d[2]) == 1 and d[2][0][0] == "const":
        try:
            return int(d[2][0][1]) * {"from_secs": 10**9, "from_millis": 10**6, "from_micros": 10**3, "from_nanos": 1}[d[1].rsplit("::", 1)[1]]
        except (ValueError, KeyError, TypeError):
            return None
    return None


def arg_by_name(facts, t, name, default=0):
    """The operand a call passes for the callee's parameter called `name` (a `self` receiver added in front, or a
    reordering of parameters, shifts positions but not names); position `default` when the callee has no such name."""
    from analysis.facts import norm
    for cb in facts.by_npath.get(norm(t.get("callee") or ""), []):
        if cb.kind == "Promoted":
            continue
        for l in range(1, cb.argc + 1):
            if cb.name_of(l) == name and l - 1 < len(t["args"]):
                return t["args"][l - 1]
    return t["args"][default]


def unit(run, rid, facts, npath, keep=(), force=()):
    """need() + inl(): the named function as one unit (closures, combinators, unnamed helpers, local Drop spliced in)."""
    b = need(run, rid, facts, npath)
    return inl(facts, b, keep=keep, force=force) if b is not None else None


def closure_with(facts, parent_npath, pred):
    """The closure (at any depth) of `parent_npath` whose body satisfies pred -- closures are found by what they do,
    not by their index, which shifts when another closure is added in front."""
    from analysis.facts import norm
    out = [c for c in facts.bodies if c.kind == "Closure" and c.npath.startswith(parent_npath + "::{closure#") and pred(c)]
    return out[0] if len(out) == 1 else None


def owners(facts, fn, allowed):
    """The functions of `allowed` through which `fn` is entered, or None when `fn` can also be entered from outside
    `allowed` (then it is an entry point of its own and must be judged under its own name)."""
    if fn in allowed:
        return {fn}
    if uncovered_roots(facts, fn, allowed):
        return None
    cm = callers_map(facts)
    own, seen, work = set(), set(), [fn]
    while work:
        x = work.pop()
        if x in seen:
            continue
        seen.add(x)
        for c in cm.get(x, set()) - {x}:
            if c in allowed:
                own.add(c)
            else:
                work.append(c)
    return own
