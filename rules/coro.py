"""Rule instances on the coroutine module (C08, C09, C13-DRAIN, C23, C24, C25)."""
from analysis.facts import norm
from analysis.cfg import Cfg
from analysis.flow import (DefUse, backward, find_calls, callee_is, callee_ends, op_local, op_const, switch_info,
                           bool_branch, variant_arms, static_of, field_chain)
from analysis.table import switch_test, describe_val, PathWalker
from rules.common import need, inl, unit, family

CO = "coroutine::korosensei::Coroutine"
SUS = "coroutine::suspender::korosensei::Suspender"
TLS_TS = "coroutine::suspender::TIMESTAMP"
TLS_CANCEL = "coroutine::suspender::CANCEL"


def tls_of_with(b, du, t):
    """Which thread-local a `LocalKey::with/try_with` call operates on."""
    d = describe_val(b, du, t["args"][0])
    r = repr(d)
    for k in (TLS_TS, TLS_CANCEL):
        if "'%s'" % k in r:
            return k
    return None


# ------------------------------------------------------------------ C09 / C13
def drain_rule(run, f, rid):
    run.rule(rid, "raw_resume consumes the per-yield delay and cancel requests on every yield, whatever state the coroutine yielded in", floor=2, template="T1 (path walk)")
    b = need(run, rid, f, CO + "::raw_resume")
    if b is None:
        return
    cfg = Cfg(b)
    w = PathWalker(b)
    res = find_calls(b, callee_is("corosensei::Coroutine::resume"))
    if not res:
        run.missing(rid, "corosensei::Coroutine::resume in raw_resume")
        return
    paths = w.walk(cfg.after(res[0][0])[0], lambda bid, t: ("return",) if t["k"] == "return" else None)
    run.count("paths_or_states", len(paths))
    bad = {}
    seen_states = set()
    for (path, conds, sv) in paths:
        is_yield, cur = False, None
        cancel_val = None
        for cd in conds:
            if cd[0] == "variant" and set(cd[2]) == {"Yield"}:
                is_yield = True
            elif cd[0] == "variant" and "@" not in cd[1] and set(cd[2]) <= {"Ready", "Running", "Suspend", "Syscall", "Cancelled", "Complete", "Error"}:
                cur = cd[2]
            elif cd[0] == "bool" and cd[1][0] == "call" and cd[1][1].endswith("::is_cancel"):
                cancel_val = cd[2]
        if not is_yield or cur is None:
            continue
        calls = [norm(b.blocks[x]["term"].get("callee") or "") for x in path if b.blocks[x]["term"]["k"] == "call"]
        drained_cancel = any(c == SUS + "::is_cancel" for c in calls)
        drained_ts = any(c == SUS + "::timestamp" for c in calls)
        for st in cur:
            if st not in ("Running", "Syscall"):
                continue   # other states are refused with Err: the yield itself is a protocol error
            seen_states.add(st)
            if not drained_cancel:
                bad.setdefault(st, set()).add("cancel request")
            if not drained_ts and cancel_val is not True:
                bad.setdefault(st, set()).add("delay request")
    for st in ("Running", "Syscall"):
        key = "%s::raw_resume/Yield-%s" % (CO, st)
        if st not in seen_states:
            run.fail(rid, key, b.loc(), "no path classifies a yield made in %s state" % st)
        elif st in bad:
            run.fail(rid, key, b.loc(), "a yield made in %s state can return without consuming its %s: the request stays on the thread-local queue and is applied to the next coroutine that yields on this thread" % (st, " and ".join(sorted(bad[st]))))
        else:
            run.ok(rid, key, "is_cancel() and (unless cancelled) timestamp() on every path")


def push_yield_rule(run, f, rid):
    run.rule(rid, "a delay/cancel request is pushed only by a function that then yields; producers and consumers use the same end of the same thread-local; only four functions touch them", floor=6, template="T1/T5/T9")
    touch = {}   # tls -> {fn: set(ops)}
    for b in f.bodies:
        if b.kind == "Promoted":
            continue
        du = None
        for (x, t) in b.calls():
            c = norm(t.get("callee") or "")
            if c in ("std::thread::LocalKey::with", "std::thread::LocalKey::try_with"):
                du = du or DefUse(b)
                k = tls_of_with(b, du, t)
                if k:
                    ops = set()
                    # closure passed as arg1 (and its nested closures)
                    cl = describe_val(b, du, t["args"][1])
                    names = [d[1] for d in [cl] if d and d[0] == "closure"]
                    stack = [cb for cb in f.bodies if cb.kind == "Closure" and cb.npath in names]
                    seen = set()
                    while stack:
                        cb = stack.pop()
                        if cb.path in seen:
                            continue
                        seen.add(cb.path)
                        for (_y, tt) in cb.calls():
                            cc = norm(tt.get("callee") or "")
                            if cc.startswith("std::collections::VecDeque::"):
                                ops.add(cc.rsplit("::", 1)[1])
                        stack.extend(f.closures_of(cb))
                    touch.setdefault(k, {}).setdefault(b.npath, set()).update(ops)
    want = {
        TLS_TS: {SUS + "::until_with": {"push_front"}, SUS + "::timestamp": {"pop_front"}},
        TLS_CANCEL: {SUS + "::cancel": {"push_front"}, SUS + "::is_cancel": {"pop_front"}},
    }
    from rules.common import owners
    for k in (TLS_TS, TLS_CANCEL):
        # a toucher that is not one of the four functions itself but can only be entered from them (a helper cut out of
        # until_with / cancel) acts on their behalf: its operations are folded into those owners.  A toucher that can be
        # entered from anywhere else stays in the map under its own name and fails the comparison.
        got = {}
        for fn_, ops_ in touch.get(k, {}).items():
            if fn_ in want[k]:
                got.setdefault(fn_, set()).update(ops_)
                continue
            own = owners(f, fn_, set(want[k]))
            if own:
                for o in own:
                    got.setdefault(o, set()).update(ops_)
            else:
                got.setdefault(fn_, set()).update(ops_)
        if got == want[k]:
            run.ok(rid, k + "/owners", {fn.rsplit("::", 1)[1]: sorted(v) for fn, v in got.items()})
        else:
            extra = {fn: sorted(v) for fn, v in got.items() if want[k].get(fn) != v}
            run.fail(rid, k + "/owners", "core/src/coroutine/suspender.rs", "the per-yield request queue %s must be touched only by its producer (push_front, then yield) and its consumer (pop_front); found %s" % (k.rsplit("::", 1)[1], extra or "missing " + str(sorted(set(want[k]) - set(got)))))
    for fn in (SUS + "::until_with", SUS + "::cancel"):
        b = unit(run, rid, f, fn)      # the thread-local closure and any request_*() helper are part of the function
        if b is None:
            continue
        cfg = Cfg(b)
        wc = find_calls(b, callee_is("std::collections::VecDeque::push_front", "std::collections::VecDeque::push_back"))
        sw = [x for (x, t) in find_calls(b, callee_is(SUS + "::suspend_with"))]
        ok = len(wc) == 1 and sw and cfg.must_pass(cfg.after(wc[0][0]), sw)[0] and not cfg.in_cycle(wc[0][0])
        if ok:
            run.ok(rid, fn + "/push-then-yield", "push is followed by suspend_with on every path")
        else:
            run.fail(rid, fn + "/push-then-yield", b.loc(), "%s pushes a request and can return without yielding: the request would be attributed to a later yield" % fn.rsplit("::", 1)[1])
    # any other function that pushes must also yield (covered by owners); values pushed
    b = unit(run, rid, f, SUS + "::until_with")
    if b is not None:
        du = DefUse(b)
        pf = find_calls(b, callee_is("std::collections::VecDeque::push_front"))
        ok = False
        if len(pf) == 1:
            vs = backward(b, pf[0][1]["args"][1], du, at=(pf[0][0], "term"), through_calls="none")
            # the wake-up time is until_with's only u64 parameter (told by its type, not by its name or position)
            def _ty(l_):
                t_ = b.locals[l_] if l_ < len(b.locals) else None
                return t_.get("ty") if isinstance(t_, dict) else t_
            u64s = {l_ for l_ in range(1, b.argc + 1) if _ty(l_) == "u64"}
            ok = len(u64s) == 1 and set(vs.params) == u64s and not vs.binops()
        if ok:
            run.ok(rid, "until_with/value", "pushes its own timestamp argument")
        else:
            run.fail(rid, "until_with/value", b.loc(), "until_with must push exactly the timestamp it was given")
    b = need(run, rid, f, SUS + "::delay_with")
    if b is not None:
        du = DefUse(b)
        uw = find_calls(b, callee_is(SUS + "::until_with"))
        ok = len(uw) == 1 and any(norm(t.get("callee") or "") == "common::get_timeout_time" for (_x, t) in backward(b, uw[0][1]["args"][2], du, at=(uw[0][0], "term"), through_calls="none").calls)
        sl = backward(b, uw[0][1]["args"][2], du, at=(uw[0][0], "term")) if uw else None
        ok = ok and any(b.name_of(p) == "delay" for p in sl.params) and not sl.binops()
        if ok:
            run.ok(rid, "delay_with/deadline", "until_with(arg, get_timeout_time(delay))")
        else:
            run.fail(rid, "delay_with/deadline", b.loc(), "delay_with must forward to until_with with get_timeout_time(delay)")
    for fn, dflt in ((SUS + "::timestamp", "0"), (SUS + "::is_cancel", "0")):
        b = need(run, rid, f, fn)
        if b is None:
            continue
        du = DefUse(b)
        uo = find_calls(b, callee_is("std::option::Option::unwrap_or", "std::option::Option::unwrap_or_default"))
        ok = len(uo) == 1 and (len(uo[0][1]["args"]) == 1 or uo[0][1]["args"][1].get("v") == dflt)
        if not ok and not uo:
            # the default spelled as a test of the popped Option (`matches!(popped, Some(Requested))`, `if let Some(t) = ..`):
            # on every path of the unit that found the queue empty (None) the value returned is the constant default
            from analysis.table import value_on_path
            ub = unit(run, rid, f, fn)
            n_none = 0
            ok = ub is not None
            for (pth, conds, sv) in (PathWalker(ub).walk(0, lambda bid, t: ("return",) if t["k"] == "return" else None) if ub is not None else []):
                if sv[0] != "return":
                    continue
                if any(cd[0] == "variant" and cd[2] and set(cd[2]) == {"None"} for cd in conds):
                    n_none += 1
                    v = value_on_path(ub, pth)
                    if not (v and v[0] == "const" and str(v[1]) in (dflt, "false")):
                        ok = False
            ok = ok and n_none > 0
        if ok:
            run.ok(rid, fn + "/default", "empty queue -> %s" % ("0" if "timestamp" in fn else "false"))
        else:
            run.fail(rid, fn + "/default", b.loc(), "with no pending request %s must report %s" % (fn.rsplit("::", 1)[1], "time 0" if "timestamp" in fn else "not cancelled"))


# ------------------------------------------------------------------ C08
def pass_rule(run, f, rid):
    run.rule(rid, "values cross the coroutine boundary unmodified: resume arg, yielded value, return value, suspend_with arg/result, body called with its own suspender and parameter", floor=6, template="T5")
    b = need(run, rid, f, CO + "::raw_resume")
    if b is not None:
        cfg = Cfg(b)
        du = DefUse(b)
        res = find_calls(b, callee_is("corosensei::Coroutine::resume"))
        if len(res) == 1:
            rb, rt = res[0]
            sl = backward(b, rt["args"][1], du, at=(rb, "term"), through_calls="none")
            if {b.name_of(p) for p in sl.params} == {"arg"} and not sl.ops and not sl.calls:
                run.ok(rid, "raw_resume/arg", "inner.resume(arg)")
            else:
                run.fail(rid, "raw_resume/arg", b.loc(rt["line"]), "the resume argument is not passed to the coroutine unmodified")
            recv = field_chain(b, du, rt["args"][0])
            if recv[-1:] != ["inner"]:
                run.fail(rid, "raw_resume/inner", b.loc(rt["line"]), "resume is not applied to this coroutine's own inner context", counts_as_instance=False)
            # suspend(y, ts): y is the Yield payload; complete(r): r is the Ok payload; error(m): the Err payload
            for callee, want, nm in ((CO + "::suspend", "@Yield.0", "suspend"), (CO + "::complete", "@Return.0", "complete"), (CO + "::error", "@Return.0", "error")):
                cs = find_calls(b, callee_is(callee))
                ok = len(cs) == 1
                if ok:
                    d = describe_val(b, du, cs[0][1]["args"][1])
                    ok = want in repr(d) and "binop" not in repr(d)
                    if nm == "suspend":
                        d2 = describe_val(b, du, cs[0][1]["args"][2])
                        ok = ok and d2[0] == "call" and d2[1] == SUS + "::timestamp"
                if ok:
                    run.ok(rid, "raw_resume/" + nm, "payload passed through")
                else:
                    run.fail(rid, "raw_resume/" + nm, b.loc(), "%s() is not given the value the coroutine produced (%s)" % (nm, want))
        else:
            run.fail(rid, "raw_resume/arg", b.loc(), "expected exactly one inner.resume call")
    b = need(run, rid, f, SUS + "::suspend_with")
    if b is not None:
        du = DefUse(b)
        ys = find_calls(b, callee_is("corosensei::Yielder::suspend"))
        ok = len(ys) == 1
        if ok:
            sl = backward(b, ys[0][1]["args"][1], du, at=(ys[0][0], "term"), through_calls="none")
            r = backward(b, 0, du, through_calls="none")
            ok = {b.name_of(p) for p in sl.params} == {"arg"} and not sl.ops and any(x == ys[0][0] for (x, _t) in r.calls) and not r.ops
        if ok:
            run.ok(rid, "suspend_with/pass", "returns inner.suspend(arg)")
        else:
            run.fail(rid, "suspend_with/pass", b.loc(), "suspend_with must yield exactly `arg` and return exactly what the resumer passed")
    # Coroutine::new body closure: f(&suspender, p) -> r
    inner = [c for c in f.bodies if c.kind == "Closure" and c.npath.startswith(CO + "::new::{closure#") and c.npath.count("{closure#") == 2]
    found = False
    for cb in inner:
        du = DefUse(cb)
        for (x, t) in cb.calls():
            if norm(t.get("orig") or "").endswith("FnOnce::call_once") and not t.get("exp"):
                found = True
                tup = describe_val(cb, du, t["args"][1])
                okp = tup[0] == "tuple" and len(tup[1]) == 2 and "suspender" in repr(tup[1][0])
                # ... and it is the very suspender this closure installed as the thread's current one (same local), not
                # merely something called `suspender`
                ics = [tt for (_y, tt) in cb.calls() if norm(tt.get("callee") or "").endswith("Suspender::init_current")]
                if okp and ics:
                    def ref_root(op):
                        l = op_local(op)
                        for _ in range(6):
                            ds_ = du.defs.get(l, []) if l is not None else []
                            if len(ds_) == 1 and ds_[0][2] == "assign" and ds_[0][3]["rhs"]["k"] == "ref" and not ds_[0][3]["rhs"]["p"]["proj"]:
                                return ds_[0][3]["rhs"]["p"]["l"]
                            if len(ds_) == 1 and ds_[0][2] == "assign" and ds_[0][3]["rhs"]["k"] == "ref" and ds_[0][3]["rhs"]["p"]["proj"] == ["deref"]:
                                l = ds_[0][3]["rhs"]["p"]["l"]       # a reborrow `&*r`
                                continue
                            if len(ds_) == 1 and ds_[0][2] == "assign" and ds_[0][3]["rhs"]["k"] == "use" and ds_[0][3]["rhs"]["a"]["k"] in ("copy", "move") and not ds_[0][3]["rhs"]["a"]["p"]["proj"]:
                                l = ds_[0][3]["rhs"]["a"]["p"]["l"]
                                continue
                            break
                        return None
                    args_t = None
                    for d_ in du.defs.get(op_local(t["args"][1]), []):
                        if d_[2] == "assign" and d_[3]["rhs"]["k"] == "agg" and d_[3]["rhs"].get("ops"):
                            args_t = d_[3]["rhs"]["ops"][0]
                    r1 = ref_root(args_t) if args_t is not None else None
                    r2 = ref_root(ics[0]["args"][0])
                    if r1 is None or r2 is None or r1 != r2:
                        okp = False
                r = backward(cb, 0, du, through_calls="none")
                okr = any(y == x for (y, _t) in r.calls) and not r.ops
                if okp and okr:
                    run.ok(rid, "Coroutine::new/body", "r = f(&suspender, p); returns r")
                else:
                    run.fail(rid, "Coroutine::new/body", cb.loc(), "the coroutine body closure must call f(&suspender, p) and return its result unchanged")
    if not found:
        run.fail(rid, "Coroutine::new/body", "core/src/coroutine/korosensei.rs", "call of the user function inside Coroutine::new not found")


def catch_rule(run, f, rid):
    run.rule(rid, "user code (coroutine body, task function) runs only inside catch_unwind; the payload's message is reported for &str and String payloads", floor=2, template="T2")
    body_cl = [c.npath for c in f.bodies if c.kind == "Closure" and c.npath.startswith(CO + "::new::{closure#") and c.npath.count("{closure#") == 1
               and any(norm(t.get("callee") or "") == "std::panic::catch_unwind" for (_x, t) in c.calls())]
    sites = [(body_cl[0] if body_cl else CO + "::new::{closure#?}", "coroutine body"), ("co_pool::task::Task::run", "task function")]
    for fn, what in sites:
        b = need(run, rid, f, fn)
        if b is None:
            continue
        du = DefUse(b)
        cu = find_calls(b, callee_is("std::panic::catch_unwind"))
        # the user callable is invoked in a closure nested below this function
        user_calls = []
        for cb in [c for c in f.bodies if c.kind == "Closure" and c.npath.startswith(fn + "::{closure#")] :
            for (x, t) in cb.calls():
                if norm(t.get("orig") or "").endswith(("FnOnce::call_once", "Fn::call", "FnMut::call_mut")) and not t.get("exp"):
                    user_calls.append((cb, t))
        direct = [t for (x, t) in b.calls() if norm(t.get("orig") or "").endswith(("FnOnce::call_once",)) and not t.get("exp")]
        why = []
        if len(cu) != 1:
            why.append("expected exactly one catch_unwind (found %d)" % len(cu))
        if direct:
            why.append("the user callable is invoked outside the catch_unwind closure")
        if not user_calls:
            why.append("no call of the user callable found")
        else:
            # the closure that makes the call is (wrapped in AssertUnwindSafe) the argument of catch_unwind
            arg = repr(describe_val(b, du, cu[0][1]["args"][0])) if cu else ""
            for (cb, t) in user_calls:
                if cb.npath not in arg:
                    why.append("the closure calling the user code (%s) is not the argument of catch_unwind" % cb.npath.rsplit("::", 1)[1])
        # payload downcasts to &str and String: in the closure handed to map_err on the catch_unwind result, or -- when
        # the author matches on that result in place -- in this function itself, on a value that derives from it
        dc = set()
        for cb in [c for c in f.bodies if c.kind == "Closure" and c.npath.startswith(fn + "::{closure#")]:
            for (x, t) in cb.calls():
                if norm(t.get("callee") or "").endswith("::downcast_ref"):
                    dc.add(t["substs"][-1] if t.get("substs") else "?")
        if cu:
            for (x, t) in b.calls():
                if norm(t.get("callee") or "").endswith("::downcast_ref") and t["args"]:
                    if any(y == cu[0][0] for (y, _t) in backward(b, t["args"][0], du, at=(x, "term"), through_calls="all").calls):
                        dc.add(t["substs"][-1] if t.get("substs") else "?")
        if not any("str" in d for d in dc) or not any("String" in d for d in dc):
            why.append("panic payloads are not downcast to both &'static str and String (found %s)" % sorted(dc))
        if why:
            run.fail(rid, fn + "/catch", b.loc(), "%s: %s" % (what, "; ".join(why)))
        else:
            run.ok(rid, fn + "/catch", {"payload_types": sorted(dc)})
    # the message is used unmodified (no slicing / truncation)
    for fn in (sites[0][0], "co_pool::task::Task::run"):
        host = f.body(fn)
        for cb in [c for c in f.bodies if c.kind == "Closure" and c.npath.startswith(fn + "::{closure#")] + ([host] if host is not None else []):
            cdu = DefUse(cb)
            dcs = {x for (x, t) in cb.calls() if norm(t.get("callee") or "").endswith("::downcast_ref")}
            if dcs:
                # slicing / truncation applied to a value that derives from a downcast payload (not any `.get` in the body)
                bad = []
                for (x, t) in cb.calls():
                    c = norm(t.get("callee") or "")
                    if (c.endswith(("Index>::index", "::get", "::truncate", "::split_at", "::chars", "::get_unchecked")) or "SliceIndex" in c or "ops::Range" in c) and t["args"]:
                        if dcs & {y for (y, _t) in backward(cb, t["args"][0], cdu, at=(x, "term"), through_calls="all").calls}:
                            bad.append(c)
                if bad:
                    run.fail(rid, cb.npath + "/message-unmodified", cb.loc(), "the panic message is sliced/truncated before it is reported (%s): long messages are cut and a cut inside a UTF-8 character panics outside catch_unwind" % bad[0], counts_as_instance=False)


def _closures_in(d, out):
    if isinstance(d, tuple):
        if len(d) == 2 and d[0] == "closure":
            out.add(d[1])
        for x in d:
            _closures_in(x, out)
    return out


def caught_region(f, ub, du, cu_term):
    """The bodies that run under one catch_unwind call of the unit `ub`: the closure handed to it, the closures that
    closure captured (a callback passed into a shared helper travels as a captured value) and everything nested in
    them.  Closures are matched by normalised path."""
    roots = _closures_in(describe_val(ub, du, cu_term["args"][0]), set())
    region, work = set(), list(roots)
    while work:
        k = work.pop()
        if k in region:
            continue
        region.add(k)
        # closures captured by k: operands of the aggregate that builds k, wherever in the unit it is built
        for blk in ub.blocks:
            for s_ in blk["stmts"]:
                if s_["k"] == "assign" and s_["rhs"]["k"] == "agg" and norm(s_["rhs"].get("closure") or "") == k:
                    for o in s_["rhs"]["ops"]:
                        for c in _closures_in(describe_val(ub, du, o), set()):
                            work.append(c)
        for cb in f.bodies:
            if cb.kind == "Closure" and cb.npath.startswith(k + "::{closure#"):
                work.append(cb.npath)
    return region


def listener_rule(run, f, rid):
    run.rule(rid, "every listener callback is individually wrapped in catch_unwind (a panicking listener neither unwinds into the runtime nor starves later listeners)", floor=8, template="T2")
    names = ["on_state_changed", "on_ready", "on_running", "on_suspend", "on_syscall", "on_cancel", "on_complete", "on_error"]
    for n in names:
        b = need(run, rid, f, "<%s as coroutine::listener::Listener>::%s" % (CO, n))
        if b is None:
            continue
        b = inl(f, b)          # a shared `for_each_listener(name, |l| l.on_x(..))` helper is part of every broadcast method
        cfg = Cfg(b)
        du = DefUse(b)
        cu = find_calls(b, callee_is("std::panic::catch_unwind"))
        nx = [x for (x, t) in b.calls() if norm(t.get("orig") or "").endswith("Iterator::next")]
        is_l = lambda t: (t.get("trait") or "").endswith("listener::Listener")
        direct = [t for (_x, t) in b.calls() if is_l(t)]
        region = caught_region(f, b, du, cu[0][1]) if len(cu) == 1 else set()
        # every closure reachable from this method that calls a listener, inside or outside the caught region
        mine = set()
        for blk in b.blocks:
            for s_ in blk["stmts"]:
                if s_["k"] == "assign" and s_["rhs"]["k"] == "agg" and s_["rhs"].get("closure"):
                    mine.add(norm(s_["rhs"]["closure"]))
        mine |= {cb.npath for cb in f.bodies if cb.kind == "Closure" and any(cb.npath.startswith(m + "::{closure#") for m in mine)}
        calling = {cb.npath: [norm(t["orig"]).rsplit("::", 1)[1] for (_x, t) in cb.calls() if is_l(t)] for cb in f.bodies if cb.npath in mine | region}
        calling = {k: v for k, v in calling.items() if v}
        inner = [k for k in calling if k in region]
        outside = [k for k in calling if k not in region]
        # being captured by the caught closure is not enough: a listener-calling closure must also not be INVOKED from
        # uncaught code (`notify(*listener)` in a helper body next to the caught call).  Invocation = an Fn/FnMut/FnOnce
        # call whose callee value is that closure, in the unit body or in any closure outside the region
        def invokes_listener_closure(body_, du_):
            hits = []
            for (x_, t_) in body_.calls():
                if norm(t_.get("orig") or "").endswith(("Fn::call", "FnMut::call_mut", "FnOnce::call_once")) and t_["args"] and not t_.get("exp"):
                    if _closures_in(describe_val(body_, du_, t_["args"][0]), set()) & set(calling):
                        hits.append(t_)
            return hits
        uncaught_invocations = invokes_listener_closure(b, du)
        for cb in f.bodies:
            if cb.npath in mine and cb.npath not in region:
                uncaught_invocations += invokes_listener_closure(cb, DefUse(cb))
        why = []
        if direct or outside or uncaught_invocations:
            why.append("a listener is called outside catch_unwind")
        if any(v != [n] for v in calling.values()):
            why.append("the broadcast of %s calls %s" % (n, sorted({x for v in calling.values() for x in v})))
        if len(cu) != 1 or not inner:
            why.append("expected one catch_unwind around the listener call")
        else:
            # catch_unwind sits inside the per-listener loop: it is on a cycle with the iterator's next()
            if not nx or not cfg.in_cycle(cu[0][0]) or not any(cu[0][0] in cfg.reachable(cfg.after(x)) and x in cfg.reachable(cfg.after(cu[0][0])) for x in nx):
                why.append("catch_unwind wraps the whole loop instead of each listener: after one listener panics the remaining listeners miss the event")
            for cb in [c for c in f.bodies if c.npath in region]:
                if any(norm(t.get("orig") or "").endswith("Iterator::next") for (_x, t) in cb.calls()):
                    why.append("the loop over listeners runs inside the caught closure")
        if why:
            run.fail(rid, "broadcast/" + n, b.loc(), "; ".join(sorted(set(why))))
        else:
            run.ok(rid, "broadcast/" + n, "for listener in listeners { catch_unwind(|| listener.%s(..)) }" % n)


def once_rule(run, f, rid):
    run.rule(rid, "the Return arm of raw_resume reports completion or error exactly once", floor=1, template="T1")
    b = need(run, rid, f, CO + "::raw_resume")
    if b is None:
        return
    cfg = Cfg(b)
    cs = find_calls(b, callee_is(CO + "::complete", CO + "::error"))
    ok = len(cs) == 2 and not any(cfg.in_cycle(x) for (x, _t) in cs) and not any(y in cfg.reachable(cfg.after(x)) for (x, _t) in cs for (y, _t2) in cs)
    if ok:
        run.ok(rid, "raw_resume/once", "complete xor error, outside loops")
    else:
        run.fail(rid, "raw_resume/once", b.loc(), "a returning coroutine must be reported by exactly one of complete()/error(), once")


# ------------------------------------------------------------------ C23
def grow_rule(run, f, rid_pair, rid_check, rid_value):
    run.rule(rid_pair, "the stack-segment record pushed before on_stack is popped on normal return and on unwind (RAII guard), on both the coroutine and the thread path", floor=2, template="T1 incl. unwind exits")
    run.rule(rid_check, "the callback runs in place only when remaining >= red_zone measured against the last segment; otherwise a fresh segment is allocated and recorded", floor=2, template="T2/T5")
    run.rule(rid_value, "maybe_grow_with returns the callback's own value", floor=2, template="T5")
    outer = need(run, rid_pair, f, CO + "::maybe_grow_with")
    if outer is None:
        return
    # one unit: the `DefaultStack::new(..).map(|stack| ..)` closures and the thread-local closures are spliced in, so a growth
    # path is an on_stack call SITE of the unit whether the author wrote it in a closure or straight-line after a `?`.
    # Drop impls stay drop terminators (drops=False): the RAII guard is recognised by its type.
    cb = inl(f, outer, drops=False)
    cfgu = Cfg(cb, unwind=True)
    cfg = Cfg(cb)
    du = DefUse(cb)
    sites = find_calls(cb, callee_is("corosensei::on_stack"))
    if len(sites) != 2:
        run.fail(rid_pair, "maybe_grow_with/on_stack-sites", outer.loc(), "expected two growth paths (coroutine, thread) calling corosensei::on_stack, found %d" % len(sites))
    cur = find_calls(cb, callee_is(CO + "::current"))
    co_arm = None
    if cur:
        va = variant_arms(cb, cfg, du, cur[0][1]["dest"]["l"], cfg.after(cur[0][0]))
        co_arm = va[0].get("Some") if va else None

    def pops_in_drop(ty):
        adt = f.nadts.get(ty) or f.nadts.get(ty.split("<")[0])
        if not (adt and adt.get("drop")):
            return False
        db = f.body(norm(adt["drop"]))
        if db is None:
            return False
        fam = [db] + f.closures_of(db) + [c3 for c2 in f.closures_of(db) for c3 in f.closures_of(c2)]
        return any(norm(tt.get("callee") or "") == "std::collections::VecDeque::pop_back" for d in fam for (_y, tt) in d.calls())

    guards = []
    for blk in cb.blocks:
        t = blk["term"]
        if t["k"] == "drop" and pops_in_drop(norm(t["pty"])):
            guards.append(blk["id"])
    for (x, t) in cb.calls():
        if norm(t.get("callee") or "") == "std::mem::drop" and t["args"] and op_local(t["args"][0]) is not None and pops_in_drop(norm(cb.locals[op_local(t["args"][0])])):
            guards.append(x)
    from analysis.flow import ReachingDefs
    rd = ReachingDefs(cb, du)
    ret_slice = backward(cb, 0, du, through_calls="none")
    for os_ in sites:
        path = "coroutine-path" if co_arm is not None and cfg.dominates(co_arm, os_[0]) else "thread-path"
        pushes = [x for (x, t) in cb.calls() if norm(t.get("callee") or "") == "std::collections::VecDeque::push_back"]
        pre = [x for x in pushes if cfg.dominates(x, os_[0])]
        unwind_bb = os_[1].get("unwind")
        # drop flags: value of each boolean flag local at the on_stack call (reaching constant definitions)
        known = {}
        for l in range(len(cb.locals)):
            if cb.locals[l] == "bool" and l in du.defs:
                vals = set()
                for d in rd.reaching(l, os_[0], "term"):
                    if d is not None and d[2] == "assign" and d[3]["rhs"]["k"] == "use" and op_const(d[3]["rhs"]["a"]) is not None:
                        vals.add(op_const(d[3]["rhs"]["a"]))
                    else:
                        vals.add(None)
                if len(vals) == 1 and None not in vals:
                    known[l] = vals.pop()

        def unwind_reach(start):
            seen, work = set(), [start]
            while work:
                x = work.pop()
                if x in seen or x in guards:
                    continue
                seen.add(x)
                t = cb.blocks[x]["term"]
                if t["k"] == "switch" and op_local(t["discr"]) in known and not t["discr"]["p"]["proj"]:
                    v = known[op_local(t["discr"])]
                    tg = [bb for val, bb in t["targets"] if int(val) == v]
                    work.append(tg[0] if tg else t["otherwise"])
                else:
                    work.extend(cfgu.succ[x])
            return seen
        # the guard that protects THIS site: reachable from it (the other path's guard does not count)
        mine = [g for g in guards if g in cfg.reachable(set(cfg.after(os_[0]))) or (isinstance(unwind_bb, int) and g in cfgu.reachable({unwind_bb}))]
        ok_unwind = isinstance(unwind_bb, int) and bool(mine) and not (set(cfgu.resumes) & unwind_reach(unwind_bb))
        ok_normal = bool(mine) and cfg.must_pass(cfg.after(os_[0]), mine)[0]
        key = "%s::maybe_grow_with/%s" % (CO, path)
        if pre and ok_unwind and ok_normal:
            run.ok(rid_pair, key, "push_back -> guard -> on_stack -> guard dropped on return and on unwind")
        else:
            run.fail(rid_pair, key, cb.loc(os_[1]["line"]), "the %s pushes a StackInfo before on_stack but does not pop it on %s: after a caught panic later growth decisions are taken against a freed segment" % (path.replace("-", " "), "unwind" if ok_normal else "every exit"))
        # value: the function's result derives from this on_stack result, with no operation on it
        if any(x == os_[0] for (x, _t) in ret_slice.calls) and not ret_slice.binops():
            run.ok(rid_value, key + "/value", "returns on_stack(stack, callback)")
        else:
            run.fail(rid_value, key + "/value", cb.loc(), "the grown path does not return the callback's value unchanged")
        # recorded segment is the freshly allocated stack: what is pushed before this site is StackInfo::from(&<the stack run on>)
        okrec = False
        for x in pre:
            psl = backward(cb, cb.blocks[x]["term"]["args"][1], du, at=(x, "term"), through_calls="all")
            if any("StackInfo" in norm(tt.get("callee") or "") for (_y, tt) in psl.calls):
                ssl = backward(cb, os_[1]["args"][0], du, at=(os_[0], "term"), through_calls="all")
                alloc = {y for (y, tt) in ssl.calls if norm(tt.get("callee") or "").endswith("DefaultStack::new")}
                if alloc & {y for (y, tt) in psl.calls}:
                    okrec = True
        if okrec:
            run.ok(rid_check, key + "/record-new-segment", "StackInfo::from(&stack) of the new segment")
        else:
            run.fail(rid_check, key + "/record-new-segment", cb.loc(), "the segment recorded is not derived from the freshly allocated stack")
    # in-place decisions: a canonical comparison between the measured remaining stack and the red_zone parameter (parameter 1),
    # however it is spelled (`rem >= red`, `!(rem < red)`, a named `need_grow` bool with swapped arms)
    n = 0
    inplace = [x for (x, tt) in cb.calls() if norm(tt.get("orig") or "").endswith("FnOnce::call_once") and not tt.get("exp") and x not in {s_[0] for s_ in sites}]
    for blk in cb.blocks:
        st = switch_test(cb, du, blk["id"])
        if not st or not isinstance(st[0], tuple) or st[0][0] != "cmp" or st[0][1] not in ("Lt", "Le"):
            continue
        (_c, op, a, c), holds, fails = st
        is_red = lambda v: isinstance(v, tuple) and len(v) >= 2 and v[0] == "param" and v[1] == 1
        is_rem = lambda v: ("remaining_stack" in repr(v) or "stack_bottom" in repr(v)) and not is_red(v)
        enough = None
        if is_red(a) and is_rem(c):          # red_zone < / <= remaining: enough on the edge where it holds
            enough = holds
        elif is_rem(a) and is_red(c):        # remaining < / <= red_zone: enough (or strictly more) on the edge where it fails
            enough = fails if op == "Lt" else None
            if op == "Le":
                enough = fails               # remaining > red_zone: stricter than required, still only-with-room
        if enough is None or holds == fails:
            continue
        n += 1
        key = "%s::maybe_grow_with/in-place-test#%d" % (CO, n)
        if any(cfg.dominates(enough, x) for x in inplace) and not any(cfg.dominates(holds if enough == fails else fails, x) for x in inplace):
            run.ok(rid_check, key, "callback() in place only under remaining >= red_zone")
        else:
            run.fail(rid_check, key, outer.loc(blk["term"]["line"]), "the in-place fast path is not guarded by remaining >= red_zone")
    if n < 2:
        run.fail(rid_check, "%s::maybe_grow_with/in-place-tests" % CO, outer.loc(), "expected two remaining>=red_zone tests (coroutine path, thread path), found %d" % n, counts_as_instance=False)
    b = need(run, rid_check, f, CO + "::remaining_stack")
    if b is not None:
        du = DefUse(b)
        sl = backward(b, 0, du)
        cs = {norm(t.get("callee") or "") for (_x, t) in sl.calls}
        if any(c.endswith("::back") for c in cs) and "psm::stack_pointer" in cs and "stack_bottom" in sl.fields and set(sl.binops()) <= {"Sub", "SubWithOverflow"}:
            run.ok(rid_check, CO + "::remaining_stack", "sp - stack_infos.back().stack_bottom")
        else:
            run.fail(rid_check, CO + "::remaining_stack", b.loc(), "remaining stack must be measured from the current stack pointer to the bottom of the LAST segment")


# ------------------------------------------------------------------ C24
def _type_params(body):
    """Names of the type parameters of the impl a body belongs to (`Coroutine<'c, Param, Yield, Return>::f` -> Param, Yield, Return)."""
    import re
    m = re.search(r"<([^<>]*)>", body.path)
    return [x.strip() for x in (m.group(1).split(",") if m else []) if x.strip() and not x.strip().startswith("'")]


def _type_independent(run, rid, f, h):
    """The signal disposition is process-wide and set once: the installed function is ONE instance of the generic handler
    and runs for faults of coroutines of every type.  So the handler itself may touch the current coroutine only in ways
    that do not depend on the type parameters: take its address and read the `trap` slot.  A call of a method of the
    coroutine type, or a read of any other field, is done with the layout of the wrong instance."""
    import re
    tps = _type_params(h)
    pat = re.compile(r"\b(%s)\b" % "|".join(map(re.escape, tps))) if tps else None
    PURE = (CO + "::current", "std::ptr::from_ref", "*const T::cast", "std::ptr::from_mut", "*mut T::cast")
    bad = []
    for body in [h] + list(f.closures_of(h)):
        bdu = DefUse(body)
        curs = {x for (x, t) in body.calls() if norm(t.get("callee") or "") == CO + "::current"}
        for (x, t) in body.calls():
            full = t.get("callee_full") or ""
            if pat and pat.search(full) and norm(t.get("callee") or "") not in PURE:
                # an instance of a generic helper is harmless as long as it is not handed the current coroutine (a helper
                # that reads the stack pointer out of the context does not care which instance it is)
                gets_co = body is not h or any(any(y in curs for (y, _t) in backward(body, a, bdu, at=(x, "term"), through_calls="all").calls) for a in t["args"])
                if gets_co:
                    bad.append("calls %s (line %s)" % (norm(t.get("callee") or ""), t.get("line")))
        for blk in body.blocks:
            for s_ in blk["stmts"]:
                if s_["k"] != "assign":
                    continue
                places = [s_["lhs"]] + [o["p"] for o in ([s_["rhs"].get("a")] if isinstance(s_["rhs"].get("a"), dict) else []) + list(s_["rhs"].get("ops") or []) if isinstance(o, dict) and o.get("k") in ("copy", "move")] + ([s_["rhs"]["p"]] if isinstance(s_["rhs"].get("p"), dict) else [])
                for pl in places:
                    for e in pl.get("proj", []):
                        if isinstance(e, dict) and "f" in e and norm(e.get("of") or "") == CO and e["f"] != "trap":
                            bad.append("reads field `%s` (line %s)" % (e["f"], s_.get("line")))
    if not tps:
        run.ok(rid, CO + "::trap_handler/any-coroutine-type", "the handler is not generic")
    elif bad:
        run.fail(rid, CO + "::trap_handler/any-coroutine-type", h.loc(), "the trap handler is installed once per process as the instance of the first coroutine type resumed, yet it %s: for a fault in a coroutine of another type this uses the wrong layout and the wrong Result type (the fault is not reported as an error)" % "; ".join(sorted(set(bad))[:4]))
    else:
        run.ok(rid, CO + "::trap_handler/any-coroutine-type", {"type_params": tps, "touches": "address and `trap` slot only"})


def _slot_part(run, rid, f, h, hdu, slot):
    """The per-type part behind the `trap` slot: the function every constructor of the coroutine stores there.  The slot is
    read through a reference of possibly another instance of the type, so its offset must not depend on the type
    parameters: #[repr(C)] and only parameter-free fields in front of it; nothing but the constructor writes it."""
    import re
    key = CO + "::trap_handler/trap-slot"
    adt = f.nadts.get(CO) or {}
    tps = _type_params(h)
    why = []
    flds = (adt.get("variants") or [{}])[0].get("fields") or []
    names = [x["name"] for x in flds]
    if "trap" not in names:
        why.append("the coroutine has no `trap` field")
    else:
        if adt.get("repr_c") is not True:
            why.append("the coroutine type is not #[repr(C)]: the offset of `trap` may differ between instances")
        pat = re.compile(r"\b(%s)\b" % "|".join(map(re.escape, tps))) if tps else None
        dep = [x["name"] for x in flds[:names.index("trap")] if pat and pat.search(x["ty"])]
        if dep:
            why.append("field(s) %s in front of `trap` depend on the type parameters" % dep)
    if len(slot) != 1:
        why.append("the handler calls through the slot %d times" % len(slot))
    # who stores what
    stored, writers = set(), set()
    for body in f.bodies:
        if body.kind == "Promoted":
            continue
        du = None
        for blk in body.blocks:
            for i, s_ in enumerate(blk["stmts"]):
                if s_["k"] != "assign":
                    continue
                if s_["rhs"]["k"] == "agg" and norm(s_["rhs"].get("adt") or "") == CO and "trap" in (s_["rhs"].get("fields") or []):
                    du = du or DefUse(body)
                    d = describe_val(body, du, s_["rhs"]["ops"][s_["rhs"]["fields"].index("trap")])
                    while d and d[0] == "cast":
                        d = d[2]          # the fn item reified to a pointer
                    stored.add(norm(d[1]) if d and d[0] == "fn" else repr(d)[:80])
                    writers.add(body.npath)
                for e in s_["lhs"].get("proj", []):
                    if isinstance(e, dict) and e.get("f") == "trap" and norm(e.get("of") or "") == CO:
                        writers.add(body.npath + " (assignment)")
    part = None
    if len(stored) != 1:
        why.append("the constructors store %s in the slot" % (sorted(stored) or "nothing"))
    else:
        nm = next(iter(stored))
        c = [x for x in f.bodies if x.npath == nm and x.kind != "Promoted"]
        part = c[0] if c else None
        if part is None or not nm.startswith(CO + "::"):
            why.append("the slot holds %s, which is not a function of the coroutine type itself" % nm)
            part = None
    if any("(assignment)" in w for w in writers):
        why.append("the slot is reassigned after construction by %s" % sorted(w for w in writers if "(assignment)" in w))
    if why:
        run.fail(rid, key, h.loc(), "; ".join(why))
    else:
        run.ok(rid, key, {"per_type_part": part.npath, "stored_by": sorted(writers)})
    return part


def trap_rule(run, f, rid_msg, rid_install):
    run.rule(rid_msg, "the fault message is 'invalid memory reference' iff the faulting stack pointer is inside a stack segment of the coroutine, else 'stack overflow'", floor=3, template="T6/T5")
    run.rule(rid_install, "the trap handler is installed before the coroutine runs, for SIGSEGV and SIGBUS, on the alternate stack, and only redirects when a coroutine is current", floor=3, template="T3/T2")
    h = need(run, rid_msg, f, CO + "::trap_handler")
    b = None
    if h is not None:
        # The handler is installed once per process, as the instance of whichever coroutine type is resumed first, and
        # then serves faults of coroutines of EVERY type.  Whatever depends on the type parameters (the layout behind
        # stack_ptr_in_bounds, the Result<Return, &str> the redirect produces) therefore lives in a per-type part that the
        # handler reaches through the faulting coroutine's own `trap` slot.  `b` is the body that consults
        # stack_ptr_in_bounds: that part, or -- in a tree without the slot -- the handler itself.
        hcfg = Cfg(h)
        hdu = DefUse(h)
        cur = find_calls(h, callee_is(CO + "::current"))
        slot = [(x, t) for (x, t) in h.calls() if t.get("callee") is None and t.get("fnptr") is not None and field_chain(h, hdu, t["fnptr"])[-1:] == ["trap"]]
        _type_independent(run, rid_install, f, h)
        if slot:
            b = _slot_part(run, rid_install, f, h, hdu, slot)
        else:
            b = h
    if b is not None:
        cfg = Cfg(b)
        du = DefUse(b)
        ib = find_calls(b, callee_is(CO + "::stack_ptr_in_bounds"))
        st = find_calls(b, callee_ends("::setup_trap_handler"))
        why = []
        if len(ib) != 1:
            why.append("stack_ptr_in_bounds is not consulted exactly once")
        else:
            if b is h:
                sp = repr(describe_val(b, du, ib[0][1]["args"][1]))
            else:
                # the per-type part tests its own address argument, on its own coroutine argument; the handler passes the
                # context's stack-pointer register and the current coroutine
                sl_ = backward(b, ib[0][1]["args"][1], du, at=(ib[0][0], "term"), through_calls="none")
                rc_ = backward(b, ib[0][1]["args"][0], du, at=(ib[0][0], "term"))
                if {p_ for p_ in sl_.params} != {2} or sl_.binops() or {p_ for p_ in rc_.params} != {1}:
                    why.append("the per-type part must test the address it is given, on the coroutine it is given")
                sp = repr(describe_val(h, hdu, slot[0][1]["args"][1]))
                who = backward(h, slot[0][1]["args"][0], hdu, at=(slot[0][0], "term"))
                if not cur or not any(x == cur[0][0] for (x, _t) in who.calls):
                    why.append("the coroutine handed to the per-type part is not the thread's current coroutine")
            if "gregs" not in sp or "'15'" not in sp:
                why.append("the tested address is not read from the context's stack-pointer register (%s)" % sp[:120])
            # closure captures the boolean; messages
            cl = [c for c in f.closures_of(b)]
            msgs = {}
            # (a) the message chosen in the handler itself or in a helper spliced into it (`trap_message(in_bounds)`):
            #     a bool switch on the in-bounds answer whose arms load the two texts
            ub = inl(f, b)
            udu = DefUse(ub)
            uib = find_calls(ub, callee_is(CO + "::stack_ptr_in_bounds"))
            direct = False
            n_ex = n_und = 0
            if len(uib) == 1:
                from analysis.table import PathWalker as _PW, outcome_on_path as _oop
                for (pth, _c, sv) in _PW(ub).walk(0, lambda bid, t: ("return",) if t["k"] == "return" else None):
                    val = _oop(ub, udu, pth, uib[0][0])
                    if val is None:
                        if uib[0][0] in pth:
                            n_und += 1
                        continue
                    n_ex += 1
                    for x in pth:
                        for s_ in ub.blocks[x]["stmts"]:
                            if s_["k"] == "assign" and s_["rhs"]["k"] == "use" and s_["rhs"]["a"]["k"] == "const" and isinstance(s_["rhs"]["a"].get("dbg"), str) and ("invalid memory reference" in s_["rhs"]["a"]["dbg"] or "stack overflow" in s_["rhs"]["a"]["dbg"]):
                                msgs["other" if val else "0"] = s_["rhs"]["a"]["dbg"]
                                direct = True
            # accounting applies to the direct form only: when the handler itself never branches on the answer (the message
            # is chosen in the closure on the captured flag) the structural closure check below judges it, and that check
            # has no path it could skip
            if len(uib) == 1 and direct:
                run.paths(rid_msg, CO + "::trap_handler/message", b.loc(), n_ex, 0, n_und)
                if n_und:
                    why.append("on %d path(s) through stack_ptr_in_bounds its answer could not be read off the path: the message chosen there was not judged" % n_und)
            # (b) the message chosen in the closure handed to the redirect, on what it captured: two stages composed.
            #     Stage 1, this body: along each path to the closure's construction, the in-bounds answer and what the
            #     captured value is (the answer itself, or a constant / enum variant chosen on it).  Stage 2, the closure with
            #     its helpers spliced in: along each path, what it tests about its capture and which text it loads.
            composed = False
            if not direct and len(uib) == 1:
                from analysis.table import value_on_path as _vop
                aggs = [(blk["id"], s_) for blk in ub.blocks for s_ in blk["stmts"] if s_["k"] == "assign" and s_["rhs"]["k"] == "agg" and "closure" in s_["rhs"] and len(s_["rhs"]["ops"]) == 1]
                cbody = [c for c in cl if aggs and c.npath == norm(aggs[0][1]["rhs"]["closure"])]
                if len(aggs) == 1 and len(cbody) == 1 and cbody[0].argc == 1:
                    ab, as_ = aggs[0]
                    tags = {True: set(), False: set()}
                    und = 0
                    for (pth, _c, sv) in _PW(ub).walk(0, lambda bid, t: ("agg",) if bid == ab else None):
                        if sv[0] != "agg":
                            continue
                        val = _oop(ub, udu, pth, uib[0][0])
                        cap = _vop(ub, pth, local=as_["rhs"]["ops"][0]["p"]["l"])
                        if cap and cap[0] == "call" and norm(cap[1] or "").endswith("::stack_ptr_in_bounds") and val is None:
                            # the answer itself is captured and this body never branches on it
                            tags[True].add(("bool", True))
                            tags[False].add(("bool", False))
                        elif val is None or not cap:
                            und += 1
                        elif cap[0] == "agg":
                            tags[val].add(("variant", cap[2]))
                        elif cap[0] == "const":
                            tags[val].add(("const", str(cap[1])))
                        elif cap[0] == "call" and norm(cap[1] or "").endswith("::stack_ptr_in_bounds"):
                            tags[val].add(("bool", val))
                        else:
                            und += 1
                    uc = inl(f, cbody[0])
                    cpaths = []
                    for (pth, conds, sv) in _PW(uc).walk(0, lambda bid, t: ("return",) if t["k"] == "return" else None):
                        if sv[0] != "return":
                            continue
                        m_ = None
                        for x in pth:
                            for s_ in uc.blocks[x]["stmts"]:
                                if s_["k"] == "assign" and s_["rhs"]["k"] == "use" and s_["rhs"]["a"]["k"] == "const" and isinstance(s_["rhs"]["a"].get("dbg"), str) and ("invalid memory reference" in s_["rhs"]["a"]["dbg"] or "stack overflow" in s_["rhs"]["a"]["dbg"]):
                                    m_ = s_["rhs"]["a"]["dbg"]
                        cpaths.append((conds, m_))

                    def consistent(tag, conds):
                        for cd in conds:
                            if cd[0] == "variant" and tag[0] == "variant" and tag[1] not in cd[2]:
                                return False
                            if cd[0] == "bool" and tag[0] == "bool" and cd[2] != tag[1]:
                                return False
                            if cd[0] == "bool" and tag[0] == "const" and cd[2] != (tag[1] not in ("0", "false")):
                                return False
                        return True
                    res = {}
                    for val in (True, False):
                        res[val] = {m_ for tg in tags[val] for (conds, m_) in cpaths if consistent(tg, conds)}
                    if not und and all(tags[v] for v in (True, False)) and all(len(res[v]) == 1 and None not in res[v] for v in (True, False)):
                        composed = True
                        msgs["other"], msgs["0"] = next(iter(res[True])), next(iter(res[False]))
            for c in ([] if (direct or composed) else cl):
                d2 = DefUse(c)
                for blk in c.blocks:
                    if blk["term"]["k"] == "switch":
                        tt = blk["term"]
                        for v, bb in tt["targets"] + [["other", tt["otherwise"]]]:
                            for s in c.blocks[bb]["stmts"]:
                                if s["k"] == "assign" and s["rhs"]["k"] == "use" and s["rhs"]["a"]["k"] == "const" and "dbg" in s["rhs"]["a"]:
                                    msgs[str(v)] = s["rhs"]["a"]["dbg"]
                sw = [blk for blk in c.blocks if blk["term"]["k"] == "switch"]
            t_msg = msgs.get("other", msgs.get("1"))
            f_msg = msgs.get("0")
            if not (t_msg and "invalid memory reference" in t_msg and f_msg and "stack overflow" in f_msg):
                why.append("in-bounds must map to \"invalid memory reference\" and out-of-bounds to \"stack overflow\" (found true->%s false->%s)" % (t_msg, f_msg))
            # the captured flag is the result of stack_ptr_in_bounds
            for blk in ([] if (direct or composed) else b.blocks):
                for i, s in enumerate(blk["stmts"]):
                    if s["k"] == "assign" and s["rhs"]["k"] == "agg" and "closure" in s["rhs"]:
                        for o in s["rhs"]["ops"]:
                            sl = backward(b, o, du, at=(blk["id"], i), through_calls="none")
                            if not any(x == ib[0][0] for (x, _t) in sl.calls):
                                why.append("the message closure does not capture the result of stack_ptr_in_bounds")
        red = st if b is h else slot      # what redirects, seen from the handler
        if not cur or not st or not red or not all(any(hcfg.dominates(variant_arms(h, hcfg, hdu, c[1]["dest"]["l"], hcfg.after(c[0]))[0].get("Some", -1), s[0]) for c in cur if variant_arms(h, hcfg, hdu, c[1]["dest"]["l"], hcfg.after(c[0]))) for s in red):
            why.append("the context is rewritten although no coroutine is current")
        if b is not h and st:
            rc_ = backward(b, st[0][1]["args"][0], du, at=(st[0][0], "term"))
            if {p_ for p_ in rc_.params} != {1} or "inner" not in rc_.fields:
                why.append("the redirect is not set up on the given coroutine's own inner context")
        if why:
            run.fail(rid_msg, CO + "::trap_handler/message", b.loc(), "; ".join(why))
        else:
            run.ok(rid_msg, CO + "::trap_handler/message", "in_bounds(sp) -> invalid memory reference, else stack overflow; redirect only with a current coroutine")
        # same register is written back
        wr = set()
        b = h
        for blk in b.blocks:
            for s in blk["stmts"]:
                if s["k"] == "assign" and s["lhs"]["proj"] and "gregs" in repr(s["lhs"]):
                    wr.add(1)
        if wr:
            run.ok(rid_msg, CO + "::trap_handler/writes-context", "context registers rewritten from TrapHandlerRegs")
        else:
            run.fail(rid_msg, CO + "::trap_handler/writes-context", b.loc(), "the handler no longer rewrites the interrupted context")
    b = unit(run, rid_msg, f, CO + "::stack_ptr_in_bounds")     # `iter().any(|info| ..)` is the same loop
    if b is not None:
        du = DefUse(b)
        cfg = Cfg(b)
        cmps = []
        for blk in b.blocks:
            for s in blk["stmts"]:
                if s["k"] == "assign" and s["rhs"]["k"] == "binop" and s["rhs"]["op"] in ("Le", "Lt", "Ge", "Gt"):
                    a, c = repr(describe_val(b, du, s["rhs"]["a"])), repr(describe_val(b, du, s["rhs"]["b"]))
                    cmps.append((s["rhs"]["op"], "stack_bottom" if "stack_bottom" in a else "stack_top" if "stack_top" in a else "ptr" if "stack_ptr" in a else a[:30],
                                 "stack_bottom" if "stack_bottom" in c else "stack_top" if "stack_top" in c else "ptr" if "stack_ptr" in c else c[:30]))
        want = {("Le", "stack_bottom", "ptr"), ("Lt", "ptr", "stack_top")}
        alt = {("Ge", "ptr", "stack_bottom"), ("Gt", "stack_top", "ptr")}
        norm_c = set()
        for (op, a, c) in cmps:
            if (op, a, c) in alt:
                m = {("Ge", "ptr", "stack_bottom"): ("Le", "stack_bottom", "ptr"), ("Gt", "stack_top", "ptr"): ("Lt", "ptr", "stack_top")}[(op, a, c)]
                norm_c.add(m)
            else:
                norm_c.add((op, a, c))
        loops = any(norm(t.get("orig") or "").endswith("Iterator::next") for (_x, t) in b.calls())
        over = any("stack_infos" in norm(t.get("callee") or "") for (_x, t) in b.calls()) or any("stack_infos" in repr(s_) for blk in b.blocks for s_ in blk["stmts"])
        if norm_c == want and loops and over:
            run.ok(rid_msg, CO + "::stack_ptr_in_bounds", "exists segment: stack_bottom <= sp < stack_top")
        else:
            run.fail(rid_msg, CO + "::stack_ptr_in_bounds", b.loc(), "in-bounds must mean `stack_bottom <= sp && sp < stack_top` for some segment of the coroutine (comparisons found: %s)" % sorted(cmps))
    b = need(run, rid_install, f, CO + "::raw_resume")
    if b is not None:
        cfg = Cfg(b)
        st = find_calls(b, callee_is(CO + "::setup_trap_handler"))
        res = find_calls(b, callee_is("corosensei::Coroutine::resume"))
        if st and res and cfg.dominates(st[0][0], res[0][0]):
            run.ok(rid_install, "raw_resume/install-first", "setup_trap_handler() dominates inner.resume")
        else:
            run.fail(rid_install, "raw_resume/install-first", b.loc(), "the trap handler is not installed before the coroutine is resumed")
    b = need(run, rid_install, f, CO + "::setup_trap_handler")
    if b is not None:
        du = DefUse(b)
        sa = find_calls(b, callee_is("nix::sys::signal::sigaction"))
        sigs = set()
        for (x, t) in sa:
            d = repr(describe_val(b, du, t["args"][0]))
            for s in ("SIGSEGV", "SIGBUS"):
                if s in d:
                    sigs.add(s)
        new = find_calls(b, callee_is("nix::sys::signal::SigAction::new"))
        flags = repr(describe_val(b, du, new[0][1]["args"][1])) if new else ""
        handler = repr(describe_val(b, du, new[0][1]["args"][0])) if new else ""
        ok = sigs == {"SIGSEGV", "SIGBUS"} and "SA_ONSTACK" in flags and "trap_handler" in handler
        if ok:
            run.ok(rid_install, CO + "::setup_trap_handler", "sigaction(SIGSEGV|SIGBUS, trap_handler, SA_ONSTACK)")
        else:
            run.fail(rid_install, CO + "::setup_trap_handler", b.loc(), "the handler must be installed for SIGSEGV and SIGBUS with SA_ONSTACK and point to trap_handler (signals %s, flags %s)" % (sorted(sigs), flags[:80]))
        cx = find_calls(b, callee_ends("::compare_exchange"))
        if cx:
            run.ok(rid_install, CO + "::setup_trap_handler/once", "guarded by an atomic compare_exchange")
        else:
            run.fail(rid_install, CO + "::setup_trap_handler/once", b.loc(), "installation is not guarded by an atomic once-flag")


# ------------------------------------------------------------------ C25
def local_rule(run, f, rid_private, rid_map, rid_release):
    L = "coroutine::local::CoroutineLocal"
    run.rule(rid_private, "the storage map is reachable only through put/get/get_mut/remove of the coroutine's own CoroutineLocal", floor=2, template="T9/T5")
    run.rule(rid_map, "put returns the displaced value, get reads the latest, remove returns and deletes", floor=3, template="T5")
    run.rule(rid_release, "every value leaked into the map is re-boxed on overwrite, on remove and when the map is destroyed", floor=3, template="T1 on ownership")
    adt = f.nadts.get(L)
    if not adt:
        run.missing(rid_private, L)
        return
    # who touches field 0 of CoroutineLocal
    touch = set()
    for b in f.bodies:
        if b.kind == "Promoted":
            continue
        txt = None
        for blk in b.blocks:
            for s in blk["stmts"]:
                if s["k"] == "assign":
                    for pl in [s["lhs"]] + [x for x in ([s["rhs"].get("p")] if s["rhs"].get("p") else [])] + [o["p"] for o in (s["rhs"].get("ops") or []) + ([s["rhs"]["a"]] if s["rhs"].get("a") else []) + ([s["rhs"]["b"]] if s["rhs"].get("b") else []) if o.get("k") in ("copy", "move")]:
                        for e in pl["proj"]:
                            if isinstance(e, dict) and "f" in e and norm(e.get("of") or "") == L:
                                touch.add(b.npath)
    allowed = {L + "::put", L + "::get", L + "::get_mut", L + "::remove", "<%s as std::fmt::Debug>::fmt" % L, "<%s as std::default::Default>::default" % L, "<%s as std::clone::Clone>::clone" % L, "<%s as std::ops::Drop>::drop" % L}
    extra = {t for t in touch if t not in allowed and not t.startswith(L + "::")}
    if not extra:
        run.ok(rid_private, L + "/accessors", sorted(touch))
    else:
        run.fail(rid_private, L + "/accessors", "core/src/coroutine/local.rs", "the storage map is accessed outside CoroutineLocal's own methods: %s" % sorted(extra))
    b = need(run, rid_private, f, "<%s as std::ops::Deref>::deref" % CO)
    if b is not None:
        du = DefUse(b)
        sl = backward(b, 0, du)
        if sl.fields == {"local"} and not sl.calls:
            run.ok(rid_private, CO + "/deref", "&self.local")
        else:
            run.fail(rid_private, CO + "/deref", b.loc(), "Coroutine::deref must return the coroutine's own local storage")
    cn = need(run, rid_private, f, CO + "::new")
    if cn is not None:
        du = DefUse(cn)
        fresh = False
        for blk in cn.blocks:
            for s in blk["stmts"]:
                if s["k"] == "assign" and s["rhs"]["k"] == "agg" and norm(s["rhs"].get("adt") or "") == CO:
                    idx = s["rhs"]["fields"].index("local")
                    d = describe_val(cn, du, s["rhs"]["ops"][idx])
                    fresh = d[0] == "call" and "Default" in d[1] and "CoroutineLocal" in d[1]
        if fresh:
            run.ok(rid_private, CO + "::new/fresh-local", "local: CoroutineLocal::default()")
        else:
            run.fail(rid_private, CO + "::new/fresh-local", cn.loc(), "a new coroutine must start with a fresh, private CoroutineLocal")
    # the coroutine is the thread's current one exactly while it runs: init_current is undone on every exit of resume_with
    rb = need(run, rid_private, f, CO + "::resume_with")
    if rb is not None:
        cfg = Cfg(rb)
        ic = [x for (x, t) in find_calls(rb, callee_is(CO + "::init_current"))]
        cc = [x for (x, t) in find_calls(rb, callee_is(CO + "::clean_current"))]
        ok = len(ic) == 1 and cc and cfg.must_pass(cfg.after(ic[0]), cc)[0]
        if ok:
            run.ok(rid_private, CO + "::resume_with/current-paired", "init_current ... clean_current on every path to return")
        else:
            run.fail(rid_private, CO + "::resume_with/current-paired", rb.loc(), "resume_with can return while the coroutine is still registered as the thread's current coroutine: Coroutine::current() (and through it the local storage) then reaches a coroutine that is not running")
    # map-like
    for fn, leak, reb in ((L + "::put", True, True), (L + "::remove", False, True), (L + "::get", False, False)):
        b = need(run, rid_map, f, fn)
        if b is None:
            continue
        calls = [norm(t.get("callee") or "") for c in family(f, b) for (_x, t) in c.calls()]      # incl. a `take_back` style helper
        has_leak = any(c.endswith("Box::leak") or c.endswith("Box::into_raw") for c in calls)
        has_from_raw = any(c.endswith("Box::from_raw") for c in calls)
        mapop = {"put": "::insert", "remove": "::remove", "get": "::get"}[fn.rsplit("::", 1)[1]]
        has_op = any(c.startswith(("std::collections::HashMap", "dashmap::DashMap")) and c.endswith(mapop) for c in calls)
        ok = has_op and (has_leak or not leak) and (has_from_raw or not reb)
        if ok:
            run.ok(rid_map, fn, {"map_op": mapop, "leaks": has_leak, "reboxes": has_from_raw})
        else:
            run.fail(rid_map, fn, b.loc(), "%s must %s%s%s" % (fn.rsplit("::", 1)[1], "use the map's %s" % mapop, ", leak the new value" if leak else "", ", re-box (and return) the displaced value" if reb else ""))
    # release on destruction
    for fn in (L + "::put", L + "::remove"):
        b = f.body(fn)
        if b is None:
            continue
        calls = [norm(t.get("callee") or "") for c in family(f, b) for (_x, t) in c.calls()]
        if any(c.endswith("Box::from_raw") for c in calls):
            run.ok(rid_release, fn + "/rebox", "displaced pointer is re-boxed")
        else:
            run.fail(rid_release, fn + "/rebox", b.loc(), "a pointer displaced from the map is not turned back into a Box (leak)")
    if adt.get("drop"):
        db = f.body(norm(adt["drop"]))
        calls = [norm(t.get("callee") or "") for c in ([db] + f.closures_of(db) if db else []) for (_x, t) in c.calls()]
        if any(c.endswith("Box::from_raw") or c.endswith("drop_in_place") for c in calls):
            run.ok(rid_release, L + "/drop", "Drop releases the stored values")
        else:
            run.fail(rid_release, L + "/drop-does-not-release", "core/src/coroutine/local.rs", "CoroutineLocal has a Drop impl that does not release the stored values")
    else:
        run.fail(rid_release, L + "/no-drop-impl", "core/src/coroutine/local.rs",
                 "values are stored as leaked, type-erased pointers (Box::leak -> usize) and CoroutineLocal has no Drop impl: values still stored when the coroutine is dropped are never dropped, although docs/en/coroutine.md promises they are")
