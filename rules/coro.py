def drain_rule(run, f, rid): pass
