"""C07 — Coroutine lifecycle follows the documented state machine (exhaustive finite table)."""
from analysis.facts import norm
from analysis.flow import DefUse, find_calls, callee_ends, op_local
from analysis.table import PathWalker, describe_val, is_eq_call
from analysis.cfg import Cfg
from rules.common import start, need
from rules import wave2, wave3, coro

ST = "common::constants::CoroutineState"
FNS = ["ready", "running", "suspend", "syscall", "cancel", "complete", "error"]
BASE = ["Ready", "Running", "Suspend", "Syscall", "Cancelled", "Complete", "Error"]
SUB = ["Executing", "Suspend", "Callback", "Timeout"]


def atoms():
    out = []
    for v in BASE:
        if v == "Suspend":
            out += [("Suspend", due, None, None) for due in (True, False)]
        elif v == "Syscall":
            out += [("Syscall", None, s, same) for s in SUB for same in (True, False)]
        else:
            out.append((v, None, None, None))
    return out


def oracle(fn, atom):
    v, due, sub, same = atom
    if fn == "ready":
        if v == "Ready":
            return ("ok",)
        if v == "Suspend" and due:
            return ("change", "Ready")
        return ("err",)
    if fn == "running":
        if v == "Running":
            return ("ok",)
        if v == "Ready":
            return ("change", "Running")
        if v == "Suspend" and due:
            return ("change", "Running")
        if v == "Syscall" and sub == "Executing":
            return ("change", "Running")
        if v == "Syscall" and sub in ("Callback", "Timeout"):
            return ("ok",)
        return ("err",)
    if fn == "syscall":
        if v == "Running":
            return ("change", "Syscall")
        if v == "Syscall" and same:
            return ("change", "Syscall")
        return ("err",)
    tgt = {"suspend": "Suspend", "cancel": "Cancelled", "complete": "Complete", "error": "Error"}[fn]
    if v == "Running":
        return ("change", tgt)
    return ("err",)


def contains(d, needle):
    """Does the nested description tuple contain the string needle somewhere?"""
    if isinstance(d, str):
        return needle in d
    if isinstance(d, (tuple, list)):
        return any(contains(x, needle) for x in d)
    return False


def find_agg(d, adt):
    if isinstance(d, tuple):
        if len(d) >= 3 and d[0] == "agg" and d[1] == adt:
            return d
        for x in d:
            r = find_agg(x, adt)
            if r:
                return r
    return None


def is_now(d):
    return isinstance(d, tuple) and d[0] == "call" and d[1] == "common::now"


def reads_state(d):
    """The description mentions a read of this coroutine's state cell: `self.state()` or `self.state.get()`."""
    return contains(d, "Coroutine::state") or (contains(d, "cell::Cell::get") and contains(d, ".state"))


def interpret(conds):
    """-> (constraint dict, unknown list). constraint: variants(set) due same sub(set)"""
    c = {"variants": set(BASE), "due": None, "same": None, "sub": set(SUB)}
    unknown = []
    for cd in conds:
        if cd[0] == "variant":
            place, names = cd[1], set(cd[2])
            if "@Syscall" in place:
                c["sub"] &= names
            else:
                c["variants"] &= names
        elif cd[0] == "bool":
            d, val = cd[1], cd[2]
            if d[0] == "cmp" and d[1] in ("Le", "Ge", "Lt", "Gt"):
                a, b = d[2], d[3]
                ts_a, ts_b = contains(a, "@Suspend.1"), contains(b, "@Suspend.1")
                if ts_a and is_now(b):
                    due = {"Le": True, "Gt": False}.get(d[1])
                elif ts_b and is_now(a):
                    due = {"Ge": True, "Lt": False}.get(d[1])
                else:
                    due = None
                if due is None:
                    unknown.append(cd)
                else:
                    c["due"] = (due == val)
                    c["variants"] &= {"Suspend"}
            elif is_eq_call(d) and find_agg(d[2], ST):
                ag = find_agg(d[2], ST)
                if ag and reads_state(d[2]):
                    if val:
                        c["variants"] &= {ag[2]}
                    else:
                        c["variants"] -= {ag[2]}
                else:
                    unknown.append(cd)
            elif is_eq_call(d) and (d[1].startswith("<common::constants::SyscallName as ") or any(contains(x, "@Syscall.1") for x in d[2])):
                args = d[2]
                stored = any(contains(x, "@Syscall.1") for x in args)
                req = any(contains(x, "syscall") and contains(x, "param") for x in args)
                if stored and req:
                    c["same"] = val
                    c["variants"] &= {"Syscall"}
                else:
                    unknown.append(cd)
            else:
                unknown.append(cd)
        else:
            unknown.append(cd)
    return c, unknown


def matches(c, atom):
    v, due, sub, same = atom
    if v not in c["variants"]:
        return False
    if v == "Suspend" and c["due"] is not None and c["due"] != due:
        return False
    if v == "Syscall":
        if sub not in c["sub"]:
            return False
        if c["same"] is not None and c["same"] != same:
            return False
    return True


def ret_variant(body, path):
    """Variant of the io::Result the function returns along the path: "Ok" / "Err" when it was built as such (directly or
    in a helper whose result is handed on), "Err" for `?`'s from_residual, "call:<callee>" when it is another call's result."""
    from analysis.table import value_on_path
    v = value_on_path(body, path, 0)
    if v is None:
        return None
    if v[0] == "agg" and v[1].endswith("result::Result"):
        return v[2]
    if v[0] == "call":
        return "Err" if v[1].endswith("FromResidual>::from_residual") else "call:" + v[1]
    return None


def table_rule(run, f):
    rid = run.rule("C07-TABLE", "guarded transition functions: extracted (function, state, guard) -> action table equals the documented graph", floor=7 * 15, template="T6")
    cb_rid = run.rule("C07-REPORT-ONCE", "each transition reports change_state once, then its own callback once, and returns Ok; callbacks broadcast to the same-named listener method", floor=7 + 8 + 1, template="T1/T5")
    expect_cb = {"ready": "on_ready", "running": "on_running", "suspend": "on_suspend", "syscall": "on_syscall", "cancel": "on_cancel", "complete": "on_complete", "error": "on_error"}
    expect_args = {"suspend": [2, 3], "syscall": [2, 3, 4], "complete": [2], "error": [2], "ready": [], "running": [], "cancel": []}
    for fn in FNS:
        b = need(run, rid, f, "coroutine::korosensei::Coroutine::" + fn)
        if b is None:
            continue
        w = PathWalker(b)

        def stop(bid, t):
            if t["k"] == "call" and norm(t.get("callee") or "").endswith("Coroutine::change_state"):
                return ("change", describe_val(b, w.du, t["args"][1]), bid)
            if t["k"] == "return":
                return ("return",)
        paths = w.walk(0, stop)
        run.count("paths_or_states", len(paths))
        table = {}
        for (path, conds, sv) in paths:
            c, unknown = interpret(conds)
            if unknown:
                run.fail(rid, "%s/unrecognised-guard" % fn, b.loc(), "transition function %s branches on a condition the state-machine oracle does not know: %r" % (fn, unknown[0][1]), counts_as_instance=False)
                continue
            if sv[0] == "change":
                ag = find_agg(sv[1], ST)
                if not ag:
                    out = ("change", "?")
                else:
                    out = ("change", ag[2])
                    # payload of the new state must be the function's own parameters, in order
                    ps = [x[1] if isinstance(x, tuple) and x[0] == "param" else None for x in ag[3]]
                    if ps != expect_args[fn]:
                        run.fail(rid, "%s/new-state-args" % fn, b.loc(b.blocks[sv[2]]["term"]["line"]),
                                 "%s builds the new state %s from %r instead of its own parameters %r" % (fn, ag[2], ag[3], expect_args[fn]), counts_as_instance=False)
            else:
                rv = ret_variant(b, path)
                out = ("ok",) if rv == "Ok" else ("err",) if rv == "Err" else ("ret?",)
            for a in atoms():
                if matches(c, a):
                    table.setdefault(a, set()).add(out)
        for a in atoms():
            run.count("table_rows")
            got = table.get(a, set())
            want = oracle(fn, a)
            key = "%s/%s" % (fn, "-".join(str(x) for x in a if x is not None))
            if got == {want}:
                run.ok(rid, key, {"row": [fn, list(a)], "action": list(want)})
            else:
                run.fail(rid, key, b.loc(), "state-machine row (%s, current=%s): code does %s, documented graph requires %s" % (fn, a, sorted(got), want))
        # after change_state: own callback exactly once on every path, then Ok
        cfg = Cfg(b)
        cs = find_calls(b, callee_ends("Coroutine::change_state"))
        for (bid, t) in cs:
            cb = [(x, tt) for (x, tt) in find_calls(b, lambda c, tt: (tt.get("trait") or "").endswith("listener::Listener")) if x in cfg.reachable(cfg.after(bid))]
            names = sorted({norm(tt["orig"]).rsplit("::", 1)[1] for (_x, tt) in cb})
            okp, _w = cfg.must_pass(cfg.after(bid), [x for (x, _t) in cb if norm(_t["orig"]).endswith(expect_cb[fn])])
            in_cycle = any(cfg.in_cycle(x) for (x, _t) in cb)
            key = "%s/callback@%d" % (fn, cs.index((bid, t)))
            if names == [expect_cb[fn]] and okp and not in_cycle and len(cb) == 1:
                run.ok(cb_rid, key, {"after": "change_state", "callback": names})
            else:
                run.fail(cb_rid, key, b.loc(t["line"]), "after change_state %s must call exactly %s once on every path; found %s (all paths: %s)" % (fn, expect_cb[fn], names, okp))
        # change_state itself is not in a cycle and at most once per path
        for (bid, t) in cs:
            others = [x for (x, _t) in cs if x != bid and x in cfg.reachable(cfg.after(bid))]
            if others or cfg.in_cycle(bid):
                run.fail(cb_rid, "%s/change-twice" % fn, b.loc(t["line"]), "a path calls change_state more than once", counts_as_instance=False)


def change_state_rule(run, f):
    rid = "C07-REPORT-ONCE"
    b = need(run, rid, f, "coroutine::korosensei::Coroutine::change_state")
    if b is None:
        return
    du = DefUse(b)
    rep = find_calls(b, lambda c, t: c.endswith("cell::Cell::replace"))
    osc = find_calls(b, lambda c, t: norm(t.get("orig") or "").endswith("Listener::on_state_changed"))
    if len(rep) != 1 or len(osc) != 1:
        run.fail(rid, "change_state/shape", b.loc(), "change_state must replace the state cell once and call on_state_changed once (found %d / %d)" % (len(rep), len(osc)))
        return
    (rb, rt), (ob, ot) = rep[0], osc[0]
    cfg = Cfg(b)
    old = describe_val(b, du, ot["args"][2])
    new = describe_val(b, du, ot["args"][3])
    repl_arg = describe_val(b, du, rt["args"][1])
    ok = (old[0] == "call" and old[1].endswith("cell::Cell::replace")) and new == ("param", 2, "new_state") and repl_arg == ("param", 2, "new_state") and cfg.dominates(rb, ob)
    fld = contains(describe_val(b, du, rt["args"][0]), ".state")
    if ok and fld:
        run.ok(rid, "change_state/args", {"old": "result of Cell::replace(self.state, new_state)", "new": "parameter new_state"})
    else:
        run.fail(rid, "change_state/args", b.loc(ot["line"]), "on_state_changed must receive (value displaced by replace, new_state parameter); got old=%r new=%r replaced-with=%r" % (old, new, repl_arg))


def broadcast_rule(run, f):
    rid = "C07-REPORT-ONCE"
    names = ["on_state_changed", "on_ready", "on_running", "on_suspend", "on_syscall", "on_cancel", "on_complete", "on_error"]
    for n in names:
        b = need(run, rid, f, "<coroutine::korosensei::Coroutine as coroutine::listener::Listener>::" + n)
        if b is None:
            continue
        called = set()
        for cb in [b] + f.closures_of(b):
            for (_bid, t) in cb.calls():
                if (t.get("trait") or "").endswith("listener::Listener"):
                    called.add(norm(t["orig"]).rsplit("::", 1)[1])
        # iterates self.listeners -- in the method itself or in a helper shared by the broadcast methods (judged on the
        # method as one unit); the calls collected above already include the closures nested in the method
        from rules.common import inl
        ub = inl(f, b)
        du = DefUse(ub)
        iters = [t for (_x, t) in find_calls(ub, lambda c, t: (t.get("trait") or "").endswith("IntoIterator") or c.endswith("::iter"))]
        over_listeners = any(contains(describe_val(ub, du, t["args"][0]), ".listeners") for t in iters)
        # ... and that iteration is actually stepped (an Iterator::next in the unit).  NOT checked: that the element yielded
        # is the receiver of the listener call (the value crosses a closure boundary as the closure's parameter); a loop
        # that iterates the listeners but always calls the first one would pass this clause.
        nx = [x for (x, t) in ub.calls() if norm(t.get("orig") or "").endswith("Iterator::next")]
        over_listeners = over_listeners and bool(nx)
        if called == {n} and over_listeners:
            run.ok(rid, "broadcast/" + n, {"forwards_to": n, "iterates": "self.listeners"})
        else:
            run.fail(rid, "broadcast/" + n, b.loc(), "Coroutine::%s must forward to every listener's %s (calls %s, iterates listeners: %s)" % (n, n, sorted(called), over_listeners))


def sole_writer_rule(run, f):
    rid = run.rule("C07-SOLE-WRITER", "the state cell is written only by change_state; change_state is called only by the seven transition functions", floor=2, template="T9")
    writers = set()
    for b in f.bodies:
        du = None
        for (bid, t) in b.calls():
            c = norm(t.get("callee") or "")
            if c.startswith(("std::cell::Cell::", "core::cell::Cell::")) and c.rsplit("::", 1)[1] in ("replace", "set", "swap", "take", "update", "get_mut", "as_ptr"):
                du = du or DefUse(b)
                d = describe_val(b, du, t["args"][0])
                if contains(d, ".state") and not contains(d, ".stack"):
                    # only the Coroutine.state cell (CoroutinePool.state is C12's)
                    rk = [e for e in _fields_of(b, du, t["args"][0]) if e[1] == "state"]
                    if any(k[0].endswith("korosensei::Coroutine") for k in rk):
                        writers.add(b.npath)
                        run.fn(b)
    want = {"coroutine::korosensei::Coroutine::change_state"}
    if writers == want:
        run.ok(rid, "state-cell-writers", sorted(writers))
    else:
        run.fail(rid, "state-cell-writers", "core/src/coroutine", "Coroutine.state is written outside change_state: %s" % sorted(writers - want or ["(change_state no longer writes it)"]))
    callers = set()
    for b in f.bodies:
        for (_bid, t) in b.calls():
            if norm(t.get("callee") or "").endswith("Coroutine::change_state"):
                callers.add(b.npath)
    allowed = {"coroutine::korosensei::Coroutine::" + x for x in FNS}
    if callers and callers <= allowed:
        run.ok(rid, "change_state-callers", sorted(callers))
    else:
        run.fail(rid, "change_state-callers", "core/src/coroutine/state.rs", "change_state is called from outside the guarded transition functions: %s" % sorted(callers - allowed))


def _fields_of(body, du, op, depth=6):
    """(adt, field) pairs on the receiver chain of an operand."""
    out = []
    seen = 0
    while op is not None and seen < depth:
        seen += 1
        if op["k"] == "const":
            break
        p = op["p"]
        for e in p["proj"]:
            if isinstance(e, dict) and "f" in e:
                out.append((norm(e.get("of") or "?"), e["f"]))
        ds = du.defs.get(p["l"], [])
        nxt = None
        for (_b, _i, kind, s) in ds:
            if kind == "assign":
                rv = s["rhs"]
                if rv["k"] in ("ref", "rawptr"):
                    nxt = {"k": "copy", "p": rv["p"]}
                elif rv["k"] in ("use", "cast"):
                    nxt = rv["a"]
        op = nxt
    return out


def terminal_rule(run, f):
    rid = run.rule("C07-TERMINAL", "resume_with returns the stored terminal state without calling running()/raw_resume() when the coroutine is Complete or Error", floor=2, template="T2")
    b = need(run, rid, f, "coroutine::korosensei::Coroutine::resume_with")
    if b is None:
        return
    w = PathWalker(b)

    def stop(bid, t):
        if t["k"] == "call":
            c = norm(t.get("callee") or "")
            if c.endswith("Coroutine::running") or c.endswith("::raw_resume"):
                return ("call", c.rsplit("::", 1)[1], bid)
        if t["k"] == "return":
            return ("return",)
    paths = w.walk(0, stop)
    run.count("paths_or_states", len(paths))
    for term in ("Complete", "Error"):
        bad = []
        reached_return = False
        for (path, conds, sv) in paths:
            vs = set(BASE)
            for cd in conds:
                if cd[0] == "variant" and "@" not in cd[1]:
                    vs &= set(cd[2])
            if term in vs:
                if sv[0] == "call":
                    bad.append(sv)
                else:
                    reached_return = True
        if bad or not reached_return:
            run.fail(rid, "resume_with/" + term, b.loc(), "a %s coroutine can reach %s in resume_with (terminal state would be left / user code run again)" % (term, bad[0][1] if bad else "no return"))
        else:
            run.ok(rid, "resume_with/" + term, "returns before running()/raw_resume()")
    # running() precedes raw_resume()
    cfg = Cfg(b)
    r1 = [x for (x, t) in find_calls(b, callee_ends("Coroutine::running"))]
    r2 = [x for (x, t) in find_calls(b, callee_ends("::raw_resume"))]
    if r1 and r2 and all(any(cfg.dominates(a, x) for a in r1) for x in r2):
        run.ok(rid, "resume_with/running-before-raw_resume", None)
    else:
        run.fail(rid, "resume_with/running-before-raw_resume", b.loc(), "raw_resume is not dominated by the guarded running() transition")


def yield_rule(run, f):
    rid = run.rule("C07-YIELD-CLASS", "raw_resume classifies a yield/return into exactly the documented transition", floor=6, template="T6")
    b = need(run, rid, f, "coroutine::korosensei::Coroutine::raw_resume")
    if b is None:
        return
    w = PathWalker(b)
    trans = ("cancel", "suspend", "complete", "error", "ready", "running", "syscall")

    def stop(bid, t):
        if t["k"] == "return":
            return ("return",)
    res = find_calls(b, lambda c, t: c.endswith("corosensei::Coroutine::resume") or c.endswith("coroutine::Coroutine::resume") and not t.get("local"))
    if not res:
        run.missing(rid, "corosensei::Coroutine::resume call in raw_resume")
        return
    cfg = Cfg(b)
    startb = cfg.after(res[0][0])[0]
    paths = w.walk(startb, stop)
    run.count("paths_or_states", len(paths))
    rows = {}
    for (path, conds, sv) in paths:
        res_v, cur_v, cancel, ok_v = None, set(BASE), None, None
        for cd in conds:
            if cd[0] == "variant":
                if "@" not in cd[1] and set(cd[2]) <= {"Yield", "Return"}:
                    res_v = cd[2]
                elif set(cd[2]) <= {"Ok", "Err"}:
                    ok_v = cd[2]
                elif set(cd[2]) <= set(BASE) and "@" not in cd[1]:
                    cur_v &= set(cd[2])
            elif cd[0] == "bool" and cd[1][0] == "call" and cd[1][1].endswith("::is_cancel"):
                cancel = cd[2]
            elif cd[0] == "bool" and cd[1][0] == "call" and cd[1][1].endswith("Result::is_ok"):
                ok_v = ("Ok",) if cd[2] else ("Err",)
        calls = []
        for bid in path:
            t = b.blocks[bid]["term"]
            if t["k"] == "call":
                c = norm(t.get("callee") or "")
                if c.startswith("coroutine::korosensei::Coroutine::") and c.rsplit("::", 1)[1] in trans:
                    calls.append((c.rsplit("::", 1)[1], tuple(describe_val(b, w.du, a) for a in t["args"][1:])))
        rv = ret_variant(b, path)
        rows.setdefault((res_v, tuple(sorted(cur_v)) if res_v == ("Yield",) else None, cancel, ok_v), set()).add((tuple(c[0] for c in calls), rv))
        for c in calls:
            # pass-through of payloads (also used by C08)
            pass
    def row(resv, cur, cancel, okv):
        out = set()
        for (k, v) in rows.items():
            if k[0] != resv:
                continue
            if cur is not None and (k[1] is None or cur not in k[1]):
                continue
            if cancel is not None and k[2] is not None and k[2] != cancel:
                continue
            if okv is not None and k[3] is not None and k[3] != okv:
                continue
            out |= v
        return out
    checks = [
        ("Yield/Running/cancel-pending", row(("Yield",), "Running", True, None), {(("cancel",), "Ok")}),
        ("Yield/Running/no-cancel", row(("Yield",), "Running", False, None), {(("suspend",), "Ok")}),
        ("Yield/Syscall", row(("Yield",), "Syscall", None, None), {((), "Ok")}),
        ("Return/Ok", row(("Return",), None, None, ("Ok",)), {(("complete",), "Ok")}),
        ("Return/Err", row(("Return",), None, None, ("Err",)), {(("error",), "Ok")}),
    ]
    # a body that ended with an error inside a hooked call is in Syscall(.., Executing): leaving the call first
    # (Syscall -> Running, then Running -> Error) uses documented edges only (fix F32)
    also = {"Return/Err": {(("running", "error"), "Ok")}}
    for other in ("Ready", "Suspend", "Cancelled", "Complete", "Error"):
        checks.append(("Yield/" + other, row(("Yield",), other, None, None), {((), "Err")}))
    for (k, got, want) in checks:
        run.count("table_rows")
        # `?` adds error-propagation exits after a transition call: (calls, Err) rows are allowed next to the Ok row
        allowed = want | also.get(k, set())
        got2 = {g for g in got if not (g[1] == "Err" and any(w_[1] == "Ok" and w_[0][:len(g[0])] == g[0] and g[0] for w_ in allowed))}
        if want <= got2 <= allowed:
            run.ok(rid, "raw_resume/" + k, {"actions": sorted(map(list, want))})
        else:
            run.fail(rid, "raw_resume/" + k, b.loc(), "raw_resume row %s: code does %s, documented classification is %s" % (k, sorted(got2), sorted(want)))


def run(tier):
    run, fx = start("C07", tier,
        "T6 decision tables extracted from the MIR of the seven guarded transition functions (7 functions x 15 state atoms: 7 variants, "
        "Suspend split by due/not-due, Syscall split by 4 syscall states x same/other call) compared row by row with the documented graph; "
        "T9 sole-writer of the state cell; T1/T5 report-once (change_state args, own callback once, broadcast to same-named listener method); "
        "T2 terminal short-circuit in resume_with; T6 yield classification in raw_resume. The tables are finite and compared exhaustively.",
        ["core/default"] + (["core/preemptive"] if tier == "thorough" else []),
        not_decided=["that listeners observe the sequence for arbitrary bodies (follows from the table plus C08/C09 clauses)", "behaviour of user code that mutates a coroutine through raw pointers",
                     "broadcast: that the listener yielded by the iteration is the receiver of the callback (only that the listeners are iterated and the same-named callback is called)"],
        assumptions=["derive(PartialEq) on CoroutineState/SyscallName compares variant and payload", "corosensei resumes the body only from Coroutine::resume"],
        exhaustive=True)
    for cfgname, f in fx.items():
        table_rule(run, f)
        change_state_rule(run, f)
        broadcast_rule(run, f)
        sole_writer_rule(run, f)
        terminal_rule(run, f)
        yield_rule(run, f)
    # clauses added for the wave-2 seeds (rules/wave2.py; DESIGN 12a)
    for _cfg, f in fx.items():
        wave3.change_broadcast_rule(run, f, "C07-BROADCAST-EVERY-CHANGE")
        coro.push_yield_rule(run, f, "C07-YIELD-REQUESTS")
        coro.drain_rule(run, f, "C07-YIELD-DRAIN")
        wave2.request_pairing_rule(run, f, "C07-REQUEST-PAIRING")
    # clauses added for the wave-2 seeds (rules/wave2.py; DESIGN 12a)
    for _cfg, f in fx.items():
        wave3.no_exit_before_yield_rule(run, f, "C07-NO-EXIT-BEFORE-YIELD")
    return run.finish()
