"""C19 — Socket timeout options are tracked per live socket without crashing (structural clauses)."""
from rules.common import start
from rules import wave3
from rules import selector, misc


def run(tier):
    run, fx = start("C19", tier,
        "T10/T2: no write to a per-descriptor limit table guards a panic (setsockopt may repeat, two threads may both miss in the lazy fill); T9/T3: every table keyed by descriptor number is "
        "cleared from the hooked close before the inner close (directly on all paths, or through del_event); T5/T6: limit direction per wrapper, "
        "setsockopt update only under r == 0, SOL_SOCKET and the matching option, value through get_time_limit (panic-free, zero means unlimited); T9 the tables are written only by the lazy fill, setsockopt and close; "
        "T5 each lazy fill reads the matching option of its own descriptor.",
        ["core/default"],
        not_decided=["the option value the kernel actually holds"],
        assumptions=["SOL_SOCKET == 1, SO_RCVTIMEO == 20, SO_SNDTIMEO == 21 on this target"])
    f = fx["core/default"]
    selector.no_panic_rule(run, f, "C19-NO-PANIC-ON-RESET")
    selector.invalidate_rule(run, f, "C19-INVALIDATE")
    selector.direction_rule(run, f, "C19-DIRECTION")
    misc.time_limit_rule(run, f, "C19-LIMIT-VALUE")
    # clauses added for the wave-2 seeds (rules/wave2.py; DESIGN 12a)
    wave3.limit_writers_rule(run, f, "C19-WRITERS")
    # clauses added for the wave-2 seeds (rules/wave2.py; DESIGN 12a)
    wave3.fill_option_rule(run, f, "C19-FILL-OPTION")
    return run.finish()
