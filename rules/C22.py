"""C22 — Preemption interrupts long-running coroutines, never syscalls (config core/preemptive; structural clauses)."""
from rules.common import start
from rules import preempt


def run(tier):
    run, fx = start("C22", tier,
        "Path walk of sigurg_handler (suspend only when state() == Running, SIGURG unmasked first), T6 exhaustive listener table over the 7 states, "
        "T2 overdue-only guard and T5 target of pthread_kill, T9/T10 access discipline of the shared node set, T2 registration condition in Coroutine::new.",
        ["core/preemptive"],
        not_decided=["that preemption leaves computed results unchanged (register save/restore, signal-safety of the yield)", "that the slice is about 10 ms"],
        assumptions=["pthread_kill delivers the signal to the given thread", "a signal handler runs with the signals of sa_mask blocked until it returns"])
    f = fx["core/preemptive"]
    preempt.handler_rule(run, f, "C22-HANDLER-GUARD")
    preempt.listener_rule(run, f, "C22-LISTENER")
    preempt.overdue_rule(run, f, "C22-OVERDUE-ONLY")
    preempt.shared_set_rule(run, f, "C22-SHARED-SET")
    preempt.registration_rule(run, f, "C22-REGISTRATION")
    from rules import wave3
    wave3.monitor_park_rule(run, f, "C22-MONITOR-PARK")
    return run.finish()
