"""C25 — Coroutine-local storage is private, map-like, and released with the coroutine (structural clauses)."""
from rules.common import start
from rules import coro


def run(tier):
    run, fx = start("C25", tier,
        "T9 accessors of the storage map, fresh CoroutineLocal per coroutine and Deref to it; T5 map-like shape of put/get/remove; T1 ownership: "
        "every Box::leak stored in the map has a Box::from_raw on overwrite, remove and destruction (Drop impl).",
        ["core/default"],
        not_decided=["type confusion through get::<V> with a wrong V"],
        assumptions=[])
    coro.local_rule(run, fx["core/default"], "C25-PRIVATE", "C25-MAPLIKE", "C25-RELEASE")
    return run.finish()
