"""C25 — Coroutine-local storage is private, map-like, and released with the coroutine (structural clauses)."""
from rules.common import start
from rules import wave3
from rules import wave2
from rules import coro


def run(tier):
    run, fx = start("C25", tier,
        "T9 accessors of the storage map, fresh CoroutineLocal per coroutine and Deref to it; T5 map-like shape of put/get/remove; T1 ownership: "
        "every Box::leak stored in the map has a Box::from_raw on overwrite, remove and destruction (Drop impl).",
        ["core/default"],
        not_decided=["type confusion through get::<V> with a wrong V"],
        assumptions=[])
    coro.local_rule(run, fx["core/default"], "C25-PRIVATE", "C25-MAPLIKE", "C25-RELEASE")
    # clauses added for the wave-2 seeds (rules/wave2.py; DESIGN 12a)
    f = fx["core/default"]
    wave2.local_deleters_rule(run, f, "C25-DELETERS")
    wave2.current_ends_rule(run, f, "C25-CURRENT-ENDS")
    # clauses added for the wave-2 seeds (rules/wave2.py; DESIGN 12a)
    wave3.local_get_consults_map_rule(run, f, "C25-GET-CONSULTS-MAP")
    return run.finish()
