"""C05 — Higher-priority work is served first, FIFO among equals (structure the ordering argument rests on)."""
from rules.common import start
from rules import wave2
from rules import queues


def run(tier):
    run, fx = start("C05", tier,
        "T5/T1 rules on the priority queue: pops scan the SkipMap ascending and return at the first bucket hit; every inter-queue move "
        "(overflow to shared, steal) files the item under the key of the bucket it came from; overflow evicts from the reversed iterator; "
        "buckets are FIFO types; Ordered::priority returns the stored field. Decides the structure of the ordering argument, not the pop "
        "order of arbitrary histories.",
        ["core/default"],
        not_decided=["the pop order itself for arbitrary histories (needs executing the maps)", "order after items moved to the shared queue (the statement restricts to <= local capacity)", "FIFO inside st3::fifo / crossbeam Injector (model table)"],
        assumptions=["crossbeam_skiplist::SkipMap iterates in ascending key order; Rev reverses it", "st3::fifo::Worker and crossbeam_deque::Injector are FIFO", "st3 Stealer::steal moves the oldest items and keeps their order"])
    f = fx["core/default"]
    queues.ascending_rule(run, f, "C05-ASCENDING")
    queues.key_rule(run, f, "C05-KEY")
    queues.evict_rule(run, f, "C05-EVICT-LOWEST")
    queues.bucket_type_rule(run, f, "C05-FIFO-BUCKET")
    queues.source_rule(run, f, "C05-SOURCE")
    queues.steal_api_rule(run, f, "C05-STEAL-API")
    queues.bucket_capacity_rule(run, f, "C05-BUCKET-CAPACITY")
    # clauses added for the wave-2 seeds (rules/wave2.py; DESIGN 12a)
    wave2.return_at_first_hit_rule(run, f, "C05-FIRST-HIT")
    return run.finish()
