"""C14 — Hooked timed waits honour the requested timeout (structural clauses)."""
from rules.common import start
from rules import wave3
from rules import wave2
from rules import timed


def run(tier):
    cfgs = ["core/default"] + (["core/preemptive", "core/io_uring"] if tier == "thorough" else [])
    run, fx = start("C14", tier,
        "P7 unit inference (s/ms/us/ns lattice) over the six timed wrappers, get_time_limit, the 17 NIO wrappers' time-limit arithmetic and the event-loop "
        "wait functions: every quantity reaches its Duration/timespec/timeval/Suspend sink in the sink's unit; T2 validation of caller-supplied fields "
        "before panicking conversions and EINVAL for negative values; T5/T2 zero-timeout probes with count-down; T2 deadline loop of timed_wait_just.",
        cfgs,
        not_decided=["the upper bound 'timeout plus bounded slack' (wall clock)"],
        assumptions=["libc contracts: sleep(s), usleep(us), timespec{s,ns}, timeval{s,us}, poll(ms)", "now()/get_timeout_time()/time limits are nanoseconds"])
    for name, f in fx.items():
        timed.units_rule(run, f, "C14-UNITS")
        timed.validate_rule(run, f, "C14-VALIDATE")
        timed.probe_rule(run, f, "C14-PROBE")
        timed.deadline_rule(run, f, "C14-DEADLINE")
    # clauses added for the wave-2 seeds (rules/wave2.py; DESIGN 12a)
    for _cfg, f in fx.items():
        wave2.wide_scale_rule(run, f, "C14-SCALE-WIDTH")
    # clauses added for the wave-2 seeds (rules/wave2.py; DESIGN 12a)
    for _cfg, f in fx.items():
        wave3.now_is_realtime_rule(run, f, "C14-NOW-REALTIME")
    return run.finish()
