"""Rule instances on the 17 NIO socket wrappers (C16, C17, C18, parts of C19)."""
from analysis.facts import norm
from analysis.cfg import Cfg
from analysis.flow import DefUse, ReachingDefs, backward, find_calls, callee_is, callee_ends, op_local, op_const, field_chain
from analysis.nioabs import NioFacts, NioWalk
from analysis.table import describe_val, switch_test
from rules.common import need, inl
from rules.common import unit as common_unit

BUF_READ = ("read", "recv", "recvfrom", "pread")
BUF_WRITE = ("write", "send", "sendto", "pwrite")
VEC_READ = ("readv", "preadv", "recvmsg")
VEC_WRITE = ("writev", "pwritev", "sendmsg")
OTHER = ("accept", "accept4", "connect")
ALL17 = BUF_READ + BUF_WRITE + VEC_READ + VEC_WRITE + OTHER


def nio_bodies(f):
    out = {}
    for b in f.bodies:
        if b.kind == "AssocFn" and b.npath.startswith("<syscall::unix::") and "::Nio" in b.npath:
            nm = b.npath.rsplit("::", 1)[1]
            if nm in ALL17 and any(norm(t.get("callee") or "") == "syscall::unix::is_blocking" for (_x, t) in b.calls()):
                out[nm] = b
    return out


_walk_cache = {}


def unit(b):
    """The wrapper as one unit: exit helpers, RAII guards and combinator closures spliced in."""
    k = (b.facts.config, b.path, id(b.facts))
    if k not in _unit_cache:
        _unit_cache[k] = inl(b.facts, b)
    return _unit_cache[k]


_unit_cache = {}


def walk(b):
    k = (b.facts.config, b.path, id(b.facts))
    if k not in _walk_cache:
        nf = NioFacts(unit(b))
        w = NioWalk(nf)
        if nf.ok:
            w.run()
        _walk_cache[k] = (nf, w)
    return _walk_cache[k]


def _each(run, f, rid, names):
    nb = nio_bodies(f)
    for nm in names:
        b = nb.get(nm)
        if b is None:
            run.missing(rid, "Nio%sSyscall::%s" % (nm.capitalize(), nm))
            continue
        run.fn(b)
        yield nm, unit(b)


def top_binop(b, du, rd, op, at, depth=10):
    """Follow copies / casts / `.0` of a checked-arithmetic tuple back to the binary operation that produced a value.
    Returns (op, root_a, root_b) with roots resolved through plain copies, or None."""
    def root(o, at_):
        n = 0
        while n < depth and o is not None and o["k"] in ("copy", "move") and not o["p"]["proj"]:
            n += 1
            ds = [d for d in rd.reaching(o["p"]["l"], at_[0], at_[1]) if d is not None]
            if len(ds) != 1 or ds[0][2] != "assign":
                break
            rv = ds[0][3]["rhs"]
            if rv["k"] in ("use", "cast") and not ds[0][3]["lhs"]["proj"]:
                if rv["a"]["k"] == "const" or rv["a"]["p"]["proj"]:
                    break
                if not b.name_of(o["p"]["l"]).startswith("_"):
                    break     # a named variable is a root
                o, at_ = rv["a"], (ds[0][0], ds[0][1])
            else:
                break
        return o
    n = 0
    while n < depth and op is not None and op["k"] in ("copy", "move"):
        n += 1
        l = op["p"]["l"]
        ds = [d for d in rd.reaching(l, at[0], at[1]) if d is not None]
        if len(ds) != 1 or ds[0][2] != "assign":
            return None
        rv = ds[0][3]["rhs"]
        at = (ds[0][0], ds[0][1])
        if rv["k"] == "binop":
            ra, rb = root(rv["a"], at), root(rv["b"], at)
            return (rv["op"], ra, rb)
        if rv["k"] in ("use", "cast"):
            op = {"k": "copy", "p": {"l": rv["a"]["p"]["l"], "proj": []}} if rv["a"]["k"] != "const" else None
            continue
        return None
    return None


def _nm(b, o):
    if o is None:
        return None
    if o["k"] == "const":
        return "const"
    return b.name_of(o["p"]["l"])


# ------------------------------------------------------------------ C18
def restore_rule(run, f, rid):
    run.rule(rid, "the descriptor's blocking mode is forced non-blocking only when the caller had it blocking, and is restored on every return", floor=17, template="T1 (P3 walk correlated on the remembered flag)")
    for nm, b in _each(run, f, rid, ALL17):
        nf, w = walk(b)
        if not nf.ok or nf.flag is None:
            run.fail(rid, b.npath + "/shape", b.loc(), "the wrapper no longer remembers is_blocking(fd) / calls its inner syscall in a recognisable way")
            continue
        run.count("paths_or_states", w.visited)
        bad = [e for e in w.events if e[0] in ("mode-not-restored", "mode-change-when-nonblocking")]
        # fd argument of the mode calls is the wrapper's own fd parameter
        du = nf.du
        for (x, t) in b.calls():
            if norm(t.get("callee") or "") in ("syscall::unix::set_blocking", "syscall::unix::set_non_blocking", "syscall::unix::is_blocking"):
                sl = backward(b, t["args"][0], du, at=(x, "term"), through_calls="none")
                if {b.name_of(p) for p in sl.params} != {"fd"} or sl.ops:
                    bad.append(("wrong-fd", x, t["line"], "mode call on something other than the wrapper's fd parameter"))
        if bad:
            run.fail(rid, b.npath + "/restore", b.loc(bad[0][2]), "%s: %s" % (nm, "; ".join(sorted({e[3] for e in bad}))))
        else:
            run.ok(rid, b.npath + "/restore", {"states": w.visited, "returns": len(w.returns)})


def eagain_rule(run, f, rid):
    run.rule(rid, "a wrapper waits for readiness only when the caller's descriptor was blocking; on a caller-non-blocking descriptor it reports EAGAIN at once", floor=17, template="T2 (P3 walk)")
    for nm, b in _each(run, f, rid, ALL17):
        nf, w = walk(b)
        if not nf.ok or nf.flag is None:
            run.fail(rid, b.npath + "/shape", b.loc(), "wrapper shape not recognised")
            continue
        bad = [e for e in w.events if e[0] == "wait-when-nonblocking"]
        if bad:
            run.fail(rid, "%s/%s" % (b.npath, bad[0][3]), b.loc(bad[0][2]),
                     "%s waits for readiness (%s) even when the caller had put the descriptor in non-blocking mode: instead of returning EAGAIN immediately it blocks up to the socket's time limit" % (nm, bad[0][3]))
        else:
            run.ok(rid, b.npath + "/wait-guarded", "wait only under blocking == true")


# ------------------------------------------------------------------ C16
def window_rule(run, f, rid):
    run.rule(rid, "buffer loops pass (buf + k, len - k) for the same accumulator k and add each successful result to k exactly once", floor=8, template="T5/T2")
    for nm, b in _each(run, f, rid, BUF_READ + BUF_WRITE):
        nf, w = walk(b)
        du = nf.du
        cfg = Cfg(b)
        why = []
        loop_calls = [x for x in nf.inner if cfg.in_cycle(x)]
        if len(loop_calls) != 1 or nf.acc is None:
            why.append("expected one inner call inside the retry loop and one byte accumulator")
        else:
            x = loop_calls[0]
            t = b.blocks[x]["term"]
            # args: self.inner, fn_ptr, fd, buf, len, ...
            rd = ReachingDefs(b, du)
            accn = b.name_of(nf.acc)
            pe = top_binop(b, du, rd, t["args"][3], (x, "term"))
            le = top_binop(b, du, rd, t["args"][4], (x, "term"))
            lenname = b.name_of(5)
            if not (pe and pe[0] in ("AddWithOverflow", "Add") and {_nm(b, pe[1]), _nm(b, pe[2])} == {b.name_of(4), accn}):
                why.append("the pointer handed to the inner call is not buf + accumulator (%s)" % (pe and (pe[0], _nm(b, pe[1]), _nm(b, pe[2])),))
            if not (le and le[0] in ("SubWithOverflow", "Sub") and _nm(b, le[1]) == lenname and _nm(b, le[2]) == accn):
                why.append("the length handed to the inner call is not len - accumulator (%s)" % (le and (le[0], _nm(b, le[1]), _nm(b, le[2])),))
            # accumulate once per call, on the success edge, after reset_errno
            incs = [d for d in du.defs.get(nf.acc, []) if d[2] == "assign" and op_const(d[3]["rhs"]["a"]) is None]
            if len(incs) != 1:
                why.append("the accumulator is advanced at %d sites (expected 1)" % len(incs))
            else:
                ib = incs[0][0]
                re = [y for (y, tt) in find_calls(b, callee_is("syscall::unix::reset_errno"))] + [y for (y, tt) in find_calls(b, callee_is("syscall::unix::set_errno")) if tt["args"] and str(op_const(tt["args"][0])) == "0"]
                if not any(cfg.dominates(y, ib) for y in re) or not cfg.dominates(x, ib):
                    why.append("the accumulator is advanced without reset_errno() on the success edge")
                # the amount added is this call's result
                asl = backward(b, {"k": "copy", "p": {"l": nf.acc, "proj": []}}, du, at=(ib, incs[0][1] + 1 if isinstance(incs[0][1], int) else "term"), through_calls="all")
                if not (set(nf.r) & asl.locals):
                    why.append("the amount added to the accumulator is not the inner call's result")
        if why:
            run.fail(rid, b.npath + "/window", b.loc(), "%s: %s" % (nm, "; ".join(why)))
        else:
            run.ok(rid, b.npath + "/window", "inner(buf + k, len - k); k += r on success")


def result_rule(run, f, rid_m1, rid_total, rid_zero):
    run.rule(rid_m1, "no wrapper returns the raw -1 of a failed call after earlier calls of the same request moved bytes", floor=14, template="P3 fixpoint")
    run.rule(rid_total, "no wrapper returns the last call's count when earlier calls of the same request moved bytes (the total is returned)", floor=14, template="P3 fixpoint")
    run.rule(rid_zero, "a request that needs no kernel call (zero length) returns 0, not -1", floor=14, template="P3 fixpoint")
    for nm, b in _each(run, f, rid_m1, BUF_READ + BUF_WRITE + VEC_READ + VEC_WRITE):
        nf, w = walk(b)
        if not nf.ok:
            for rid in (rid_m1, rid_total, rid_zero):
                run.fail(rid, b.npath + "/shape", b.loc(), "wrapper shape not recognised (result local / inner call)")
            continue
        run.count("paths_or_states", w.visited)
        for rid, kind, msg in ((rid_m1, "minus-one-after-bytes", "can return -1 although bytes of this request were already transferred (the caller cannot know they were consumed)"),
                               (rid_total, "partial-count-instead-of-total", "can return only the last kernel call's count although earlier calls of the same request transferred bytes too"),
                               (rid_zero, "minus-one-without-call", "returns -1 for a request that makes no kernel call (zero length)")):
            ev = [e for e in w.events if e[0] == kind]
            if ev:
                run.fail(rid, "%s/%s" % (b.npath, kind), b.loc(ev[0][2]), "%s %s" % (nm, msg), detail={"exit_lines": sorted({e[2] for e in ev})})
            else:
                run.ok(rid, b.npath, {"states": w.visited})


def head_rule(run, f, rid):
    run.rule(rid, "vectored wrappers compute the partially-filled head element from the caller's pristine iovec (an offset is never applied to an already adjusted element) and measure it from the start of the current iovec", floor=6, template="T5")
    for nm, b in _each(run, f, rid, VEC_READ + VEC_WRITE):
        nf, w = walk(b)
        du = DefUse(b)
        cfg = Cfg(b)
        loops = cfg.natural_loops()
        inner_call = [x for x in nf.inner if cfg.in_cycle(x)]
        inner_loop = None
        for h, blocks in loops.items():
            if inner_call and inner_call[0] in blocks and (inner_loop is None or len(blocks) < len(inner_loop)):
                inner_loop = blocks
        inner_loop = inner_loop or set()
        found = {}
        # (1) stores through IndexMut on the rebuilt Vec whose value reads the same Vec through Index, on a cycle
        im = [(x, t) for (x, t) in b.calls() if norm(t.get("callee") or "").endswith("IndexMut>::index_mut")]
        for (x, t) in im:
            vec = backward(b, t["args"][0], du, at=(x, "term"), through_calls="none").locals
            dest = t["dest"]["l"]
            for blk in b.blocks:
                for i, s in enumerate(blk["stmts"]):
                    if s["k"] == "assign" and s["lhs"]["l"] == dest and s["lhs"]["proj"] == ["deref"] and s["rhs"]["k"] in ("agg", "use"):
                        for o in (s["rhs"]["ops"] if s["rhs"]["k"] == "agg" else [s["rhs"]["a"]]):
                            vs = backward(b, o, du, at=(blk["id"], i))
                            for (_y, tt) in vs.calls:
                                if norm(tt.get("callee") or "").endswith("Index>::index"):
                                    rv = backward(b, tt["args"][0], du, through_calls="none").locals
                                    if rv & vec and cfg.in_cycle(blk["id"]):
                                        found["self-referential-adjust"] = (s["line"], "inside the retry loop the head element is rewritten from its own previous (already shifted) value: a retry after EAGAIN/EINTR or a second partial transfer applies the offset twice")
        # (2) offsets measured against the running total after this iteration already added the current iov_len
        rd = ReachingDefs(b, du)
        # running totals: L = L + <something read from .iov_len>
        totals = {}
        for l, ds in du.defs.items():
            for d in ds:
                if d[2] == "assign" and not d[3]["lhs"]["proj"] and d[3]["rhs"]["k"] == "use" and d[3]["rhs"]["a"]["k"] in ("move", "copy") and d[3]["rhs"]["a"]["p"]["proj"]:
                    tds = du.defs.get(d[3]["rhs"]["a"]["p"]["l"], [])
                    if tds and tds[0][2] == "assign" and tds[0][3]["rhs"]["k"] == "binop" and tds[0][3]["rhs"]["op"].startswith("Add") and op_local(tds[0][3]["rhs"]["a"]) == l:
                        ysl = backward(b, tds[0][3]["rhs"]["b"], du, at=(tds[0][0], tds[0][1]), through_calls="none")
                        if "iov_len" in ysl.fields:
                            totals.setdefault(l, set()).add((d[0], d[1]))
        for (x, t) in b.calls():
            if norm(t.get("callee") or "") != "usize::saturating_sub":
                continue
            # where is a running total read for this subtraction's second operand?
            op, at = t["args"][1], (x, "term")
            read_at = None
            for _ in range(8):
                l = op_local(op)
                if l is None or op["p"]["proj"]:
                    break
                if l in totals:
                    read_at = (at, l)
                    break
                ds = [d for d in rd.reaching(l, at[0], at[1]) if d is not None]
                if len(ds) != 1 or ds[0][2] != "assign" or ds[0][3]["rhs"]["k"] != "use" or ds[0][3]["rhs"]["a"]["k"] == "const":
                    break
                op, at = ds[0][3]["rhs"]["a"], (ds[0][0], ds[0][1])
            if read_at is None:
                continue
            (rb, ri), l = read_at
            for (ab, ai) in totals[l]:
                after = (ab == rb and isinstance(ai, int) and (ri == "term" or (isinstance(ri, int) and ai < ri))) or (ab != rb and cfg.dominates(ab, rb))
                if after:
                    role = "offset-recompute-from-end" if x in inner_loop else "offset-initial-from-end"
                    found[role] = (t["line"], "an offset into the current iovec is computed as transferred - (end of the current iovec), which is always 0: a partially filled iovec is refilled from its start %s" % ("after a partial transfer" if x in inner_loop else "on entry"))
        if not found:
            run.ok(rid, b.npath + "/head", "head element derived from the pristine iovec, offsets measured from the iovec start")
        for role, (line, msg) in sorted(found.items()):
            run.fail(rid, "%s/head/%s" % (b.npath, role), b.loc(line), "%s: %s" % (nm, msg))


# ------------------------------------------------------------------ C17
def count_rule(run, f, rid, rid_suffix):
    run.rule(rid, "the element count handed to the kernel is the length of the very array whose pointer is handed over", floor=6, template="T5")
    run.rule(rid_suffix, "the array handed over is the caller's array from the first unfinished element on; the index advances only when an element is complete", floor=6, template="T5")
    for nm, b in _each(run, f, rid, VEC_READ + VEC_WRITE):
        nf, w = walk(b)
        du = nf.du
        cfg = Cfg(b)
        loop_calls = [x for x in nf.inner if cfg.in_cycle(x)]
        if len(loop_calls) != 1:
            run.fail(rid, b.npath + "/count", b.loc(), "expected one inner call in the retry loop")
            continue
        x = loop_calls[0]
        t = b.blocks[x]["term"]
        if nm in ("recvmsg", "sendmsg"):
            # args: inner, fn_ptr, fd, &mut arg(msghdr), flags ; msghdr aggregate fields msg_iov / msg_iovlen
            ptr_op = cnt_op = None
            at = None
            for blk in b.blocks:
                for i, s in enumerate(blk["stmts"]):
                    if s["k"] == "assign" and s["rhs"]["k"] == "agg" and norm(s["rhs"].get("adt") or "").endswith("msghdr") and cfg.in_cycle(blk["id"]):
                        fl = s["rhs"]["fields"]
                        ptr_op, cnt_op, at = s["rhs"]["ops"][fl.index("msg_iov")], s["rhs"]["ops"][fl.index("msg_iovlen")], (blk["id"], i)
            if ptr_op is None:
                run.fail(rid, b.npath + "/count", b.loc(), "msghdr handed to the inner call is not built in the loop")
                continue
        else:
            ptr_op, cnt_op, at = t["args"][3], t["args"][4], (x, "term")
        psl = backward(b, ptr_op, du, at=at)
        csl = backward(b, cnt_op, du, at=at)
        pv = list({_y: tt for (_y, tt) in psl.calls if norm(tt.get("callee") or "") in ("std::vec::Vec::as_ptr", "std::vec::Vec::as_mut_ptr")}.values())
        cv = list({_y: tt for (_y, tt) in csl.calls if norm(tt.get("callee") or "") == "std::vec::Vec::len"}.values())
        ok = False
        why = "pointer from Vec::as_ptr %d, count from Vec::len %d" % (len(pv), len(cv))
        if len(pv) == 1 and len(cv) == 1:
            v1 = backward(b, pv[0]["args"][0], du, through_calls="none").locals
            v2 = backward(b, cv[0]["args"][0], du, through_calls="none").locals
            named1 = {b.name_of(l) for l in v1 if not b.name_of(l).startswith("_")}
            named2 = {b.name_of(l) for l in v2 if not b.name_of(l).startswith("_")}
            ok = bool(named1) and named1 == named2
            why = "array is `%s`, count is the length of `%s`" % ("/".join(sorted(named1)) or "?", "/".join(sorted(named2)) or "?")
        if ok:
            run.ok(rid, b.npath + "/count", why)
        else:
            run.fail(rid, b.npath + "/count", b.loc(b.blocks[x]["term"]["line"]), "%s hands the kernel an element count that is not the length of the array it passes (%s): the kernel reads past (or short of) the array" % (nm, why))
        # suffix: the Vec passed is filled from vec.iter().skip(index)  (push loop or collect), where `index` is the one
        # counter the skip count derives from -- identified by its definitions (initialised, then incremented), not its name
        pushes = [(y, tt) for (y, tt) in b.calls() if norm(tt.get("callee") or "") == "std::vec::Vec::push"]
        sk = [(y, tt) for (y, tt) in b.calls() if norm(tt.get("callee") or "") == "std::iter::Iterator::skip"]
        ok2 = False
        idx_l = []
        if len(sk) == 1:
            ssl = backward(b, sk[0][1]["args"][1], du, at=(sk[0][0], "term"), through_calls="none")
            idx_l = [l for l in ssl.locals if l > b.argc and len(du.defs.get(l, [])) >= 2]
            fills = bool(pushes) or any(any(y == sk[0][0] for (y, _t) in backward(b, tt["args"][0], du, at=(z, "term")).calls) for (z, tt) in b.calls() if norm(tt.get("callee") or "").rsplit("::", 1)[-1] in ("collect", "extend", "from_iter"))
            accn = b.name_of(nf.acc) if nf.acc is not None else None

            def on_complete_edge(db):
                # the increment sits under an edge on which  X <= / < transferred  holds (however the test is spelled)
                for blk in b.blocks:
                    st = switch_test(b, du, blk["id"])
                    if not st or st[0][0] != "cmp" or st[0][1] not in ("Lt", "Le") or st[1] == st[2] or blk["id"] == db:
                        continue
                    # X </<= transferred holds on st[1];  !(transferred </<= X), the same fact, holds on st[2]
                    if (st[0][3] == ("local", accn) and cfg.dominates(st[1], db)) or (st[0][2] == ("local", accn) and cfg.dominates(st[2], db)):
                        return True
                return False
            guarded = True
            for l in idx_l:
                for d in du.defs.get(l, []):
                    if d[2] == "assign" and op_const(d[3]["rhs"].get("a")) is None and d[3]["rhs"]["k"] == "use":
                        if not on_complete_edge(d[0]):
                            guarded = False
            ok2 = len(idx_l) == 1 and not ssl.params and not ssl.calls and fills and guarded
        # an iteration that moves on to the next caller element without entering the call loop must count the element it skips
        if ok2 and loop_calls:
            loops = cfg.natural_loops()
            inner_h = None
            outer_h = None
            for h, blocks in sorted(loops.items(), key=lambda kv: len(kv[1])):
                if x in blocks and inner_h is None:
                    inner_h = h
                elif x in blocks and outer_h is None:
                    outer_h = (h, blocks)
            idx_locals = list(idx_l)
            inc_blocks = {d[0] for l in idx_locals for d in du.defs.get(l, []) if d[2] == "assign" and op_const(d[3]["rhs"].get("a")) is None and d[0] in (outer_h[1] if outer_h else set())}
            if outer_h and inner_h is not None:
                h, blocks = outer_h
                # cycles header -> header avoiding the inner loop header and every index increment
                sub_start = [s_ for s_ in cfg.succ[h] if s_ in blocks]
                r = set()
                work = list(sub_start)
                while work:
                    y = work.pop()
                    if y in r or y not in blocks or y == inner_h or y in inc_blocks:
                        continue
                    r.add(y)
                    work.extend(cfg.succ[y])
                if any(h in cfg.succ[y] for y in r) or any(h == s_ for y in r for s_ in cfg.succ[y]):
                    ok2 = False
        if ok2:
            run.ok(rid_suffix, b.npath + "/suffix", "vec.iter().skip(index), index += 1 under transferred >= length")
        else:
            run.fail(rid_suffix, b.npath + "/suffix", b.loc(), "%s does not rebuild the kernel array as the caller's elements from the first unfinished one (skip(index) with index advanced only on completion)" % nm)


def fresh_mode_rule(run, f, rid):
    """The wrappers decide and restore the mode from what the kernel says *now*; a remembered answer goes stale when the
    caller changes the mode with fcntl/ioctl or the number is reused."""
    run.rule(rid, "is_blocking / set_blocking / set_non_blocking read and write the descriptor's flags through fcntl on every call (no cached answer)", floor=2, template="T5/T9")
    # judged on the three entry points the wrappers use, each as one unit with its private helpers (is_non_blocking,
    # set_non_blocking_flag, or whatever they are called after a refactoring) spliced in
    from analysis.flow import static_of
    for fn in ("syscall::unix::is_blocking", "syscall::unix::set_blocking", "syscall::unix::set_non_blocking"):
        b = common_unit(run, rid, f, fn, force=("is_non_blocking", "set_non_blocking_flag"))
        if b is None:
            continue
        du = DefUse(b)
        cfg = Cfg(b)
        fc = [(x, t) for (x, t) in b.calls() if norm(t.get("callee") or "").endswith("::fcntl") or norm(t.get("callee") or "") == "libc::fcntl"]
        statics = set()
        for (x, t) in b.calls():
            for a in t["args"]:
                st = static_of(b, du, a)
                if st:
                    statics.add(st)
        for blk in b.blocks:
            for s_ in blk["stmts"]:
                if s_["k"] == "assign" and s_["rhs"]["k"] == "tlsref":
                    statics.add(norm(s_["rhs"].get("static") or "thread-local"))
        first_dom = fc and all(cfg.dominates(fc[0][0], r) for r in cfg.returns)
        # the descriptor asked about is the function's own argument
        own_fd = all(backward(b, t["args"][0], du, at=(x, "term"), through_calls="none").params == {1} for (x, t) in fc)
        if fc and first_dom and not statics and own_fd:
            run.ok(rid, fn, "fcntl(fd, F_GETFL) on every call, no static consulted")
        else:
            run.fail(rid, fn, b.loc(), "%s can answer without asking the kernel (fcntl dominates every return: %s, statics consulted: %s, asks about its own fd: %s): a remembered mode goes stale when the caller changes it or the number is reused, and the wrappers then clear the caller's O_NONBLOCK" % (fn.rsplit("::", 1)[1], bool(first_dom), sorted(statics), own_fd))
