"""C04 — Queue operations and task submission always terminate (loop progress classifier)."""
from analysis.facts import norm
from analysis.loops import classify
from rules.common import start, need
from rules import queues as Q

ENTRY_PREFIXES = (Q.OWS + "::", Q.OLQ + "::", Q.WS + "::", Q.LQ + "::")
ENTRIES = ("co_pool::CoroutinePool::submit_task", "co_pool::CoroutinePool::submit_raw_task", "scheduler::Scheduler::submit_raw_co",
           "scheduler::Scheduler::submit_co", "co_pool::CoroutinePool::submit_co", "net::EventLoops::submit_task", "net::EventLoops::submit_co")


def reach(f, roots):
    seen, work = set(), list(roots)
    edges = {}
    while work:
        b = work.pop()
        if b.path in seen:
            continue
        seen.add(b.path)
        nxt = list(f.closures_of(b))
        for (_bid, t) in b.calls(include_cleanup=False):
            if t.get("local") and t.get("callee"):
                for cb in f.by_npath.get(norm(t["callee"]), []):
                    if cb.kind != "Promoted":
                        nxt.append(cb)
                        edges.setdefault(b.npath, set()).add(cb.npath)
        work.extend(nxt)
    return [b for b in f.bodies if b.path in seen and b.kind != "Promoted"], edges


def loops_rule(run, f, rid, roots, floor):
    run.rule(rid, "every loop reachable from queue push/pop/len and from task/coroutine submission makes progress on every cycle (iterator over a finite source created outside the loop, bounded counter incl. progress sentinel, or lock-free Retry)", floor=floor, template="T7 (P6/P3)")
    bodies, edges = reach(f, roots)
    n = 0
    for b in bodies:
        # Drop impls assert emptiness at teardown, Debug impls are not queue operations
        if b.npath.startswith("<") and (" as std::fmt::Debug>" in b.npath or " as std::ops::Drop>" in b.npath):
            continue
        run.fn(b)
        for rep in classify(b):
            n += 1
            run.count("loops")
            run.count("paths_or_states", getattr(rep, "states", 0))
            key = "%s/loop@%s" % (b.npath, "+".join(sorted(rep.kinds)) or "none")
            if rep.ok:
                run.ok(rid, key, {"header_bb": rep.header, "line": rep.line, "progress": sorted(rep.kinds), "bounded_counters": rep.counters})
            else:
                run.fail(rid, "%s/loop-without-progress" % b.npath, b.loc(rep.line),
                         "a cycle of the loop at %s can repeat without any progress step (%s); cycle blocks %s" % (b.loc(rep.line), rep.why or "no iterator advance, bounded-counter increment or Retry on it", rep.bad_cycle),
                         detail={"cycle": rep.bad_cycle, "progress_kinds_seen": sorted(rep.kinds)})
    # recursion among the reachable functions is a loop too
    idx = {}
    def dfs(u, stack, onstack):
        onstack.add(u)
        stack.append(u)
        for v in edges.get(u, ()):
            if v in onstack:
                return stack[stack.index(v):] + [v]
            if v not in idx:
                idx[v] = 1
                r = dfs(v, stack, onstack)
                if r:
                    return r
        onstack.discard(u)
        stack.pop()
        return None
    for u in list(edges):
        if u not in idx:
            idx[u] = 1
            cyc = dfs(u, [], set())
            if cyc:
                run.fail(rid, "recursion/" + cyc[0], "call graph", "recursive call cycle among queue/submission functions: %s" % " -> ".join(cyc), counts_as_instance=False)
                break
    return n


def run(tier):
    run, fx = start("C04", tier,
        "T7 loop-progress classifier (P6) with a path-sensitive sentinel walk (P3) over every natural loop in the functions reachable "
        "(crate-local call graph incl. closures) from the queue types' methods and from task/coroutine submission; a cycle through a loop "
        "header that passes no progress step is reported with its blocks. Recursion among those functions is reported too.",
        ["core/default"],
        not_decided=["termination of st3 / crossbeam / skiplist internals (external crates)", "bounded *time*; only absence of non-progressing cycles is decided"],
        assumptions=["SkipMap/VecDeque/Range iterators are finite", "Steal::Retry means another thread made progress (lock-freedom of crossbeam_deque)"])
    f = fx["core/default"]
    roots = [b for b in f.bodies if b.kind != "Promoted" and (b.npath.startswith(ENTRY_PREFIXES) or b.npath in ENTRIES)]
    for e in ENTRIES:
        need(run, "C04-LOOPS", f, e) if False else None
    loops_rule(run, f, "C04-LOOPS", roots, floor=12)
    from rules.common import hosted
    for e in ENTRIES[:4]:
        # an entry point that was inlined into its only caller is still covered: that caller is an entry point too
        if f.body(e) is None and hosted(run, f, e) is None:
            run.missing("C04-LOOPS", e)
    return run.finish()
