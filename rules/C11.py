"""C11 — Pool worker count is exact and bounded (structural clauses)."""
from rules.common import start
from rules import wave3
from rules import wave2
from rules import pool, sched


def run(tier):
    run, fx = start("C11", tier,
        "T2 increment-only-under-created rule on submit_co, T6 exhaustive decrement table over the 7 CoroutineState variants in "
        "CoroutineCreator::on_state_changed, T9 sole writers and T4 atomic RMW of `running`, linear walk of do_schedule for coroutines that "
        "leave the scheduler without a terminal transition, and the exit condition of do_stop.",
        ["core/default"],
        not_decided=["running <= max under concurrent submit_co from several threads (check-then-act on two atomics)"],
        assumptions=["listeners of a worker coroutine are called on every state change (C07)"])
    f = fx["core/default"]
    pool.running_rule(run, f, "C11-INC", "C11-DEC", "C11-RMW")
    sched.silent_drop_rule(run, f, "C11-NO-SILENT-DROP")
    pool.stop_rule(run, f, "C11-STOP")
    # clauses added for the wave-2 seeds (rules/wave2.py; DESIGN 12a)
    wave2.worker_exit_rule(run, f, "C11-WORKER-EXIT")
    # clauses added for the wave-2 seeds (rules/wave2.py; DESIGN 12a)
    wave3.change_broadcast_rule(run, f, "C11-BROADCAST-EVERY-CHANGE")
    return run.finish()
