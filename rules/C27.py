"""C27 — io_uring completions reach the call that submitted them (config core/io_uring; structural clauses)."""
from rules.common import start
from rules import wave2
from rules import uring


def run(tier):
    run, fx = start("C27", tier,
        "T3 register-before-submit on the 24 generated EventLoop wrappers with token identity between SQE user_data and table key; T5/T1 dispatch in "
        "adapt_io_uring (own user_data, own result, only the timeout entry skipped); T6/T5 errno mapping and T1 slot settlement on the 23 IoUring* "
        "syscall layers; T5 user_data tagging in every Operator call; thread-path token provenance; T9 every submitted opcode is in the modelled one-completion table.",
        ["core/io_uring"],
        not_decided=["kernel behaviour, SQPOLL timing, completion order"],
        assumptions=["io_uring returns the user_data of the SQE in its CQE", "the opcodes listed in rules/uring.py ONE_COMPLETION post exactly one CQE per SQE (kernel contract)"])
    f = fx["core/io_uring"]
    uring.register_first_rule(run, f, "C27-REGISTER-FIRST")
    uring.dispatch_rule(run, f, "C27-DISPATCH")
    uring.errno_rule(run, f, "C27-ERRNO", "C27-SETTLE")
    uring.userdata_rule(run, f, "C27-USERDATA")
    uring.token_rule(run, f, "C27-TOKEN")
    uring.one_completion_rule(run, f, "C27-ONE-COMPLETION")
    # clauses added for the wave-2 seeds (rules/wave2.py; DESIGN 12a)
    wave2.uring_direction_rule(run, f, "C27-DIRECTION")
    return run.finish()
