"""C24 — A memory fault in a coroutine only fails that coroutine (mapping clause and installation order only)."""
from rules.common import start
from rules import wave3
from rules import wave2
from rules import coro


def run(tier):
    run, fx = start("C24", tier,
        "T6/T5: the message chosen by trap_handler is a function of stack_ptr_in_bounds(sp) with sp read from the context's stack-pointer register; "
        "stack_ptr_in_bounds has the operand roles bottom <= sp < top over all segments; T3/T2: handler installed (SIGSEGV+SIGBUS, SA_ONSTACK, once) "
        "before inner.resume and redirects only with a current coroutine; the process-wide handler touches the current coroutine only through its "
        "type-independent `trap` slot (repr(C), parameter-free prefix, one constructor); T1 every path through the handler redirects unless no coroutine "
        "is current; T1 incl. unwind: the suspender pushed for the body is popped on return, unwind and in the trap redirect; T2 error() is reached from "
        "Syscall(.., Executing) only through running().",
        ["core/default"],
        not_decided=["everything after the redirect: corosensei's trap return, health of other coroutines and of the thread (needs execution)"],
        assumptions=["x86_64 Linux: REG_RSP holds the faulting stack pointer"])
    coro.trap_rule(run, fx["core/default"], "C24-MESSAGE", "C24-INSTALL")
    # clauses added for the wave-2 seeds (rules/wave2.py; DESIGN 12a)
    f = fx["core/default"]
    wave2.fault_signals_unblocked_rule(run, f, "C24-FAULT-SIGNALS-UNBLOCKED")
    # clauses added for the wave-2 seeds (rules/wave2.py; DESIGN 12a)
    wave3.always_redirects_rule(run, f, "C24-ALWAYS-REDIRECTS")
    # clauses added for the wave-2 seeds (rules/wave2.py; DESIGN 12a)
    wave3.suspender_popped_rule(run, f, "C24-SUSPENDER-POPPED")
    # clauses added for the wave-2 seeds (rules/wave2.py; DESIGN 12a)
    wave3.error_from_syscall_rule(run, f, "C24-ERROR-FROM-SYSCALL")
    return run.finish()
