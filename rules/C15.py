"""C15 — A coroutine blocked in a hooked call does not stall its event loop (necessary structure)."""
from rules.common import start
from rules import wave2
from rules import timed, abi, hookrules, pool


def run(tier):
    run, fx = start("C15", tier,
        "T2/T5 on EventLoop::wait_just (a coroutine yields before any OS wait, which then runs with a zero timeout; the Suspend mark precedes the yield), "
        "call-graph absence of raw blocking calls in the sleep wrappers, T3 facade bracket (Syscall state before the inner call, running() after) on the "
        "40 facade instances, T6 growth of the pool on Suspend/Syscall and when tasks wait anywhere, and T5/T2 forwarding of the 36 interposed symbols.",
        ["core/default", "hook/default"],
        not_decided=["completion time (about d, not N*d)", "symbol interposition by the dynamic linker (link time)"],
        assumptions=["LD_PRELOAD-style interposition resolves the hook crate's symbols first"])
    f = fx["core/default"]
    hookrules.yield_rule(run, f, "C15-YIELD")
    timed.probe_rule(run, f, "C15-NO-RAW-BLOCK")
    hookrules.facade_rule(run, f, "C15-FACADE")
    hookrules.grow_rule(run, f, "C15-GROW")
    # the pool can only grow while `running` counts live workers and nothing else: a slot that leaks (counted without a
    # worker, or not returned when a worker ends) makes the pool stop growing before max_size and N sleepers run one after another
    pool.running_rule(run, f, "C15-WORKER-INC", "C15-WORKER-DEC", "C15-WORKER-RMW")
    abi.forward_rule(run, fx["hook/default"], "C15-FORWARD")
    # clauses added for the wave-2 seeds (rules/wave2.py; DESIGN 12a)
    wave2.grow_refusal_rule(run, f, "C15-GROW-REFUSAL")
    wave2.idle_block_rule(run, f, "C15-IDLE-PARK")
    return run.finish()
