"""C09 — Delay and cancel requests affect only the coroutine that made them (structural clauses)."""
from rules.common import start
from rules import wave3
from rules import wave2
from rules import coro, pool


def run(tier):
    run, fx = start("C09", tier,
        "Path walk of raw_resume's Yield arm: every state branch consumes the per-yield cancel and delay requests; T1 push-then-yield in the "
        "producers, T9 owners of the two thread-local queues with the queue end each uses, defaults on empty, delay_with deadline provenance; "
        "identity guard of the signal-driven cancel.",
        ["core/default"] + (["core/preemptive"] if tier == "thorough" else []),
        not_decided=["re-entrant signal delivery while a request is being pushed"],
        assumptions=["VecDeque::push_front/pop_front are LIFO on the same end", "thread-locals are per OS thread"])
    for name, f in fx.items():
        coro.drain_rule(run, f, "C09-DRAIN")
        coro.push_yield_rule(run, f, "C09-PUSH-YIELD")
    pool.identity_rule(run, fx["core/default"], "C09-SIGNAL-IDENTITY")
    # clauses added for the wave-2 seeds (rules/wave2.py; DESIGN 12a)
    for _cfg, f in fx.items():
        wave2.request_pairing_rule(run, f, "C09-REQUEST-PAIRING")
    # clauses added for the wave-2 seeds (rules/wave2.py; DESIGN 12a)
    for _cfg, f in fx.items():
        wave3.no_exit_before_yield_rule(run, f, "C09-NO-EXIT-BEFORE-YIELD")
    # clauses added for the wave-2 seeds (rules/wave2.py; DESIGN 12a)
    for _cfg, f in fx.items():
        wave3.suspender_popped_rule(run, f, "C09-SUSPENDER-POPPED")
    return run.finish()
