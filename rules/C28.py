"""C28 — Time and slicing helpers never overflow or loop (structural clauses)."""
from rules.common import start
from rules import misc


def run(tier):
    run, fx = start("C28", tier,
        "T5 arithmetic audit of now/get_timeout_time/get_slices/get_time_limit (no wrapping, unchecked or overflow-asserting arithmetic, no narrowing cast, "
        "try_from with u64::MAX fallback, saturating_add), T7+T5 shape of the get_slices loop (guard left > slice, push slice, subtract slice, remainder "
        "pushed once, zero total -> empty), T6 zero-means-unlimited and scale factors of get_time_limit.",
        ["core/default"],
        not_decided=["a zero slice (outside the statement) makes the loop infinite"],
        assumptions=["Duration::checked_sub(a, b) is Some when a > b"])
    f = fx["core/default"]
    misc.arith_rule(run, f, "C28-ARITH")
    misc.slices_rule(run, f, "C28-SLICES")
    misc.time_limit_rule(run, f, "C28-ZERO")
    return run.finish()
