"""C23 — Stack growth runs the callback with room to spare and restores bookkeeping (structural clauses)."""
from rules.common import start
from rules import coro


def run(tier):
    cfgs = ["core/default", "hook/default"]
    run, fx = start("C23", tier,
        "T1 pairing including unwind exits: the StackInfo pushed before corosensei::on_stack is popped by an RAII guard on return and on the unwind "
        "edge, on both growth paths; T2 in-place fast path only under remaining >= red_zone measured against the last segment; T5 value pass-through; "
        "hook crate: zero arguments are replaced by the defaults and the parameter is passed through, the user function is called only inside the callback "
        "handed to maybe_grow_with; T5 the segment size derives from max(stack_size, red_zone).",
        cfgs,
        not_decided=["that the red zone is physically available (needs the real stack pointer)", "frame sizes"],
        assumptions=["corosensei::on_stack re-raises a panic of the callback on the original stack", "Drop of a local runs on unwind"])
    coro.grow_rule(run, fx["core/default"], "C23-PAIR-UNWIND", "C23-CHECK", "C23-VALUE")
    from rules import abi
    abi.grow_abi_rule(run, fx["hook/default"], "C23-ABI")
    from rules import wave3
    wave3.callback_only_via_grow_rule(run, fx["hook/default"], "C23-CALLBACK-ONLY-VIA-GROW")
    wave3.grow_size_rule(run, fx["core/default"], "C23-SEGMENT-SIZE")
    return run.finish()
