"""C01 — Every submitted task runs exactly once (structural necessary conditions)."""
from rules.common import start
from rules import wave3
from rules import wave2
from rules import queues, pool, hookrules
from rules.C03 import rmw_rule


def run(tier):
    run, fx = start("C01", tier,
        "Linear-resource walk of the by-value task through every queue push/pop function (no path drops or duplicates it), run-once/cancel-only-skip "
        "rule on CoroutinePool::try_run, submit -> queue -> wake ordering and handle provenance, round-robin index provenance, exit condition of the "
        "event-loop consumer loop, atomic RMW on the queue counters, and call-graph reachability of owner-only st3 operations from the any-thread entry points.",
        ["core/default"],
        not_decided=["exactly-once under all interleavings of st3/crossbeam internals", "that a worker coroutine is eventually scheduled (fairness)"],
        assumptions=["st3::fifo::Worker::{push,pop} are owner-only; Stealer::steal and crossbeam Injector are multi-thread safe", "Option::map runs its closure exactly once on Some"])
    f = fx["core/default"]
    queues.linear_rule(run, f, "C01-LINEAR")
    pool.run_once_rule(run, f, "C01-RUN-ONCE")
    pool.submit_rule(run, f, "C01-SUBMIT")
    pool.keep_scheduling_rule(run, f, "C01-KEEP-SCHEDULING")
    run.rule("C01-COUNTER", "queue length counters are only changed by atomic read-modify-write (an under-count strands a queued task behind the pop fast path)", floor=6, template="T4")
    rmw_rule(run, f, "C01-COUNTER", adt_filter=queues_adts())
    queues.pair_rule(run, f, "C01-PAIR")
    pool.owner_rule(run, f, "C01-OWNER")
    # stranding clauses shared with C06 / C11: the shared queue is visited periodically; workers can always be created
    queues.tick_rule(run, f, "C01-SHARED-VISITED")
    pool.running_rule(run, f, "C01-WORKER-INC", "C01-WORKER-DEC", "C01-WORKER-RMW")
    # a task waiting in any queue this pool can take from gets a worker: try_grow refuses only when local, sibling and
    # shared queues are all empty, and a blocked worker is replaced (otherwise the task is stranded while the loop runs)
    hookrules.grow_rule(run, f, "C01-WORKER-FOR-WAITING-TASK")
    # clauses added for the wave-2 seeds (rules/wave2.py; DESIGN 12a)
    wave2.grow_refusal_rule(run, f, "C01-GROW-REFUSAL")
    # clauses added for the wave-2 seeds (rules/wave2.py; DESIGN 12a)
    wave3.container_api_rule(run, f, "C01-CONTAINER-API")
    return run.finish()


def queues_adts():
    from rules.queues import OWS, OLQ, WS, LQ
    return (OWS, OLQ, WS, LQ)
