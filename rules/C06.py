"""C06 — Work in the shared queue is not starved by local work (structural clauses)."""
from rules.common import start
from rules import queues


def run(tier):
    run, fx = start("C06", tier,
        "T2/T3 on LocalQueue::pop and OrderedLocalQueue::pop: tick() once before every return, every k-th (constant k<=61) pop calls the "
        "shared queue's full pop before any local pop and returns its item; T1: a local miss cannot return without a steal+local pop or the "
        "shared pop, the steal lock is released on all paths; T5: sweep index is (start+i)%num over 0..num; T1: pop_local forgets a stale count.",
        ["core/default"],
        not_decided=["the bound 61 as a count over real histories", "fairness among siblings (random start)"],
        assumptions=["is_multiple_of(k) is true exactly every k-th tick", "st3 Stealer::steal returns Err when nothing was moved"])
    f = fx["core/default"]
    queues.tick_rule(run, f, "C06-TICK")
    queues.fallback_rule(run, f, "C06-FALLBACK")
    queues.sweep_rule(run, f, "C06-SWEEP")
    queues.len_reset_rule(run, f, "C06-LEN-RESET")
    queues.retry_rule(run, f, "C06-SHARED-RETRY")
    return run.finish()
