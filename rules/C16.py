"""C16 — Hooked socket I/O reports exactly the bytes it transferred (data-flow skeleton)."""
from rules.common import start
from rules import wave2_nio
from rules import nio


def run(tier):
    cfgs = ["core/default"] + (["core/io_uring"] if tier == "thorough" else [])
    run, fx = start("C16", tier,
        "P3 abstract interpretation of each of the 14 byte-moving NIO wrappers over (accumulator non-zero, kind of value in the result local, errno known zero, "
        "remembered blocking flag): no exit returns a raw -1 or a last-call count after earlier bytes, zero-length requests return 0; T5 window (buf+k, len-k) "
        "and accumulate-once rules on the buffer family; T5 head-element rule on the vectored family.",
        cfgs,
        not_decided=["the byte stream itself for arbitrary kernel scripts", "errno after foreign calls between the failure and the return"],
        assumptions=["reset_errno() sets errno to 0", "io::Error::last_os_error() with errno 0 has a kind that is neither WouldBlock nor Interrupted", "extern \"C\" frames abort on panic"])
    for name, f in fx.items():
        nio.window_rule(run, f, "C16-WINDOW")
        nio.result_rule(run, f, "C16-MINUS-ONE", "C16-TOTAL", "C16-ZERO")
        nio.head_rule(run, f, "C16-HEAD")
    # clauses added for the wave-2 seeds (rules/wave2.py; DESIGN 12a)
    for _cfg, f in fx.items():
        wave2_nio.errno_not_stale_rule(run, f, "C16-ERRNO-FRESH")
        wave2_nio.no_raw_array_rule(run, f, "C16-NO-RAW-ARRAY")
        wave2_nio.index_advances_rule(run, f, "C16-INDEX-ADVANCES")
    # clauses added for the wave-2 seeds (rules/wave2.py; DESIGN 12a)
    for _cfg, f in fx.items():
        wave2_nio.no_reissue_while_head_wrong_rule(run, f, "C16-HEAD-UNUSED-AFTER-SUCCESS")
    return run.finish()
