"""Rule instances on the selector / event-loop readiness path (C19 parts, C20, C21)."""
from analysis.facts import norm
from analysis.cfg import Cfg
from analysis.flow import DefUse, backward, find_calls, callee_is, callee_ends, op_local, op_const, static_of, field_chain, bool_branch, variant_arms, switch_info
from analysis.table import PathWalker, describe_val, outcome_on_path
from analysis.inline import inline
from rules.common import need, unit, inl

SEL = "net::selector::Selector"
REC = {"net::selector::READABLE_RECORDS": "R", "net::selector::WRITABLE_RECORDS": "W"}
FD_STATICS = ("syscall::unix::SEND_TIME_LIMIT", "syscall::unix::RECV_TIME_LIMIT", "net::selector::READABLE_RECORDS", "net::selector::WRITABLE_RECORDS",
              "net::selector::READABLE_TOKEN_RECORDS", "net::selector::WRITABLE_TOKEN_RECORDS")
LOOP = "net::event_loop::EventLoop"
LOOPS = "net::EventLoops"


OSCALLS = tuple(SEL + "::" + p + n for p in ("", "do_") for n in ("register", "reregister", "deregister"))


def _from_event_token(f, b, du, op, at):
    """The operand is the token of the readiness event being handled: `event.get_token()` reached through value-preserving
    steps, or the item of a lazy iterator chain built here whose mapping function is get_token
    (`events.iter().filter(..).map(Event::get_token).for_each(|token| ..)`)."""
    sl = backward(b, op, du, at=at, through_calls="none")
    if sl.binops():
        return False
    if any(norm(t.get("orig") or "").endswith("Event::get_token") for (_x, t) in sl.calls):
        return True
    if not any(norm(t.get("orig") or "").endswith("Iterator::next") for (_x, t) in sl.calls):
        return False
    al = backward(b, op, du, at=at, through_calls="all")
    maps = [t for (_x, t) in al.calls if norm(t.get("orig") or t.get("callee") or "").endswith("Iterator::map")]
    for t in maps:
        fn = t["args"][1] if len(t["args"]) > 1 else None
        if fn is None:
            continue
        if fn["k"] == "const" and fn.get("fn") and norm(fn["fn"].get("orig") or fn["fn"]["callee"]).endswith("Event::get_token"):
            return True
        d = describe_val(b, du, fn)
        if isinstance(d, tuple) and d and d[0] == "closure":
            for cb in f.by_npath.get(d[1], []):
                cs = [norm(tt.get("orig") or "") for (_y, tt) in cb.calls()]
                if any(c.endswith("Event::get_token") for c in cs) and len([c for c in cs if c]) == 1:
                    return True
    return False


# ------------------------------------------------------------------ C21 machine
def _steps(f, b, w, path, conds):
    """Translate a path into abstract steps by interpreting it with value provenance: every OS call (register /
    reregister / deregister / a nested del_event) gets a number, its `Result` is followed through moves, `?`
    (Try::branch), `Ok(())` re-wraps and `match`es, and the arm the path takes at a switch on such a value fixes that
    call's outcome -- however the author spelled the propagation (`?`, `or_else`, `match`, a bound `outcome`).
    Returns the list of alternatives (a call whose result nothing on the path inspects stands for both outcomes);
    [] when the path is infeasible (it takes the `Err` arm of a value it built as `Ok(())`)."""
    du = w.du
    path = list(path)
    env = {}          # local -> ("res", k) | ("cf", k) | ("known", "Ok"|"Err")
    calls = []        # [kind, interest, res]
    steps = []
    interest = None
    for idx, x in enumerate(path):
        blk = b.blocks[x]
        for st_ in blk["stmts"]:
            if st_["k"] != "assign":
                continue
            l = st_["lhs"]["l"]
            if st_["lhs"]["proj"]:
                env.pop(l, None)
                continue
            rv = st_["rhs"]
            src = rv["a"]["p"]["l"] if rv["k"] == "use" and rv["a"]["k"] in ("copy", "move") and not rv["a"]["p"]["proj"] else None
            if src is not None and src in env:
                env[l] = env[src]
            elif rv["k"] == "agg" and norm(rv.get("adt") or "") == "std::result::Result":
                vn = f.variant_by_discr(rv["adt"], rv["variant"]) if not isinstance(rv["variant"], str) else rv["variant"]
                env[l] = ("known", vn if vn in ("Ok", "Err") else ("Ok" if str(rv["variant"]) == "0" else "Err"))
            else:
                env.pop(l, None)
        t = blk["term"]
        if t["k"] == "call":
            c = norm(t.get("callee") or "")
            o = norm(t.get("orig") or "")
            dl = t["dest"]["l"] if not t["dest"]["proj"] else None
            a0 = t["args"][0] if t["args"] else None
            a0l = a0["p"]["l"] if a0 is not None and a0["k"] in ("copy", "move") and not a0["p"]["proj"] else None
            val = None
            if c == "dashmap::DashSet::contains":
                rec = REC.get(static_of(b, du, t["args"][0]))
                v = outcome_on_path(b, du, path, x)
                if rec and v is not None:
                    steps.append(("test", rec, v))
            elif o.startswith("net::selector::Interest::"):
                interest = {"read": "r", "write": "w", "read_and_write": "rw"}.get(o.rsplit("::", 1)[1])
            elif c in OSCALLS or o in OSCALLS:
                # the wrapper (register = do_register + TOKEN_FD bookkeeping) or, when the author inlined the wrapper,
                # the primitive itself
                c = c if c in OSCALLS else o
                calls.append([c.rsplit("::", 1)[1].replace("do_", ""), interest if "deregister" not in c else None, None])
                steps.append(("os", len(calls) - 1))
                val = ("res", len(calls) - 1)
            elif c == SEL + "::del_event" and getattr(b, "origin", b).npath != SEL + "::del_event":
                calls.append(["call:del_event", None, None])
                steps.append(("os", len(calls) - 1))
                val = ("res", len(calls) - 1)
            elif c == "std::result::Result::or_else" and a0l in env and env[a0l][0] == "res":
                # a fallback closure that was not spliced: `a().or_else(|_| b())` -- b runs iff a failed; the combined
                # value is a's on success and b's otherwise.  Modelled as one compound call.
                k = env[a0l][1]
                for cb in f.closures_of(getattr(b, "origin", b)):
                    for (_y, tt) in cb.calls():
                        cc = norm(tt.get("callee") or "")
                        cc = cc if cc in OSCALLS else norm(tt.get("orig") or "")
                        if cc in OSCALLS and "deregister" not in cc:
                            calls[k] = [calls[k][0] + "+" + cc.rsplit("::", 1)[1].replace("do_", ""), calls[k][1], None]
                val = ("res", k)
            elif c.endswith("Try>::branch") and a0l in env:
                v = env[a0l]
                val = ("cf", v[1]) if v[0] == "res" else (("knowncf", v[1]) if v[0] == "known" else None)
            elif c.endswith("FromResidual>::from_residual") or c.endswith("FromResidual<std::result::Result>>::from_residual"):
                val = ("known", "Err")
            elif c in ("dashmap::DashSet::insert", "dashmap::DashSet::remove"):
                rec = REC.get(static_of(b, du, t["args"][0]))
                if rec:
                    steps.append(("rec", rec, "add" if c.endswith("insert") else "del"))
            if dl is not None:
                if val is not None:
                    env[dl] = val
                else:
                    env.pop(dl, None)
        elif t["k"] == "switch" and idx + 1 < len(path):
            si = switch_info(b, du, x)
            if si["kind"] == "discr" and not si["place"]["proj"] and si["place"]["l"] in env:
                v = env[si["place"]["l"]]
                nxt = path[idx + 1]
                names = [n for n, bb in si["arms"].items() if bb == nxt]
                if not names and nxt == t["otherwise"]:
                    names = list(si.get("rest") or [])
                names = set(names)
                if v[0] in ("res", "cf") and len(names) == 1:
                    nm = next(iter(names))
                    res = {"Ok": "ok", "Err": "err", "Continue": "ok", "Break": "err"}.get(nm)
                    if res is not None:
                        if calls[v[1]][2] is not None and calls[v[1]][2] != res:
                            return []
                        calls[v[1]][2] = res
                elif v[0] == "known" and names and v[1] not in names:
                    return []
                elif v[0] == "knowncf" and names and {"Ok": "Continue", "Err": "Break"}[v[1]] not in names:
                    return []
    # alternatives for calls whose outcome the path never inspects
    alts = [[]]
    for k, cl in enumerate(calls):
        alts = [a + [r] for a in alts for r in ((cl[2],) if cl[2] is not None else ("ok", "err"))]
    out = []
    for a in alts:
        out.append([("os", calls[s_[1]][0], calls[s_[1]][1], a[s_[1]]) if s_[0] == "os" else s_ for s_ in steps])
    return out


def _os_apply(kind, interest, os):
    """Kernel model: register fails if already registered, reregister/deregister fail if not registered.  A compound
    `a+b` (un-spliced `a().or_else(|_| b())`) succeeds when a or, failing that, b succeeds."""
    def one(k, osv):
        if k == "register":
            return (False, osv) if osv else (True, interest)
        if k == "reregister":
            return (True, interest) if osv else (False, osv)
        if k == "deregister":
            return (True, "") if osv else (False, osv)
        return (False, osv)
    ok, o2 = False, os
    for k in kind.split("+"):
        ok, o2 = one(k, os)
        if ok:
            break
    return ok, o2


def machine_rule(run, f, rid):
    run.rule(rid, "interest machine: after every add/del operation the OS interest equals the union of the read/write records, and records change only after the OS call succeeded (4 consistent states x 5 operations x every path)", floor=20, template="T6 + P8 typestate table")
    ops = {}
    for nm in ("add_read_event", "add_write_event", "del_event", "del_read_event", "del_write_event"):
        b = unit(run, rid, f, SEL + "::" + nm)
        if b is None:
            continue
        w = PathWalker(b)
        paths = w.walk(0, lambda bid, t: ("return",) if t["k"] == "return" else None)
        ops[nm] = [(st, p) for (p, c, s_) in paths for st in _steps(f, b, w, p, c)]
        run.count("paths_or_states", len(paths))

    def union(R, W):
        return ("r" if R else "") + ("w" if W else "")

    def simulate(nm, state, depth=0):
        """All feasible outcomes [(R, W, OS, failed, note)] of running op nm from state."""
        outs = []
        for steps, _p in ops.get(nm, []):
            R, W, OS = state
            R0, W0 = R, W
            feasible, failed, note = True, False, None
            sub_outs = None
            for st in steps:
                if st[0] == "test":
                    cur = R if st[1] == "R" else W
                    if cur != st[2]:
                        feasible = False
                        break
                elif st[0] == "os":
                    kind, interest, res = st[1], st[2], st[3]
                    if kind == "call:del_event":
                        subs = simulate("del_event", (R, W, OS), depth + 1) if depth < 2 else []
                        subs = [s for s in subs if (s[3] is False) == (res == "ok")]
                        if not subs:
                            feasible = False
                            break
                        R, W, OS = subs[0][0], subs[0][1], subs[0][2]
                        failed = res == "err"
                        continue
                    ok, os2 = _os_apply(kind, interest, OS)
                    if res == "ok":
                        if not ok:
                            feasible = False     # the model says this call fails from here; an `ok` path is infeasible
                            break
                        OS = os2
                        failed = False           # a fallback that succeeded makes up for the attempt before it
                    else:
                        # the model agrees (e.g. reregister of an unregistered fd) or an external reason (EBADF, EPERM ...):
                        # either way the OS state is unchanged
                        failed = True
                elif st[0] == "rec":
                    if failed is False and not any(s[0] == "os" for s in steps[:steps.index(st)]) and any(s[0] == "os" for s in steps):
                        note = "record %s changed before the OS call" % st[1]
                    if failed:
                        note = "record %s changed although the OS call before it failed" % st[1]
                    if st[1] == "R":
                        R = st[2] == "add"
                    else:
                        W = st[2] == "add"
            if feasible:
                if failed and (R, W) != (R0, W0):
                    note = "records changed although the OS call failed"
                outs.append((R, W, OS, failed, note))
        return outs

    for nm in ops:
        for R in (False, True):
            for W in (False, True):
                st = (R, W, union(R, W))
                outs = simulate(nm, st)
                run.count("table_rows")
                key = "%s/from-%s" % (nm, union(R, W) or "none")
                bad = [o for o in outs if (not o[3] and o[2] != union(o[0], o[1])) or o[4]]
                want_ok = [o for o in outs if not o[3]]
                # expected post-state of a successful run
                exp = {"add_read_event": (True, W), "add_write_event": (R, True), "del_event": (False, False), "del_read_event": (False, W), "del_write_event": (R, False)}[nm]
                wrong = [o for o in want_ok if (o[0], o[1]) != exp]
                if not outs:
                    run.fail(rid, key, SEL + "::" + nm, "no feasible path of %s from state R=%s W=%s OS=%s" % (nm, R, W, union(R, W)))
                elif bad or wrong:
                    o = (bad or wrong)[0]
                    run.fail(rid, key, SEL + "::" + nm, "%s from (read=%s, write=%s): ends with records (read=%s, write=%s) and OS interest '%s'%s; the OS interest must equal the union of the records and the records must be (read=%s, write=%s)" % (nm, R, W, o[0], o[1], o[2], " [%s]" % o[4] if o[4] else "", exp[0], exp[1]))
                else:
                    run.ok(rid, key, {"outcomes": [[o[0], o[1], o[2], "failed" if o[3] else "ok"] for o in outs]})


def close_rule(run, f, rid):
    run.rule(rid, "close drops all interest before the descriptor is closed; shutdown drops exactly the interest of the direction(s) shut down and rejects other values first", floor=2, template="T3/T6")
    b = need(run, rid, f, "<syscall::unix::close::NioCloseSyscall as syscall::unix::close::CloseSyscall>::close")
    if b is not None:
        cfg = Cfg(b)
        de = find_calls(b, callee_is(LOOPS + "::del_event"))
        inner = [x for (x, t) in b.calls() if norm(t.get("orig") or "").endswith("CloseSyscall::close")]
        if de and inner and cfg.dominates(de[0][0], inner[0]):
            run.ok(rid, "close/del-before-close", "EventLoops::del_event(fd) dominates inner.close")
        else:
            run.fail(rid, "close/del-before-close", b.loc(), "the hooked close must deregister the descriptor (EventLoops::del_event) before closing it; afterwards the number may already be reused")
    b = unit(run, rid, f, "<syscall::unix::shutdown::NioShutdownSyscall as syscall::unix::shutdown::ShutdownSyscall>::shutdown")
    if b is not None:
        from analysis.table import int_facts
        w = PathWalker(b)
        paths = w.walk(0, lambda bid, t: ("return",) if t["k"] == "return" else None)
        run.count("paths_or_states", len(paths))
        want = {"0": LOOPS + "::del_read_event", "1": LOOPS + "::del_write_event", "2": LOOPS + "::del_event"}
        is_how = lambda d: isinstance(d, tuple) and len(d) >= 3 and d[0] == "param" and d[2] == "how"
        why = []
        seen = {k: 0 for k in list(want) + ["other"]}
        for (pth, conds, sv) in paths:
            if sv[0] != "return":
                continue
            eq, ne = int_facts(conds, is_how)
            calls = [norm(b.blocks[x]["term"].get("callee") or "") for x in pth if b.blocks[x]["term"]["k"] == "call"]
            origs = [norm(b.blocks[x]["term"].get("orig") or "") for x in pth if b.blocks[x]["term"]["k"] == "call"]
            dels = [c for c in calls if c.startswith(LOOPS + "::del_")]
            inner = any(o.endswith("ShutdownSyscall::shutdown") for o in origs)
            for v in list(want) + ["other"]:
                if v == "other":
                    if eq & set(want):
                        continue
                else:
                    if (eq and eq != {v}) or v in ne:
                        continue
                seen[v] += 1
                if v == "other":
                    if inner or "syscall::unix::set_errno" not in calls:
                        why.append("an invalid `how` is not rejected with EINVAL before the inner call")
                    if dels:
                        why.append("an invalid `how` drops interest (%s)" % sorted(c.rsplit("::", 1)[1] for c in dels))
                else:
                    if dels != [want[v]]:
                        why.append("SHUT value %s drops %s (expected %s)" % (v, [c.rsplit("::", 1)[1] for c in dels], want[v].rsplit("::", 1)[1]))
                    elif not inner:
                        why.append("SHUT value %s never reaches the inner shutdown" % v)
                    elif pth.index([x for x in pth if norm(b.blocks[x]["term"].get("callee") or "") == want[v]][0]) > [i for i, x in enumerate(pth) if norm(b.blocks[x]["term"].get("orig") or "").endswith("ShutdownSyscall::shutdown")][0]:
                        why.append("SHUT value %s drops the interest only after the inner shutdown" % v)
        for v, n in seen.items():
            if n == 0:
                why.append("no path for `how` = %s" % v)
        if why:
            run.fail(rid, "shutdown/mapping", b.loc(), "; ".join(sorted(set(why))[:4]))
        else:
            run.ok(rid, "shutdown/mapping", "SHUT_RD->del_read_event, SHUT_WR->del_write_event, SHUT_RDWR->del_event, else EINVAL")


def per_selector_rule(run, f, rid):
    run.rule(rid, "record tables that decide whether an OS registration can be skipped are scoped to the selector whose OS object they mirror", floor=1, template="T9")
    statics_used = set()
    for nm in ("add_read_event", "add_write_event", "del_event", "del_read_event", "del_write_event"):
        b = f.body(SEL + "::" + nm)
        if b is None:
            continue
        du = DefUse(b)
        for (x, t) in b.calls():
            if norm(t.get("callee") or "").startswith(("dashmap::DashSet::", "dashmap::DashMap::")) and t["args"]:
                s = static_of(b, du, t["args"][0])
                if s in REC:
                    statics_used.add(s)
    # one Poller per EventLoop, several EventLoops per process
    el = f.nadts.get(LOOP)
    has_own = any(fd["name"] == "selector" and "Poller" in fd["ty"] for v in (el or {"variants": []})["variants"] for fd in v["fields"])
    nb = f.body(LOOPS + "::new")
    many = nb is not None and Cfg(nb).in_cycle([x for (x, t) in nb.calls() if norm(t.get("callee") or "") == LOOP + "::new"][0]) if nb is not None and [x for (x, t) in nb.calls() if norm(t.get("callee") or "") == LOOP + "::new"] else False
    if statics_used and has_own and many:
        run.fail(rid, "net::selector::READABLE_RECORDS+WRITABLE_RECORDS/process-wide-vs-per-loop-poller", "core/src/net/selector/mod.rs",
                 "the interest records (%s) are process-wide statics while every event loop owns its own Poller: once loop A has registered a descriptor, a wait on loop B finds the record, skips its own registration and B's epoll never learns of the descriptor" % ", ".join(sorted(s.rsplit("::", 1)[1] for s in statics_used)))
    else:
        run.ok(rid, "records/scope", {"statics": sorted(statics_used), "poller_per_loop": has_own, "several_loops": bool(many)})


# ------------------------------------------------------------------ C20
def lossless_rule(run, f, rid):
    run.rule(rid, "the token registered with the OS is the value the event hands back: no fold, shift, xor or narrowing cast on the way in or out", floor=3, template="T5")
    P = "<net::selector::mio_adapter::Poller as net::selector::Selector>"
    for fn in (P + "::do_register", P + "::do_reregister"):
        b = need(run, rid, f, fn)
        if b is None:
            continue
        du = DefUse(b)
        reg = [(x, t) for (x, t) in b.calls() if norm(t.get("callee") or "") in ("mio::Registry::register", "mio::Registry::reregister")]
        why = []
        if len(reg) != 1:
            why.append("no single mio register/reregister call")
        else:
            x, t = reg[0]
            ok, detail = _lossless(f, b, du, t["args"][2], (x, "term"), "token")
            if not ok:
                why.append(detail)
        if why:
            run.fail(rid, fn + "/token", b.loc(), "%s: %s" % (fn.rsplit("::", 1)[1], "; ".join(why)))
        else:
            run.ok(rid, fn + "/token", "Token(token) unchanged")
    b = need(run, rid, f, "<mio::event::Event as net::selector::Event>::get_token")
    if b is not None:
        du = DefUse(b)
        sl = backward(b, 0, du)
        narrowing = [c for (c, s) in sl.casts() if c[0] == "IntToInt" and _bits(c[1]) > _bits(c[2])]
        if any(norm(t.get("callee") or "") == "mio::event::Event::token" for (_x, t) in sl.calls) and not sl.binops() and not narrowing:
            run.ok(rid, "get_token", "self.token().0 as u64")
        else:
            run.fail(rid, "get_token", b.loc(), "the token decoded from an event is not the registered value (arithmetic %s, narrowing casts %s)" % (sl.binops(), narrowing))


def _bits(ty):
    return {"u8": 8, "i8": 8, "u16": 16, "i16": 16, "u32": 32, "i32": 32, "u64": 64, "i64": 64, "usize": 64, "isize": 64, "u128": 128, "i128": 128}.get(ty, 64)


def _lossless(f, b, du, op, at, param_name, depth=2):
    """Is the value of op derived from the parameter `param_name` through value-preserving steps only?
    Follows repo-local helper functions (inlining bound `depth`)."""
    sl = backward(b, op, du, at=at, through_calls="pass", stop_call=lambda c, t: bool(t.get("local")))
    if sl.binops():
        return False, "the token is folded/combined with %s before registration (lossy: the event loop looks the decoded value up among 64-bit ids)" % sorted(set(sl.binops()))
    narrowing = [c for (c, s) in sl.casts() if c[0] == "IntToInt" and _bits(c[1]) > _bits(c[2])]
    if narrowing:
        return False, "the token is narrowed by %s" % narrowing
    if any(b.name_of(p) == param_name for p in sl.params):
        return True, ""
    for (x, t) in sl.calls:
        if t.get("local") and depth > 0:
            for cb in f.by_npath.get(norm(t["callee"]), []):
                if cb.kind == "Promoted":
                    continue
                # which argument carries our parameter?
                for i, a in enumerate(t["args"]):
                    asl = backward(b, a, du, at=(x, "term"), through_calls="pass")
                    if any(b.name_of(p) == param_name for p in asl.params) and not asl.binops():
                        d2 = DefUse(cb)
                        ok, det = _lossless(f, cb, d2, {"k": "copy", "p": {"l": 0, "proj": []}}, None, cb.name_of(i + 1), depth - 1)
                        return ok, det
    return False, "the registered token does not derive from the `%s` parameter" % param_name


def chain_rule(run, f, rid):
    run.rule(rid, "a readiness event resumes the coroutine whose id was registered: wait_just -> resume(token) -> try_resume(token); registration uses the current coroutine's id", floor=4, template="T5")
    # end to end on wait_just with EventLoop::resume spliced in (whether `resume` is a function of its own or was inlined
    # by the author): every Scheduler::try_resume(t) has t = event.get_token() unchanged, and is guarded by
    # COROUTINE_TOKENS.remove(&t) having found that same token
    b = unit(run, rid, f, LOOP + "::wait_just", force=(LOOP + "::resume",))
    if b is not None:
        du = DefUse(b)
        cfg = Cfg(b)
        tr = find_calls(b, callee_is("scheduler::Scheduler::try_resume"))
        rm = [(x, t) for (x, t) in find_calls(b, callee_is("dashmap::DashSet::remove")) if static_of(b, du, t["args"][0]) == "net::event_loop::COROUTINE_TOKENS"]
        why = None
        if not tr:
            why = "wait_just never resumes a coroutine for a readiness event"
        for (x, t) in tr:
            if not _from_event_token(f, b, du, t["args"][1], (x, "term")):
                why = "wait_just must resume exactly the token carried by the readiness event"
            guards = [(y, tt) for (y, tt) in rm if cfg.dominates(y, x)]
            if not guards:
                why = why or "the token is resumed without being looked up (and removed) in COROUTINE_TOKENS first"
            for (y, tt) in guards:
                if not _from_event_token(f, b, du, tt["args"][1], (y, "term")):
                    why = why or "the token looked up in COROUTINE_TOKENS is not the token that is resumed"
        if why:
            run.fail(rid, "wait_just/resume-token", b.loc(), why)
        else:
            run.ok(rid, "wait_just/resume-token", "COROUTINE_TOKENS.remove(&event.get_token()) then try_resume(event.get_token())")
    if f.body(LOOP + "::resume") is not None:
        b = need(run, rid, f, LOOP + "::resume")
        du = DefUse(b)
        cfg = Cfg(b)
        rm = [(x, t) for (x, t) in find_calls(b, callee_is("dashmap::DashSet::remove")) if static_of(b, du, t["args"][0]) == "net::event_loop::COROUTINE_TOKENS"]
        tr = find_calls(b, callee_is("scheduler::Scheduler::try_resume"))
        ok = len(rm) == 1 and len(tr) == 1 and cfg.dominates(rm[0][0], tr[0][0])
        if ok:
            k1 = backward(b, rm[0][1]["args"][1], du, at=(rm[0][0], "term"), through_calls="none")
            k2 = backward(b, tr[0][1]["args"][1], du, at=(tr[0][0], "term"), through_calls="none")
            ok = {b.name_of(p) for p in k1.params} == {"token"} and {b.name_of(p) for p in k2.params} == {"token"} and not k1.ops and not k2.ops
        if ok:
            run.ok(rid, "resume/token", "COROUTINE_TOKENS.remove(&token) then try_resume(token)")
        else:
            run.fail(rid, "resume/token", b.loc(), "EventLoop::resume must look up and resume exactly its token argument")
    b = need(run, rid, f, LOOP + "::token")
    if b is not None:
        du = DefUse(b)
        cfg = Cfg(b)
        cur = find_calls(b, callee_is("coroutine::korosensei::Coroutine::current"))
        ids = find_calls(b, callee_is("coroutine::korosensei::Coroutine::id"))
        ins = [(x, t) for (x, t) in find_calls(b, callee_is("dashmap::DashSet::insert")) if static_of(b, du, t["args"][0]) == "net::event_loop::COROUTINE_TOKENS"]
        ok = cur and ids and ins and any(x == ids[0][0] for (x, _t) in backward(b, ins[0][1]["args"][1], du, at=(ins[0][0], "term"), through_calls="none").calls)
        if ok:
            run.ok(rid, "token/coroutine-id", "token = current coroutine's id, recorded in COROUTINE_TOKENS")
        else:
            run.fail(rid, "token/coroutine-id", b.loc(), "inside a coroutine the registration token must be the coroutine's own id and be recorded")
    for fn, sel in ((LOOP + "::add_read_event", SEL + "::add_read_event"), (LOOP + "::add_write_event", SEL + "::add_write_event")):
        b = need(run, rid, f, fn)
        if b is None:
            continue
        du = DefUse(b)
        c = [(x, t) for (x, t) in b.calls() if norm(t.get("callee") or "") == sel]
        ok = len(c) == 1 and any(norm(t.get("callee") or "") == LOOP + "::token" for (_x, t) in backward(b, c[0][1]["args"][2], du, at=(c[0][0], "term"), through_calls="none").calls)
        if ok:
            run.ok(rid, fn + "/token", "registers with EventLoop::token(..)")
        else:
            run.fail(rid, fn + "/token", b.loc(), "%s must register the descriptor under EventLoop::token(..)" % fn.rsplit("::", 1)[1])


def scope_rule(run, f, rid):
    run.rule(rid, "interest registered for a wait does not outlive it under the old token: it is removed after the wait, or re-tokened by the next waiter", floor=2, template="T1")
    for fn, add, dele in ((LOOPS + "::wait_read_event", LOOP + "::add_read_event", "del_read_event"), (LOOPS + "::wait_write_event", LOOP + "::add_write_event", "del_write_event")):
        b = need(run, rid, f, fn)
        if b is None:
            continue
        cfg = Cfg(b)
        ad = find_calls(b, callee_is(add))
        wj = find_calls(b, callee_is(LOOP + "::wait_just", LOOP + "::timed_wait_just"))
        dl = [x for (x, t) in b.calls() if norm(t.get("callee") or "").endswith("::" + dele) or norm(t.get("callee") or "").endswith("::del_event")]
        removed = wj and dl and cfg.must_pass(cfg.after(wj[0][0]), dl)[0]
        # or: the selector refreshes the token when the descriptor is already recorded
        sb = f.body(SEL + "::" + add.rsplit("::", 1)[1])
        retoken = False
        if sb is not None:
            du = DefUse(sb)
            scfg = Cfg(sb)
            ct = [(x, t) for (x, t) in find_calls(sb, callee_is("dashmap::DashSet::contains"))]
            if ct:
                br = bool_branch(sb, scfg, du, ct[0][1]["dest"]["l"], scfg.after(ct[0][0]))
                if br:
                    r = scfg.reachable({br[0]})
                    retoken = any(norm(sb.blocks[x]["term"].get("callee") or "") in (SEL + "::reregister", SEL + "::register") for x in r if sb.blocks[x]["term"]["k"] == "call" and scfg.dominates(br[0], x))
        if removed or retoken:
            run.ok(rid, fn + "/scope", {"removed_after_wait": bool(removed), "retokened": retoken})
        else:
            run.fail(rid, fn + "/registration-outlives-wait", b.loc(),
                     "%s registers the descriptor under the current coroutine's token and never removes it; a later waiter on the same descriptor is skipped by the records (old token kept), and readiness of this descriptor resumes the old coroutine while it waits on another one" % fn.rsplit("::", 1)[1])


# ------------------------------------------------------------------ C19
def no_panic_rule(run, f, rid):
    run.rule(rid, "writing a per-descriptor time limit never asserts that the entry is new: not in setsockopt (the option may be set twice) and not in the lazy fill (two threads may both miss)", floor=4, template="T10/T2")
    LIM = ("syscall::unix::SEND_TIME_LIMIT", "syscall::unix::RECV_TIME_LIMIT")
    from analysis.facts import ref_items as _ri
    from rules.common import callers_map as _cm, inl as _inl
    _refb = set((_ri(f.crate, f.config) or {}).get("bodies") or ())
    # functions that insert into a limit table, each taken as one unit (closures and helpers spliced in)
    roots = []
    for b in f.bodies:
        if b.kind == "Promoted":
            continue
        du = None
        for (x, t) in b.calls():
            if norm(t.get("callee") or "") in ("dashmap::DashMap::insert", "dashmap::DashMap::entry"):
                du = du or DefUse(b)
                rp = b.path.split("::{closure#")[0]
                rb = [c for c in f.bodies if c.path == rp and c.kind != "Promoted"]
                rb = rb[0] if rb else b
                if static_of(b, du, t["args"][0]) in LIM:
                    if rb.path not in [r.path for r in roots]:
                        roots.append(rb)
                elif _refb and rb.npath not in _refb:
                    # a helper the reference tree does not have, writing a table it is handed as an argument: judged inside
                    # the reference functions that call it (there the argument is bound to the static)
                    for c_ in sorted(_cm(f).get(rb.npath, set())):
                        for cb in f.by_npath.get(c_, []):
                            if cb.kind != "Promoted" and cb.npath in _refb and cb.path not in [r.path for r in roots]:
                                roots.append(cb)
    sites = 0
    # a writer the reference tree does not have (the two lazy fills folded into one helper) stands for each reference
    # function it is entered from: the instance count then does not depend on how the code is cut
    expanded = []
    for root in roots:
        owners_ = sorted(c for c in _cm(f).get(root.npath, set()) if c in _refb) if (_refb and root.npath not in _refb) else []
        expanded.append((root, owners_ or [root.npath]))
    for root, names in expanded:
      for name_ in names:
          b = _inl(f, root)
          units = [b]
          if not any(norm(t.get("callee") or "") in ("dashmap::DashMap::insert", "dashmap::DashMap::entry") for (_x, t) in b.calls()):
              units = [c for c in [root] + f.closures_of(root) if c.kind != "Promoted"]   # a closure that could not be spliced
          n = 0
          for b in units:
              du = DefUse(b)
              cfg = Cfg(b)
              for (x, t) in b.calls():
                  if norm(t.get("callee") or "") == "dashmap::DashMap::entry" and static_of(b, du, t["args"][0]) in LIM:
                      # publish-if-absent / keep-what-is-there: cannot find the entry "unexpectedly present"
                      sites += 1
                      run.ok(rid, "%s/entry%s" % (name_, "" if n == 0 else "#%d" % n), "entry(fd).or_insert(..)")
                      n += 1
                      continue
                  if norm(t.get("callee") or "") != "dashmap::DashMap::insert":
                      continue
                  st = static_of(b, du, t["args"][0])
                  if st not in LIM:
                      continue
                  sites += 1
                  # is the Option returned by insert inspected and does a panic hang on it?
                  uses = [(y, tt) for (y, tt) in b.calls() if norm(tt.get("callee") or "") in ("std::option::Option::is_none", "std::option::Option::is_some", "std::option::Option::unwrap", "std::option::Option::expect") and any(z == x for (z, _t) in backward(b, tt["args"][0], du, at=(y, "term"), through_calls="none").calls)]
                  swu = [y for y in cfg.reach if b.blocks[y]["term"]["k"] == "switch" and (switch_info(b, du, y) or {}).get("kind") == "discr" and switch_info(b, du, y)["place"]["l"] == t["dest"]["l"]]
                  panics = [y for (y, tt) in b.calls(include_cleanup=False) if norm(tt.get("callee") or "").startswith(("core::panicking::", "std::rt::panic", "std::panicking::"))]
                  guarded_panic = any(p in cfg.reachable(cfg.after(u[0])) for u in uses for p in panics) or any(p in cfg.reachable(cfg.after(y)) and not all(p in cfg.reachable({z}) for z in cfg.after(y)) for y in swu for p in panics)
                  # the lazy fill: this insert is dominated by the miss arm of a lookup in the same table
                  lazy = False
                  for (g, gt) in b.calls():
                      if norm(gt.get("callee") or "") == "dashmap::DashMap::get" and static_of(b, du, gt["args"][0]) == st:
                          va = variant_arms(b, cfg, du, gt["dest"]["l"], cfg.after(g))
                          if va and va[0].get("None") is not None and cfg.dominates(va[0]["None"], x) and va[0].get("Some") != va[0]["None"]:
                              lazy = True
                  key = "%s/insert%s" % (name_, "" if n == 0 else "#%d" % n)
                  n += 1
                  if guarded_panic and lazy:
                      run.fail(rid, key, b.loc(t["line"]), "%s asserts that its lazy fill finds no entry: two threads doing their first I/O on one descriptor both miss the lookup, and the second insert panics inside an extern \"C\" frame and aborts the process" % root.npath.rsplit("::", 1)[1])
                  elif guarded_panic:
                      run.fail(rid, key, b.loc(t["line"]), "%s asserts that no limit was cached for this descriptor yet: setting the option twice, or after any I/O filled the cache, panics inside an extern \"C\" frame and aborts the process" % root.npath.rsplit("::", 1)[1])
                  else:
                      run.ok(rid, key, {"lazy_fill": lazy, "asserts_new": guarded_panic})
    return sites


def invalidate_rule(run, f, rid):
    run.rule(rid, "every per-descriptor table is cleared for a descriptor before the hooked close closes it", floor=6, template="T9 (call graph) / T3")
    b = need(run, rid, f, "<syscall::unix::close::NioCloseSyscall as syscall::unix::close::CloseSyscall>::close")
    if b is None:
        return
    cfg = Cfg(b)
    du = DefUse(b)
    inner = [x for (x, t) in b.calls() if norm(t.get("orig") or "").endswith("CloseSyscall::close")]
    # statics removed directly in close (must dominate the inner close) or in callees reachable before it
    direct = {}
    for (x, t) in b.calls():
        if norm(t.get("callee") or "") in ("dashmap::DashMap::remove", "dashmap::DashSet::remove"):
            s = static_of(b, du, t["args"][0])
            if s:
                direct.setdefault(s, []).append(x)
    reach = set()
    work = [cb for (x, t) in b.calls() if t.get("local") and inner and cfg.dominates(x, inner[0]) for cb in f.by_npath.get(norm(t["callee"]), [])]
    seen = set()
    while work:
        cb = work.pop()
        if cb.path in seen or cb.kind == "Promoted":
            continue
        seen.add(cb.path)
        d2 = DefUse(cb)
        for (x, t) in cb.calls():
            c = norm(t.get("callee") or "")
            if c in ("dashmap::DashMap::remove", "dashmap::DashSet::remove"):
                s = static_of(cb, d2, t["args"][0])
                if s:
                    reach.add(s)
            if t.get("local"):
                work.extend(f.by_npath.get(c, []))
        work.extend(f.closures_of(cb))
    for s in FD_STATICS:
        st = [x for x in f.statics if norm(x["path"]) == s]
        if not st:
            run.missing(rid, s)
            continue
        if s in direct:
            ok = inner and all(cfg.dominates(x, inner[0]) for x in direct[s])
            if ok:
                run.ok(rid, s + "/close", "removed in close on every path before the inner close")
            else:
                run.fail(rid, s + "/close", b.loc(), "%s is cleared in the hooked close only on some paths: a reused descriptor number can inherit the closed socket's entry" % s.rsplit("::", 1)[1])
        elif s in reach:
            run.ok(rid, s + "/close", "removed through EventLoops::del_event before the inner close")
        else:
            run.fail(rid, s + "/close", b.loc(), "%s is keyed by descriptor number but never cleared when the descriptor is closed: a new socket that reuses the number inherits the old entry" % s.rsplit("::", 1)[1])


def direction_rule(run, f, rid):
    from rules import nio
    run.rule(rid, "read-family wrappers take their limit from recv_time_limit, write-family and connect from send_time_limit; setsockopt updates the matching table only after a successful SOL_SOCKET call", floor=19, template="T5/T6")
    nb = nio.nio_bodies(f)
    for nm, b in sorted(nb.items()):
        cs = {norm(t.get("callee") or "") for (_x, t) in b.calls()}
        rd = nm in nio.BUF_READ + nio.VEC_READ + ("accept", "accept4")
        want, other = ("syscall::unix::recv_time_limit", "syscall::unix::send_time_limit") if rd else ("syscall::unix::send_time_limit", "syscall::unix::recv_time_limit")
        du = DefUse(b)
        fdok = all({b.name_of(p) for p in backward(b, t["args"][0], du, at=(x, "term"), through_calls="none").params} == {"fd"} for (x, t) in b.calls() if norm(t.get("callee") or "") in (want, other))
        if want in cs and other not in cs and fdok:
            run.ok(rid, b.npath + "/limit", want.rsplit("::", 1)[1])
        else:
            run.fail(rid, b.npath + "/limit", b.loc(), "%s must bound its wait by %s(fd) (uses: %s)" % (nm, want.rsplit("::", 1)[1], sorted(c.rsplit("::", 1)[1] for c in cs if c.endswith("_time_limit"))))
    b = need(run, rid, f, "<syscall::unix::setsockopt::NioSetsockoptSyscall as syscall::unix::setsockopt::SetsockoptSyscall>::setsockopt")
    if b is None:
        return
    w = PathWalker(b)
    du = w.du
    ins = [(x, t) for (x, t) in b.calls() if norm(t.get("callee") or "") in ("dashmap::DashMap::insert", "dashmap::DashMap::remove") and static_of(b, du, t["args"][0]) in ("syscall::unix::SEND_TIME_LIMIT", "syscall::unix::RECV_TIME_LIMIT")]
    if len(ins) < 2:
        run.fail(rid, "setsockopt/updates", b.loc(), "setsockopt no longer updates both time-limit tables")
        return

    def stop(bid, t):
        if any(bid == x for (x, _t) in ins):
            return ("update", bid)
        if t["k"] == "return":
            return ("return",)
    paths = w.walk(0, stop)
    run.count("paths_or_states", len(paths))
    inner = [x for (x, t) in b.calls() if norm(t.get("orig") or "").endswith("SetsockoptSyscall::setsockopt")]
    for (x, t) in ins:
        st = static_of(b, du, t["args"][0])
        want_name = {"syscall::unix::SEND_TIME_LIMIT": "21", "syscall::unix::RECV_TIME_LIMIT": "20"}[st]
        ok = True
        why = ""
        mine = [(p, c) for (p, c, s) in paths if s[0] == "update" and s[1] == x]
        if not mine:
            ok, why = False, "unreachable update"
        for (p, c) in mine:
            facts = {}
            for cd in c:
                if cd[0] == "bool" and cd[1][0] == "cmp" and cd[1][1] in ("Eq", "Ne"):
                    a, bb = cd[1][2], cd[1][3]
                    names = (repr(a), repr(bb))
                    val = cd[2] if cd[1][1] == "Eq" else (not cd[2])
                    for (u, v) in ((a, bb), (bb, a)):
                        if u[0] == "const":
                            if v[0] == "param":
                                facts[(v[2], u[1])] = val
                            elif v[0] == "call" and v[1].endswith("::setsockopt"):
                                facts[("r", u[1])] = val
                            elif v[0] == "local":
                                facts[(v[1], u[1])] = val
                elif cd[0] == "int":
                    # `match name { SO_SNDTIMEO => .., SO_RCVTIMEO => .., _ => .. }`: an integer switch on the operand
                    v = cd[1]
                    who = v[2] if v and v[0] == "param" else ("r" if v and v[0] == "call" and v[1].endswith("::setsockopt") else (v[1] if v and v[0] == "local" else None))
                    if who is not None:
                        if isinstance(cd[2], tuple) and cd[2] and cd[2][0] == "not":
                            for nv in cd[2][1]:
                                facts[(who, str(nv))] = False
                        else:
                            facts[(who, str(cd[2]))] = True
            if not (facts.get(("r", "0")) is True):
                ok, why = False, "the table is updated although the real setsockopt did not return 0 (a rejected option value would be cached)"
            elif not (facts.get(("level", "1")) is True):
                ok, why = False, "the table is updated for a level other than SOL_SOCKET"
            elif not (facts.get(("name", want_name)) is True):
                ok, why = False, "%s is updated for an option other than %s" % (st.rsplit("::", 1)[1], "SO_SNDTIMEO" if want_name == "21" else "SO_RCVTIMEO")
        # value through get_time_limit of the caller's value (insert) or invalidation (remove)
        if ok and norm(t["callee"]).endswith("insert"):
            vs = backward(b, t["args"][2], du, at=(x, "term"))
            if not any(norm(tt.get("callee") or "") == "syscall::unix::get_time_limit" for (_y, tt) in vs.calls) or not any(b.name_of(p) == "value" for p in vs.params):
                ok, why = False, "the cached limit is not get_time_limit(value)"
            ks = backward(b, t["args"][1], du, at=(x, "term"), through_calls="none")
            if {b.name_of(p) for p in ks.params} != {"socket"}:
                ok, why = False, "the cache key is not the socket argument"
        key = "setsockopt/%s" % st.rsplit("::", 1)[1]
        if ok:
            run.ok(rid, key, "r == 0 && level == SOL_SOCKET && name matches -> cache := get_time_limit(value)")
        else:
            run.fail(rid, key, b.loc(t["line"]), why)


def poll_lock_rule(run, f, rid):
    run.rule(rid, "the poller's `waiting` flag taken by Selector::select is released on every exit, including a failed or interrupted poll", floor=1, template="T1")
    b = need(run, rid, f, SEL + "::select")
    if b is None:
        return
    cfg = Cfg(b)
    du = DefUse(b)
    cas = [x for (x, t) in b.calls() if norm(t.get("callee") or "").endswith("::compare_exchange")]
    ds = [x for (x, t) in b.calls() if norm(t.get("orig") or "").endswith("Selector::do_select")]
    rel = [x for (x, t) in b.calls() if norm(t.get("callee") or "").endswith("Atomic::store") and op_const(t["args"][1]) == 0]
    ok = cas and ds and rel and cfg.must_pass(cfg.after(ds[0]), rel)[0]
    if ok:
        run.ok(rid, "select/waiting-released", "waiting.store(false) on every path after do_select")
    else:
        run.fail(rid, "select/waiting-released", b.loc(), "after winning the `waiting` flag, select can return (poll error / EINTR) without clearing it: every later select only sleeps on the blocker and no readiness event is delivered on this loop again")
