"""Rule instances for C14 (hooked timed waits) and the wait path of C15."""
from analysis.facts import norm
from analysis.cfg import Cfg
from analysis.flow import ReachingDefs, DefUse, backward, find_calls, callee_is, callee_ends, op_local, op_const, bool_branch, variant_arms, field_chain
from analysis.units import Units, NAMES, S, MS, US, NS
from analysis.table import describe_val
from rules.common import need, unit

LOOP = "net::event_loop::EventLoop"
LOOPS = "net::EventLoops"

TIMED = {   # wrapper -> units of its caller-supplied time parameters
    "<syscall::unix::sleep::NioSleepSyscall as syscall::unix::sleep::SleepSyscall>::sleep": {"secs": S},
    "<syscall::unix::usleep::NioUsleepSyscall as syscall::unix::usleep::UsleepSyscall>::usleep": {"microseconds": US},
    "<syscall::unix::nanosleep::NioNanosleepSyscall as syscall::unix::nanosleep::NanosleepSyscall>::nanosleep": {},
    "<syscall::unix::poll::NioPollSyscall as syscall::unix::poll::PollSyscall>::poll": {"timeout": MS},
    "<syscall::unix::select::NioSelectSyscall as syscall::unix::select::SelectSyscall>::select": {},
    "<syscall::unix::pthread_cond_timedwait::NioPthreadCondTimedwaitSyscall as syscall::unix::pthread_cond_timedwait::PthreadCondTimedwaitSyscall>::pthread_cond_timedwait": {},
}
OTHER = ["syscall::unix::get_time_limit", LOOP + "::wait_just", LOOP + "::timed_wait_just", LOOP + "::wait_event"]


def units_rule(run, f, rid):
    from rules import nio
    run.rule(rid, "every time quantity reaches Duration::from_* / Duration::new / timespec / timeval / Suspend(ns) in that sink's unit, and only equal units are added, subtracted, compared or min/max-ed", floor=20, template="T8 (P7 unit inference)")
    targets = [(fn, pu) for fn, pu in TIMED.items()] + [(fn, {}) for fn in OTHER] + [(b.npath, {}) for b in nio.nio_bodies(f).values()]
    for fn, pu in targets:
        b = need(run, rid, f, fn)
        if b is None:
            continue
        bodies = [b] + [c for c in f.bodies if c.kind in ("Closure", "Fn") and c.npath.startswith(fn + "::")]
        bad = []
        nsinks = 0
        for c in bodies:
            u = Units(c, f, pu if c is b else {})
            for (line, sink, i, exp, got) in u.check_sinks():
                bad.append("line %s: a value in %s reaches %s (argument %d), which takes %s" % (line, NAMES[got], sink.rsplit("::", 1)[-1] if "::" in sink else sink, i, NAMES[exp]))
            # force evaluation of every local so that arithmetic conflicts are seen
            for l in range(len(c.locals)):
                u.of_local(l)
            for (line, d) in u.conflicts:
                bad.append("line %s: %s" % (line, d))
            nsinks += sum(1 for (_x, t) in c.calls() if norm(t.get("callee") or "").startswith("std::time::Duration::from_") or norm(t.get("callee") or "") == "std::time::Duration::new")
        run.count("call_sites", nsinks)
        if bad:
            run.fail(rid, fn + "/units", b.loc(), "%s: %s" % (fn.rsplit("::", 1)[1], "; ".join(sorted(set(bad))[:4])))
        else:
            run.ok(rid, fn + "/units", {"duration_sinks": nsinks})


def validate_rule(run, f, rid):
    run.rule(rid, "a caller-supplied timeval/timespec field never reaches a panicking conversion unless a range test on that field, failing with EINVAL, dominates it", floor=3, template="T2")
    for fn in ("<syscall::unix::nanosleep::NioNanosleepSyscall as syscall::unix::nanosleep::NanosleepSyscall>::nanosleep",
               "<syscall::unix::select::NioSelectSyscall as syscall::unix::select::SelectSyscall>::select",
               "<syscall::unix::pthread_cond_timedwait::NioPthreadCondTimedwaitSyscall as syscall::unix::pthread_cond_timedwait::PthreadCondTimedwaitSyscall>::pthread_cond_timedwait"):
        b = unit(run, rid, f, fn)      # a conversion helper cut out of the wrapper is part of it
        if b is None:
            continue
        cfg = Cfg(b)
        du = DefUse(b)
        # range tests: Lt(field, 0) [and Gt(field, max)] whose true edge returns EINVAL
        tested = {}
        for blk in b.blocks:
            for si_, s in enumerate(blk["stmts"]):
                if s["k"] == "assign" and s["rhs"]["k"] == "binop" and s["rhs"]["op"] in ("Lt", "Gt", "Le", "Ge"):
                    for (x, y) in ((s["rhs"]["a"], s["rhs"]["b"]), (s["rhs"]["b"], s["rhs"]["a"])):
                        if op_const(y) is not None:
                            flds = backward(b, x, du, at=(blk["id"], si_), through_calls="none").fields & {"tv_sec", "tv_usec", "tv_nsec"}
                            if flds and (op_const(y) == 0):
                                br = bool_branch(b, cfg, du, s["lhs"]["l"], [blk["id"]])
                                if br:
                                    r = cfg.reachable({br[0]})
                                    einval = any(norm(b.blocks[z]["term"].get("callee") or "") == "syscall::unix::set_errno" for z in r if b.blocks[z]["term"]["k"] == "call") or \
                                        any(s2["k"] == "assign" and s2["lhs"]["l"] == 0 and s2["rhs"]["k"] == "use" and s2["rhs"]["a"].get("v") == "22" for z in r for s2 in b.blocks[z]["stmts"])
                                    if einval:
                                        for fl in flds:
                                            tested.setdefault(fl, []).append(blk["id"])
        bad = []
        nconv = 0
        for (x, t) in b.calls():
            if norm(t.get("callee") or "") in ("std::result::Result::expect", "std::result::Result::unwrap"):
                # only value-preserving steps between the field read and the conversion (computed values are not caller-supplied)
                src = backward(b, t["args"][0], du, at=(x, "term"), through_calls="pass")
                flds = src.fields & {"tv_sec", "tv_usec", "tv_nsec"}
                if src.binops():
                    continue
                caller = any(b.name_of(p) in ("timeout", "rqtp", "abstime", "value") for p in src.params)
                for fl in flds:
                    if not caller:
                        continue
                    nconv += 1
                    if not any(cfg.dominates(tb, x) for tb in tested.get(fl, [])):
                        bad.append("%s is converted with %s at line %s without a dominating `%s < 0 -> EINVAL` test: a negative value aborts the process in the extern \"C\" frame" % (fl, norm(t["callee"]).rsplit("::", 1)[1], t["line"], fl))
        if bad:
            run.fail(rid, fn + "/validate", b.loc(), "; ".join(sorted(set(bad))))
        else:
            run.ok(rid, fn + "/validate", {"panicking_conversions_of_caller_fields": nconv, "range_tested_fields": sorted(tested)})
        # negative values must be rejected at all (EINVAL), whatever the conversion style
        want = {"nanosleep": {"tv_sec", "tv_nsec"}, "select": {"tv_sec", "tv_usec"}, "pthread_cond_timedwait": {"tv_sec", "tv_nsec"}}[fn.rsplit("::", 1)[1]]
        if want <= set(tested):
            run.ok(rid, fn + "/einval", sorted(tested))
        else:
            run.fail(rid, fn + "/einval", b.loc(), "negative %s is not rejected with EINVAL as the native call does" % sorted(want - set(tested)))


def probe_rule(run, f, rid):
    run.rule(rid, "poll/select probe the kernel with a zero timeout only, leave their loop only on readiness or an exhausted timeout, and wait through the event loop in between; sleeps wait through the event loop for their full Duration", floor=5, template="T5/T2")
    b = need(run, rid, f, "<syscall::unix::poll::NioPollSyscall as syscall::unix::poll::PollSyscall>::poll")
    if b is not None:
        inner = [(x, t) for (x, t) in b.calls() if norm(t.get("orig") or "").endswith("PollSyscall::poll")]
        ok = len(inner) == 1 and op_const(inner[0][1]["args"][4]) == 0 and Cfg(b).in_cycle(inner[0][0])
        if ok:
            run.ok(rid, "poll/zero-timeout-probe", "inner.poll(.., 0) inside the loop")
        else:
            run.fail(rid, "poll/zero-timeout-probe", b.loc(), "the inner poll must be a zero-timeout probe inside the wait loop (a non-zero timeout blocks the whole event-loop thread)")
    b = need(run, rid, f, "<syscall::unix::select::NioSelectSyscall as syscall::unix::select::SelectSyscall>::select")
    if b is not None:
        du = DefUse(b)
        cfg = Cfg(b)
        inner = [(x, t) for (x, t) in b.calls() if norm(t.get("orig") or "").endswith("SelectSyscall::select")]
        ok = len(inner) == 1 and cfg.in_cycle(inner[0][0])
        why = "inner select call"
        if ok:
            # the timeout argument is `&raw mut <probe timeval>`: a local of this function (never the caller's pointer)
            al = op_local(inner[0][1]["args"][6])
            tgt = set()
            from_param = False
            l, n = al, 0
            while l is not None and n < 8:
                n += 1
                if 1 <= l <= b.argc:
                    from_param = True
                    break
                ds = du.defs.get(l, [])
                if len(ds) != 1 or ds[0][2] != "assign":
                    break
                rv = ds[0][3]["rhs"]
                if rv["k"] in ("rawptr", "ref") and not rv["p"]["proj"]:
                    tgt.add(rv["p"]["l"])
                    break
                if rv["k"] in ("use", "cast") and rv["a"]["k"] in ("copy", "move") and not rv["a"]["p"]["proj"]:
                    l = rv["a"]["p"]["l"]
                else:
                    break
            # every store into that local's tv_sec / tv_usec is the constant 0, and both are reset inside the loop
            stores = []
            for blk in b.blocks:
                for s_ in blk["stmts"]:
                    if s_["k"] == "assign" and s_["lhs"]["l"] in tgt:
                        if s_["lhs"]["proj"]:
                            stores.append((blk["id"], op_const(s_["rhs"].get("a")) if s_["rhs"]["k"] == "use" else None))
                        elif s_["rhs"]["k"] == "agg":
                            stores += [(blk["id"], op_const(x)) for x in s_["rhs"]["ops"]]
                        else:
                            stores.append((blk["id"], None))
            ok = len(tgt) == 1 and not from_param and stores and all(v == 0 for (_b, v) in stores) and sum(1 for (bb, _v) in stores if cfg.in_cycle(bb)) >= 2
            why = "timeout argument points to %s, stores %s" % (sorted(b.name_of(l) for l in tgt) or "the caller's timeval", stores)
        if ok:
            run.ok(rid, "select/zero-timeout-probe", "inner.select(.., &mut {0,0}) with the probe timeval reset on every cycle")
        else:
            run.fail(rid, "select/zero-timeout-probe", b.loc(), "the inner select must be a zero-timeout probe whose timeval is reset each cycle (%s)" % why)
    for nm, fn in (("poll", "<syscall::unix::poll::NioPollSyscall as syscall::unix::poll::PollSyscall>::poll"), ("select", "<syscall::unix::select::NioSelectSyscall as syscall::unix::select::SelectSyscall>::select")):
        b = f.body(fn)
        if b is None:
            continue
        cfg = Cfg(b)
        du = DefUse(b)
        we = find_calls(b, callee_is(LOOPS + "::wait_event"))
        inner = [x for (x, t) in b.calls() if norm(t.get("orig") or "").endswith("Syscall::" + nm)]
        loops = cfg.natural_loops()
        L = None
        for h, blocks in loops.items():
            if inner and inner[0] in blocks:
                L = blocks
        ok = bool(we) and L is not None and we[0][0] in L
        # the remaining time shrinks by the step just waited.  Roles, not names: the loop-carried variables the waited
        # Duration is computed from are {remaining, step}; inside the loop `remaining` is reduced by `step` (a Sub or a
        # saturating/checked_sub whose operands are those two), and by nothing else
        dec, wrong = False, None
        if L and ok:
            defs_in = {}
            for x in L:
                for s_ in b.blocks[x]["stmts"]:
                    if s_["k"] == "assign" and not s_["lhs"]["proj"]:
                        defs_in.setdefault(s_["lhs"]["l"], 0)
                t = b.blocks[x]["term"]
                if t["k"] == "call" and not t["dest"]["proj"]:
                    defs_in.setdefault(t["dest"]["l"], 0)
            carried = {l for l in defs_in if any(d[0] not in L for d in du.defs.get(l, [])) and not b.name_of(l).startswith("_")}
            dsl = backward(b, we[0][1]["args"][0], du, at=(we[0][0], "term"), through_calls="all")
            D = dsl.locals & carried
            rd_ = ReachingDefs(b, du)
            def roots(op, at):
                # the loop-carried variable an operand reads: through compiler temporaries and casts only (the variable
                # itself depends on the others through the previous iteration, so a full slice would name them all)
                n = 0
                while op is not None and op["k"] in ("copy", "move") and not op["p"]["proj"] and n < 10:
                    n += 1
                    l = op["p"]["l"]
                    if l in carried:
                        return {l}
                    ds = [d for d in rd_.reaching(l, at[0], at[1]) if d is not None]
                    if len(ds) != 1 or ds[0][2] != "assign" or ds[0][3]["lhs"]["proj"] or ds[0][3]["rhs"]["k"] not in ("use", "cast"):
                        return set()
                    op, at = ds[0][3]["rhs"]["a"], (ds[0][0], ds[0][1])
                return set()
            for x in L:
                t = b.blocks[x]["term"]
                cands = []
                if t["k"] == "call" and norm(t.get("callee") or "").endswith(("::saturating_sub", "::checked_sub", "::wrapping_sub")) and len(t["args"]) == 2:
                    cands.append((roots(t["args"][0], (x, "term")), roots(t["args"][1], (x, "term")), op_const(t["args"][1])))
                for i, s_ in enumerate(b.blocks[x]["stmts"]):
                    if s_["k"] == "assign" and s_["rhs"]["k"] == "binop" and s_["rhs"]["op"] in ("Sub", "SubWithOverflow", "SubUnchecked"):
                        cands.append((roots(s_["rhs"]["a"], (x, i)), roots(s_["rhs"]["b"], (x, i)), op_const(s_["rhs"]["b"])))
                for (ra, rb, cb_) in cands:
                    if ra & D:
                        if rb & D and not (rb & ra):
                            dec = True
                        else:
                            wrong = "the remaining timeout is reduced by something other than the step that was waited"
            if len(D) < 2:
                wrong = wrong or "the waited Duration is not min(remaining, step) of two loop-carried variables"
        dec = dec and not wrong
        if ok and dec:
            run.ok(rid, nm + "/wait-and-count-down", "wait_event(min(t, x)) then t -= x inside the probe loop")
        else:
            run.fail(rid, nm + "/wait-and-count-down", b.loc(), "%s must wait through the event loop inside its probe loop and subtract the step it waited from the remaining timeout" % nm)
    for nm, fn in (("sleep", list(TIMED)[0]), ("usleep", list(TIMED)[1]), ("nanosleep", list(TIMED)[2])):
        b = need(run, rid, f, fn)
        if b is None:
            continue
        du = DefUse(b)
        we = find_calls(b, callee_is(LOOPS + "::wait_event"))
        raw = [norm(t.get("callee") or "") for (_x, t) in b.calls() if norm(t.get("callee") or "") in ("libc::sleep", "libc::usleep", "libc::nanosleep", "std::thread::sleep") or norm(t.get("orig") or "").endswith("Syscall::" + nm)]
        okv = False
        if len(we) == 1:
            v = describe_val(b, du, we[0][1]["args"][0])
            # Some(d) where d is computed from the wrapper's own time argument (the first syscall argument, after self and
            # fn_ptr) -- by data dependence, not by what the variable happens to be called; its unit is C14-UNITS' business
            dsl = backward(b, we[0][1]["args"][0], du, at=(we[0][0], "term"), through_calls="all")
            # ... and through value-preserving steps only ("for their full Duration"): conversions, Duration constructors,
            # a checked/saturating widening multiply for the unit change.  min / max / clamp / subtraction / division between the
            # argument and the wait would shorten it (a data dependence alone cannot tell min(1ms, t) from t)
            ALLOWED = ("std::time::Duration::from_", "std::time::Duration::new", "std::convert::From>::from", "std::convert::TryFrom>::try_from",
                       "std::convert::TryInto>::try_into", "std::convert::Into>::into", "::expect", "::unwrap", "::unwrap_or", "::checked_mul", "::saturating_mul",
                       "::checked_add", "::saturating_add", "std::option::Option::map", "std::option::Option::map_or")
            foreign = sorted({norm(t_.get("callee") or "") for (_x, t_) in dsl.calls if not any(a_ in norm(t_.get("callee") or "") for a_ in ALLOWED)})
            shrink = [o for o in dsl.binops() if o in ("Sub", "SubWithOverflow", "Div", "Rem", "Shr", "BitAnd")]
            okv = v[0] == "agg" and v[2] == "Some" and 3 in dsl.params and not foreign and not shrink
        if we and okv and not raw:
            run.ok(rid, nm + "/waits-through-event-loop", "EventLoops::wait_event(Some(time)), no raw blocking call")
        else:
            run.fail(rid, nm + "/waits-through-event-loop", b.loc(), "%s must wait through EventLoops::wait_event(Some(requested duration)) and never call a blocking sleep itself (raw calls: %s)" % (nm, raw))


def deadline_rule(run, f, rid):
    run.rule(rid, "timed_wait_just returns only once its deadline has passed (or on error); wait_just performs at most one OS wait per call, so its caller can re-read the clock", floor=2, template="T2/T7")
    b = unit(run, rid, f, LOOP + "::timed_wait_just")      # a `next_step` closure / helper computing the remaining time is part of it
    if b is not None:
        cfg = Cfg(b)
        du = DefUse(b)
        ok = False
        why = "no `left_time == 0` test"
        for blk in b.blocks:
            for s in blk["stmts"]:
                if s["k"] == "assign" and s["rhs"]["k"] == "binop" and s["rhs"]["op"] in ("Eq", "Ne") and (op_const(s["rhs"]["a"]) == 0 or op_const(s["rhs"]["b"]) == 0):
                    other = s["rhs"]["b"] if op_const(s["rhs"]["a"]) == 0 else s["rhs"]["a"]
                    sl = backward(b, other, du, at=(blk["id"], 0))
                    if any(norm(t.get("callee") or "") == "common::now" for (_x, t) in sl.calls):
                        br = bool_branch(b, cfg, du, s["lhs"]["l"], [blk["id"]])
                        if br:
                            reached = br[0] if s["rhs"]["op"] == "Eq" else br[1]      # the edge on which `remaining == 0` holds
                            fr = [x for (x, t) in b.calls() if norm(t.get("callee") or "").endswith("FromResidual>::from_residual")]
                            r = cfg.reachable({0}, avoid={reached} | set(fr))
                            ok = not (set(cfg.returns) & r)
                            why = "a return is reachable without passing the deadline-reached edge"
        if ok:
            run.ok(rid, "timed_wait_just/deadline-loop", "every Ok return passes `timeout_time - now() == 0`")
        else:
            run.fail(rid, "timed_wait_just/deadline-loop", b.loc(), "timed_wait_just can return before its deadline (%s): a hooked sleep/poll/select wakes early when an unrelated readiness event or signal ends the inner wait" % why)
    b = need(run, rid, f, LOOP + "::wait_just")
    if b is not None:
        cfg = Cfg(b)
        sel = [x for (x, t) in b.calls() if norm(t.get("callee") or "").endswith("Selector::select")]
        if len(sel) == 1 and not cfg.in_cycle(sel[0]):
            run.ok(rid, "wait_just/single-os-wait", "selector.select called once, outside any loop")
        else:
            run.fail(rid, "wait_just/single-os-wait", b.loc(), "wait_just re-arms the OS wait in a loop with the same timeout: under repeated EINTR the wait never returns to its caller, so the deadline (upper bound) is overshot without bound")
