"""C18 — Non-blocking sockets keep non-blocking semantics under the hook (structural clauses)."""
from rules.common import start
from rules import wave3
from rules import nio


def run(tier):
    cfgs = ["core/default"] + (["core/io_uring"] if tier == "thorough" else [])
    run, fx = start("C18", tier,
        "P3 walk of the 17 NIO wrappers correlated on the remembered is_blocking(fd) flag: mode changed only when the caller's descriptor was blocking, "
        "restored on every return, mode calls on the wrapper's own fd; readiness waits only under blocking == true.",
        cfgs,
        not_decided=["mode races with other threads using the same descriptor"],
        assumptions=["extern \"C\" frames abort on panic, so unwind exits are not exits", "fcntl(F_SETFL) success leaves errno unchanged"])
    for name, f in fx.items():
        nio.restore_rule(run, f, "C18-RESTORE")
        nio.eagain_rule(run, f, "C18-EAGAIN")
        nio.fresh_mode_rule(run, f, "C18-FRESH-MODE")
    # clauses added for the wave-2 seeds (rules/wave2.py; DESIGN 12a)
    for _cfg, f in fx.items():
        wave3.mode_writers_rule(run, f, "C18-MODE-WRITERS")
    return run.finish()
