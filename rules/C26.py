"""C26 — Process-wide named singletons are unique under concurrent first use (structural clauses)."""
from rules.common import start
from rules import wave3
from rules import wave2
from rules import misc


def run(tier):
    run, fx = start("C26", tier,
        "T10 check-then-act rule on BeanFactory::{get_instance, init_bean, get_or_default, get_mut_or_default}: publication through compare_exchange / "
        "DashMap::entry only, the returned reference derives from the published value; T5 constant bean names per shared type.",
        ["core/default", "core/preemptive"],  # the monitor bean only exists under `preemptive`
        not_decided=["nothing further: with the rule in place uniqueness follows from DashMap's / the atomics' contract"],
        assumptions=["DashMap::entry holds the shard lock across or_insert_with", "compare_exchange is atomic"])
    for name, f in fx.items():
        misc.publish_rule(run, f, "C26-ATOMIC-PUBLISH")
        misc.names_rule(run, f, "C26-NAMES")
    # clauses added for the wave-2 seeds (rules/wave2.py; DESIGN 12a)
    for _cfg, f in fx.items():
        wave2.lookup_consults_map_rule(run, f, "C26-LOOKUP-CONSULTS-MAP")
    # clauses added for the wave-2 seeds (rules/wave2.py; DESIGN 12a)
    for _cfg, f in fx.items():
        wave3.no_rebind_rule(run, f, "C26-NO-REBIND")
    return run.finish()
