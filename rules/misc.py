def time_limit_rule(run, f, rid): pass
