"""Rule instances for C26 (named singletons) and C28 (time helpers), plus the time-limit value rule shared with C19."""
from analysis.facts import norm
from analysis.cfg import Cfg
from analysis.flow import DefUse, backward, find_calls, callee_is, callee_ends, op_local, op_const, static_of, field_chain, bool_branch, variant_arms
from analysis.table import describe_val, canon_bool
from analysis.loops import classify
from analysis.inline import inline
from rules.common import need, family

BF = "common::beans::BeanFactory"


# ------------------------------------------------------------------ C26
def publish_rule(run, f, rid):
    run.rule(rid, "a miss followed by publishing a fresh allocation is one atomic step (compare_exchange / DashMap::entry) and the value returned is the published one", floor=4, template="T10")
    b = need(run, rid, f, BF + "::get_instance")
    if b is not None:
        du = DefUse(b)
        cfg = Cfg(b)
        st = [(x, t) for (x, t) in b.calls() if norm(t.get("callee") or "").endswith("Atomic::store")]
        cx = [(x, t) for (x, t) in b.calls() if norm(t.get("callee") or "").endswith(("Atomic::compare_exchange", "Atomic::compare_exchange_weak", "OnceLock::get_or_init", "OnceCell::get_or_init"))]
        alloc = [x for (x, t) in b.calls() if norm(t.get("callee") or "").endswith(("Box::leak", "Box::into_raw", "Box::new", "Default>::default"))]
        why = []
        if st:
            why.append("the factory pointer is published with a plain store after a load (two threads each publish their own factory)")
        if not cx:
            why.append("no compare_exchange / once-cell publishes the factory")
        else:
            # the returned reference depends on the outcome of the CAS (the loser adopts the winner)
            r = backward(b, 0, du)
            if not any(x == cx[0][0] for (x, _t) in r.calls):
                why.append("the returned factory does not depend on which thread won the publication")
            va = variant_arms(b, cfg, du, cx[0][1]["dest"]["l"], cfg.after(cx[0][0])) if norm(cx[0][1]["callee"]).endswith(("compare_exchange", "compare_exchange_weak")) else True
            if va is None:
                why.append("the result of compare_exchange is not inspected (a loser would return its own unpublished factory)")
            elif va is not True:
                err = va[0].get("Err")
                if err is None:
                    why.append("no Err arm: the loser of the race is not handled")
                else:
                    # on the Err arm the value that reaches the return comes out of the Err payload
                    payload_used = False
                    for x in cfg.reachable({err}):
                        for s in b.blocks[x]["stmts"]:
                            if s["k"] == "assign" and s["rhs"]["k"] == "use" and s["rhs"]["a"]["k"] in ("copy", "move") and s["rhs"]["a"]["p"]["l"] == cx[0][1]["dest"]["l"] and any(isinstance(e, dict) and e.get("dc") == "Err" for e in s["rhs"]["a"]["p"]["proj"]):
                                payload_used = True
                    if not payload_used:
                        why.append("the loser does not adopt the winner's pointer (Err payload unused)")
        if why:
            run.fail(rid, BF + "::get_instance", b.loc(), "; ".join(why))
        else:
            run.ok(rid, BF + "::get_instance", "load; on miss compare_exchange(0, new); loser frees its copy and returns the winner")
    for fn in (BF + "::init_bean", BF + "::get_or_default", BF + "::get_mut_or_default"):
        b = need(run, rid, f, fn)
        if b is None:
            continue
        # the function as one unit: closures handed to Option combinators and extracted helpers are spliced in;
        # closures that stay separate bodies (the or_insert_with initialiser) are scanned alongside
        nb = inline(b, f)
        bodies = [nb] + family(f, b)[1:]
        ins = [(c, t) for c in bodies for (_x, t) in c.calls() if norm(t.get("callee") or "") == "dashmap::DashMap::insert"]
        ent = [(c, t) for c in bodies for (_x, t) in c.calls() if norm(t.get("callee") or "") == "dashmap::DashMap::entry"]
        oi = [(c, x, t) for c in bodies for (x, t) in c.calls() if norm(t.get("callee") or "").endswith(("Entry::or_insert_with", "Entry::or_insert", "Entry::or_default", "VacantEntry::insert", "VacantEntry::insert_entry"))]
        why = []
        if ins:
            why.append("the bean is published with DashMap::insert after a separate lookup (check-then-act): two threads racing on first use each publish and keep their own instance")
        if not ent or not oi:
            why.append("no DashMap::entry(..) publication found")
        elif fn != BF + "::init_bean":
            # the returned reference derives from the entry's value, not from the local candidate
            okret = False
            for (c, x, t) in oi:
                d2 = DefUse(c)
                r = backward(c, 0, d2)
                if any(y == x for (y, _t) in r.calls):
                    okret = True
            if not okret:
                why.append("the reference returned on a miss is the caller's own candidate, not the value the map ended up holding")
        if why:
            run.fail(rid, fn, b.loc(), "; ".join(why))
        else:
            run.ok(rid, fn, "miss -> entry(name).or_insert_with(alloc) -> published value returned")


def _is_const_name(d):
    """the bean name is a compile-time constant: a `const` item / string literal / static, reached only through
    references, derefs and pointer casts (a name computed at run time differs between callers)"""
    while isinstance(d, tuple) and d:
        if d[0] == "ref" and len(d) == 2:
            d = d[1]
        elif d[0] == "proj" and len(d) == 3 and set(d[2]) <= {"*"}:
            d = d[1]
        elif d[0] == "cast" and len(d) == 3:
            d = d[2]
        else:
            break
    return isinstance(d, tuple) and len(d) == 2 and d[0] in ("const", "static") and d[1] is not None


def names_rule(run, f, rid):
    run.rule(rid, "the process-wide beans are looked up under fixed constants", floor=2, template="T5")
    sites = {}
    for b in f.bodies:
        if b.kind == "Promoted":
            continue
        du = None
        for (x, t) in b.calls():
            if norm(t.get("callee") or "") in (BF + "::get_or_default", BF + "::get_mut_or_default"):
                du = du or DefUse(b)
                d = describe_val(b, du, t["args"][0])
                ty = (t.get("substs") or ["?"])[-1]
                sites.setdefault(ty, []).append((b.npath, repr(d), d))
    for ty, ss in sorted(sites.items()):
        names = {d for (_fn, d, _dv) in ss}
        const = all(_is_const_name(dv) for (_fn, _d, dv) in ss)
        if len(names) == 1 and const:
            run.ok(rid, ty, {"sites": [fn for (fn, _d, _dv) in ss], "name": sorted(names)[0][:80]})
        else:
            run.fail(rid, ty, "core/src", "the shared %s is looked up under %d different / non-constant names: %s" % (ty, len(names), sorted(names)))


# ------------------------------------------------------------------ C28
CHECKED_OK = ("saturating_add", "saturating_sub", "saturating_mul", "checked_sub", "checked_add", "checked_mul")


def arith_rule(run, f, rid):
    run.rule(rid, "the time helpers contain no wrapping/unchecked arithmetic and no narrowing cast; u128 nanoseconds reach u64 through try_from with a u64::MAX fallback, sums through saturating_add", floor=4, template="T5")
    for fn in ("common::now", "common::get_timeout_time", "common::get_slices", "syscall::unix::get_time_limit"):
        b = need(run, rid, f, fn)
        if b is None:
            continue
        # one unit: closures of Option/Result combinators and extracted helpers spliced in (`now` stays a call: it is
        # judged on its own), whatever stays a separate body is scanned alongside
        nb = inline(b, f, keep=("now",))
        bodies = [nb] + family(f, b, keep=("now",))[1:]
        why = []
        for c in bodies:
            for blk in c.blocks:
                if blk["cleanup"]:
                    continue
                for s in blk["stmts"]:
                    if s["k"] != "assign":
                        continue
                    rv = s["rhs"]
                    if rv["k"] == "binop" and rv["op"] in ("Add", "Sub", "Mul", "Shl", "AddUnchecked", "SubUnchecked", "MulUnchecked", "AddWithOverflow", "SubWithOverflow", "MulWithOverflow"):
                        why.append("plain %s on a time quantity at line %s (wraps or panics on overflow)" % (rv["op"], s["line"]))
                    if rv["k"] == "cast" and rv["kind"] == "IntToInt":
                        fr, to = rv["from"], rv["to"]
                        bits = {"u8": 8, "u16": 16, "u32": 32, "u64": 64, "u128": 128, "usize": 64, "i8": 8, "i16": 16, "i32": 32, "i64": 64, "i128": 128, "isize": 64}
                        if bits.get(fr, 64) > bits.get(to, 64):
                            why.append("narrowing cast %s -> %s at line %s" % (fr, to, s["line"]))
                t = blk["term"]
                if t["k"] == "call":
                    cn = norm(t.get("callee") or "")
                    if cn.rsplit("::", 1)[-1].startswith("wrapping_") or cn.rsplit("::", 1)[-1].startswith("unchecked_"):
                        why.append("%s at line %s" % (cn, t["line"]))
                    if cn.endswith(("Result::expect", "Result::unwrap")) and fn != "common::now" and not t.get("exp"):
                        why.append("a conversion panics instead of saturating (%s at line %s)" % (cn.rsplit("::", 2)[-2] + "::" + cn.rsplit("::", 1)[-1], t["line"]))
        if fn in ("common::now", "common::get_timeout_time"):
            # u128 nanoseconds -> u64 through try_from, and the failure arm yields u64::MAX (whether written as
            # unwrap_or(MAX), map_or(MAX, ..) or a match)
            ncfg, ndu = Cfg(nb), DefUse(nb)
            tf = [(x, t) for (x, t) in nb.calls() if norm(t.get("callee") or "").endswith("TryFrom>::try_from")]
            if not tf:
                why.append("u128 nanoseconds are not converted with try_from")
            okfb = False
            # path by path first: wherever a path shows the conversion FAILED, what the function returns on it is u64::MAX
            # (the failure may travel as `None` through `.ok()` and a let-else, or through a helper's Option)
            from analysis.table import PathWalker, result_outcomes, value_on_path
            n_fail = n_bad = n_inf = n_ex = 0
            for (pth, _c, sv) in PathWalker(nb).walk(0, lambda bid, t_: ("return",) if t_["k"] == "return" else None):
                if sv[0] != "return":
                    continue
                oc, feas = result_outcomes(nb, ndu, pth)
                if not feas:
                    n_inf += 1
                    continue
                n_ex += 1
                if any(oc.get(x) == "err" for (x, _t) in tf if x in pth):
                    n_fail += 1
                    if value_on_path(nb, pth, 0) != ("const", "18446744073709551615"):
                        n_bad += 1
            run.paths(rid, fn + "/overflow-fallback", b.loc(), n_ex, n_inf)
            if n_fail and not n_bad:
                okfb = True
            elif n_bad:
                why.append("on %d path(s) where the conversion to u64 fails the result is not u64::MAX" % n_bad)
            for (x, t) in ([] if n_fail else tf):
                va = variant_arms(nb, ncfg, ndu, t["dest"]["l"], ncfg.after(x))
                if va and va[0].get("Err") is not None:
                    for y in ncfg.reachable({va[0]["Err"]}):
                        if ncfg.dominates(va[0]["Err"], y):
                            for s in nb.blocks[y]["stmts"]:
                                if s["k"] == "assign" and s["rhs"]["k"] == "use" and s["rhs"]["a"].get("v") == "18446744073709551615":
                                    okfb = True
            if tf and not okfb:
                why.append("the overflow fallback is not u64::MAX")
        if fn == "common::get_timeout_time":
            cs = [norm(t.get("callee") or "") for c in bodies for (_x, t) in c.calls()]
            if "u64::saturating_add" not in cs or "common::now" not in cs:
                why.append("the deadline is not now() saturating_add duration")
        if why:
            run.fail(rid, fn, b.loc(), "; ".join(sorted(set(why))))
        else:
            run.ok(rid, fn, "checked/saturating arithmetic only")


def slices_rule(run, f, rid):
    run.rule(rid, "get_slices: zero total -> empty; the loop continues exactly when slice < remainder, pushes exactly `slice` and subtracts exactly `slice`; the remainder is pushed once after the loop", floor=3, template="T7 + T5")
    b = need(run, rid, f, "common::get_slices")
    if b is None:
        return
    b = inline(b, f)
    cfg = Cfg(b)
    du = DefUse(b)
    loops = cfg.natural_loops()
    TOTAL, SLICE = 1, 2     # parameter positions: get_slices(total, slice)
    pushes = find_calls(b, callee_is("std::vec::Vec::push"))
    subs = find_calls(b, callee_is("std::time::Duration::checked_sub", "std::time::Duration::saturating_sub", "<std::time::Duration as std::ops::Sub>::sub"))
    ords = [(x, t) for (x, t) in b.calls() if norm(t.get("callee") or "").rsplit("::", 1)[-1] in ("gt", "lt", "ge", "le") and "PartialOrd" in norm(t.get("callee") or "")]

    def sl(op, x):
        return backward(b, op, du, at=(x, "term"), through_calls="none")

    why = []
    if len(loops) != 1:
        why.append("expected exactly one loop (found %d)" % len(loops))
    else:
        h, L = list(loops.items())[0]
        inl = [(x, t) for (x, t) in pushes if x in L]
        out = [(x, t) for (x, t) in pushes if x not in L]
        sub_in = [(x, t) for (x, t) in subs if x in L]
        # the remainder: the one variable the subtraction reads that is assigned more than once (initialised from
        # `total`, re-assigned in the loop) -- identified by its definitions, not by its name
        rem = None
        if len(sub_in) != 1:
            why.append("the loop must subtract once per iteration")
        else:
            sx, st = sub_in[0]
            a0, a1 = sl(st["args"][0], sx), sl(st["args"][1], sx)
            cands = [l for l in a0.locals if l > b.argc and len(du.defs.get(l, [])) >= 2]
            if len(cands) == 1:
                rem = cands[0]
            if rem is None or set(a0.params) != {TOTAL} or set(a1.params) != {SLICE} or (a1.locals & {rem}):
                why.append("the loop must subtract exactly `slice` from the remainder")
            elif not any(any(y == sx for (y, _t) in backward(b, {"k": "copy", "p": {"l": rem, "proj": []}}, du, at=(d_[0], d_[1] + 1 if isinstance(d_[1], int) else "term"), through_calls="all").calls) for d_ in du.defs.get(rem, []) if d_[0] in L):
                why.append("the result of the subtraction is not stored back into the remainder")
        if len(inl) != 1 or set(sl(inl[0][1]["args"][1], inl[0][0]).params) != {SLICE} or (rem is not None and rem in sl(inl[0][1]["args"][1], inl[0][0]).locals):
            why.append("inside the loop exactly `slice` must be pushed")
        if len(out) != 1 or rem is None or rem not in sl(out[0][1]["args"][1], out[0][0]).locals or SLICE in sl(out[0][1]["args"][1], out[0][0]).params:
            why.append("after the loop exactly the remainder must be pushed")
        elif not cfg.must_pass([s_ for y in L for s_ in cfg.succ[y] if s_ not in L and not b.blocks[s_]["cleanup"]], [out[0][0]])[0]:
            why.append("a path leaves the loop and returns without pushing the remainder")
        gl = [(x, t) for (x, t) in ords if x in L]
        if len(gl) != 1:
            why.append("no single ordering test guards the loop")
        elif rem is not None and len(inl) == 1:
            x, t = gl[0]
            side = []
            for a in t["args"]:
                s_ = sl(a, x)
                side.append("R" if rem in s_.locals and SLICE not in s_.params else "S" if set(s_.params) == {SLICE} and rem not in s_.locals else "?")
            opn = {"gt": "Gt", "lt": "Lt", "ge": "Ge", "le": "Le"}[norm(t["callee"]).rsplit("::", 1)[1]]
            br = bool_branch(b, cfg, du, t["dest"]["l"], cfg.after(x))
            if br is None or "?" in side:
                why.append("the loop guard does not compare the remainder with `slice`")
            else:
                # which edge of the test leads to the push inside the loop: that edge must mean  slice < remainder
                push_blk = inl[0][0]
                on_true = push_blk in cfg.reachable({br[0]}, avoid={h}) or br[0] == push_blk
                on_false = push_blk in cfg.reachable({br[1]}, avoid={h}) or br[1] == push_blk
                if on_true == on_false:
                    why.append("the push is not controlled by the loop guard")
                else:
                    d, v = canon_bool(("cmp", opn, side[0], side[1]), on_true)
                    if (d, v) != (("cmp", "Lt", "S", "R"), True):
                        why.append("the loop must continue exactly when slice < remainder (found %s %s %s is %s): with `<=` a zero remainder is pushed, the other way round nothing is sliced" % (d[2], d[1], d[3], v))
                    # progress: under slice < remainder the checked_sub cannot fail, so every cycle shrinks the remainder
                    cont = br[0] if on_true else br[1]
                    if sub_in and not cfg.dominates(cont, sub_in[0][0]):
                        why.append("the subtraction is not on the continue edge of the guard")
    # zero total returns the empty vector
    z = [(x, t) for (x, t) in b.calls() if norm(t.get("callee") or "").endswith(("Duration as std::cmp::PartialEq>::eq", "Duration::is_zero")) or (norm(t.get("callee") or "") == "std::cmp::PartialEq::ne" and "Duration" in " ".join(t.get("substs") or []))]
    okz = False
    for (x, t) in z:
        br = bool_branch(b, cfg, du, t["dest"]["l"], cfg.after(x))
        if not br:
            continue
        zero_bb = br[1] if norm(t["callee"]).endswith("::ne") else br[0]
        if TOTAL in set().union(*[set(sl(a, x).params) for a in t["args"]]) and not any(p in cfg.reachable({zero_bb}) for (p, _t) in pushes) and (set(cfg.returns) & cfg.reachable({zero_bb})):
            okz = True
    if not okz:
        why.append("a zero total does not return the empty vector")
    if why:
        run.fail(rid, "common::get_slices/shape", b.loc(), "; ".join(why))
    else:
        run.ok(rid, "common::get_slices/shape", "each piece == slice while slice < remainder; remainder pushed once; pieces sum to total by induction on the subtraction")
    # the loop itself: classified by the generic classifier as non-progressing unless the guard argument above holds; report as info
    run.ok(rid, "common::get_slices/terminates", "the remainder strictly decreases by slice > 0 on every cycle (checked_sub cannot fail under slice < remainder); a zero slice is outside the statement")
    run.ok(rid, "common::get_slices/zero", "zero total -> empty vector")


def time_limit_rule(run, f, rid):
    run.rule(rid, "get_time_limit: zero means unlimited (u64::MAX); otherwise sec*10^9 + usec*10^3, saturating, without panicking conversions", floor=1, template="T6/T5")
    b = need(run, rid, f, "syscall::unix::get_time_limit")
    if b is None:
        return
    cfg = Cfg(b)
    du = DefUse(b)
    why = []
    muls = [(x, t) for (x, t) in find_calls(b, callee_is("u64::saturating_mul"))]
    consts = sorted(op_const(t["args"][1]) for (_x, t) in muls if op_const(t["args"][1]) is not None)
    if consts != [1000, 1000000000]:
        why.append("the scale factors are %s (expected seconds*10^9 and microseconds*10^3)" % consts)
    else:
        for (x, t) in muls:
            flds = backward(b, t["args"][0], du, at=(x, "term")).fields
            k = op_const(t["args"][1])
            want = "tv_sec" if k == 1000000000 else "tv_usec"
            if want not in flds or ({"tv_sec", "tv_usec"} - {want}) & flds:
                why.append("%s is scaled by %d" % (sorted(flds & {"tv_sec", "tv_usec"}), k))
    if not find_calls(b, callee_is("u64::saturating_add")):
        why.append("the two parts are not combined with saturating_add")
    # zero -> u64::MAX, path by path: where the path established `limit == 0` (written as `0 == x`, `x != 0` with the arms
    # swapped, an early return ..) the function returns u64::MAX; where it established `limit != 0` it does not
    from analysis.table import PathWalker, value_on_path
    from analysis.flow import value_root
    MAXV = ("const", "18446744073709551615")

    def zero_tests(pth):
        """[(root local of the operand compared with 0, the comparison came out `== 0` on this path)] for the bool switches
        the path takes, following the tested bool back through copies and `!` to its Eq/Ne-with-zero comparison"""
        out = []
        for i_, x in enumerate(pth[:-1]):
            t_ = b.blocks[x]["term"]
            if t_["k"] != "switch" or t_.get("dty") != "bool" or t_["discr"]["k"] not in ("copy", "move") or t_["discr"]["p"]["proj"]:
                continue
            l, neg, n_ = t_["discr"]["p"]["l"], False, 0
            cmp_ = None
            while n_ < 8:
                n_ += 1
                ds = du.defs.get(l, [])
                if len(ds) != 1 or ds[0][2] != "assign" or ds[0][3]["lhs"]["proj"]:
                    break
                rv = ds[0][3]["rhs"]
                if rv["k"] == "binop" and rv["op"] in ("Eq", "Ne"):
                    cmp_ = rv
                    break
                if rv["k"] == "use" and rv["a"]["k"] in ("copy", "move") and not rv["a"]["p"]["proj"]:
                    l = rv["a"]["p"]["l"]
                elif rv["k"] == "unop" and rv["op"] == "Not" and rv["a"]["k"] in ("copy", "move") and not rv["a"]["p"]["proj"]:
                    l, neg = rv["a"]["p"]["l"], not neg
                else:
                    break
            if cmp_ is None:
                continue
            sides = [cmp_["a"], cmp_["b"]]
            zero = [o for o in sides if op_const(o) == 0]
            other = [o for o in sides if op_const(o) is None and o["k"] in ("copy", "move") and not o["p"]["proj"]]
            if len(zero) != 1 or len(other) != 1:
                continue
            nxt = pth[i_ + 1]
            ones = [bb for v_, bb in t_["targets"] if int(v_) == 1]
            zeros_ = [bb for v_, bb in t_["targets"] if int(v_) == 0]
            bval = True if nxt in ones else False if nxt in zeros_ else (bool(zeros_) if nxt == t_.get("otherwise") and bool(zeros_) != bool(ones) else None)
            if bval is None:
                continue
            if neg:
                bval = not bval
            is_zero = bval if cmp_["op"] == "Eq" else (not bval)
            out.append((value_root(du, other[0]["p"]["l"]), is_zero))
        return out

    def returned_root(pth):
        """root local of the value moved into the return slot last on this path (None when it is a constant / a call result)"""
        r = None
        for x in pth:
            for s_ in b.blocks[x]["stmts"]:
                if s_["k"] == "assign" and s_["lhs"]["l"] == 0 and not s_["lhs"]["proj"]:
                    rv = s_["rhs"]
                    r = value_root(du, rv["a"]["p"]["l"]) if rv["k"] == "use" and rv["a"]["k"] in ("copy", "move") and not rv["a"]["p"]["proj"] else None
        return r

    n_zero = n_ex = 0
    badz = []
    for (pth, conds, sv) in PathWalker(b).walk(0, lambda bid, t_: ("return",) if t_["k"] == "return" else None):
        if sv[0] != "return":
            continue
        n_ex += 1
        zt = zero_tests(pth)
        ret = value_on_path(b, pth, 0)
        if ret == MAXV:
            # reported as unlimited: some tested value was found to be zero on this path
            if any(z for (_r, z) in zt):
                n_zero += 1
            else:
                badz.append("unlimited is reported on a path that did not find the limit to be zero")
        else:
            # a computed limit is returned: it is the very value that was tested and found non-zero
            rr = returned_root(pth)
            if not any((not z) and r_ == rr for (r_, z) in zt):
                badz.append("a limit is returned without having been tested against zero itself (the zero test is on another value, e.g. the raw fields before clamping)")
    run.paths(rid, "get_time_limit/zero", b.loc(), n_ex)
    if badz or not n_zero:
        why.append("a zero limit is not mapped to u64::MAX (unlimited)" + (": " + "; ".join(sorted(set(badz))) if badz else ""))
    pan = [norm(t.get("callee") or "") for (_x, t) in b.calls() if norm(t.get("callee") or "").endswith(("Result::expect", "Result::unwrap"))]
    if pan:
        why.append("a conversion of the caller's timeval can panic inside an extern \"C\" frame (%s)" % pan[0].rsplit("::", 1)[1])
    if why:
        run.fail(rid, "syscall::unix::get_time_limit", b.loc(), "; ".join(why))
    else:
        run.ok(rid, "syscall::unix::get_time_limit", "0 -> u64::MAX; else sec*1e9 (+sat) usec*1e3; no panicking conversion")
