"""C21 — OS readiness interest matches outstanding waits (typestate table + structural clauses)."""
from rules.common import start
from rules import wave3
from rules import selector


def run(tier):
    run, fx = start("C21", tier,
        "P8 typestate table: the five interest operations of Selector are extracted path by path (record tests, OS call with its Interest and fallback, "
        "success/failure edge, record updates) and run on the abstract state (read-record, write-record, OS-interest) for all consistent states; "
        "invariant OS == union(records), records change only after OS success. T3/T6 close and shutdown mapping; T9 scope of the record tables.",
        ["core/default"],
        not_decided=["the kernel's interest list itself", "descriptors closed behind the runtime's back"],
        assumptions=["epoll_ctl ADD fails on a registered fd, MOD/DEL fail on an unregistered one"], exhaustive=True)
    f = fx["core/default"]
    selector.machine_rule(run, f, "C21-MACHINE")
    selector.close_rule(run, f, "C21-CLOSE")
    selector.invalidate_rule(run, f, "C21-INVALIDATE")
    selector.per_selector_rule(run, f, "C21-PER-SELECTOR")
    # clauses added for the wave-2 seeds (rules/wave2.py; DESIGN 12a)
    wave3.inner_reaches_os_rule(run, f, "C21-INNER-REACHES-OS")
    return run.finish()
