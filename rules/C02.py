"""C02 — Joining a task returns that task's own result once it finishes (structural clauses)."""
from rules.common import start
from rules import wave3
from rules import wave2
from rules import pool


def run(tier):
    cfgs = ["core/default", "hook/default", "facade/default"]
    run, fx = start("C02", tier,
        "T3/T1 re-check-after-register rule on wait_task_result (lost wake-up window), publish-before-notify order and own-id/own-outcome provenance "
        "in try_run, notify's critical-section order, JoinHandle -> own loop/own id, pool affinity of results vs. task migration, and the C-ABI join "
        "mapping tables of the hook crate (and of the facade crate in the thorough tier).",
        cfgs,
        not_decided=["'returns promptly' as a latency bound", "timeouts against the wall clock"],
        assumptions=["Condvar::wait_timeout_while re-evaluates its predicate under the mutex before blocking", "DashMap operations are linearizable per key"])
    f = fx["core/default"]
    pool.recheck_rule(run, f, "C02-RECHECK")
    pool.publish_rule(run, f, "C02-PUBLISH")
    pool.affinity_rule(run, f, "C02-AFFINITY")
    from rules import abi
    abi.join_abi_rule(run, fx["hook/default"], fx.get("facade/default"), "C02-ABI")
    # clauses added for the wave-2 seeds (rules/wave2.py; DESIGN 12a)
    wave2.wait_no_state_gate_rule(run, f, "C02-NO-STATE-GATE")
    # clauses added for the wave-2 seeds (rules/wave2.py; DESIGN 12a)
    wave3.results_deleters_rule(run, f, "C02-RESULTS-DELETERS")
    return run.finish()
