"""Clauses on the NIO socket wrappers added for the wave-2 seeds (DESIGN 12a).  Stated on paths of the wrapper, on the value
of the inner call's result followed through its aliases -- not through the abstract interpreter of analysis/nioabs.py and
not through variable names."""
from analysis.facts import norm
from analysis.cfg import Cfg
from analysis.flow import DefUse, backward, find_calls, callee_is, op_local, op_const
from analysis.table import PathWalker
from rules import nio


def _classes_after(b, du, pth, start_aliases):
    """Which of {-1, 0, positive} the inner call's result can still be at the end of `pth` (which starts at the call block),
    given the comparisons with -1 / 0 the path branches on.  The result is followed through copies, moves and integer casts;
    a re-assignment from anything else ends the tracking of that local."""
    alias = set(start_aliases)
    poss = {-1, 0, 1}          # 1 stands for "positive"
    REL = {"Eq": lambda v, c: v == c, "Ne": lambda v, c: v != c, "Lt": lambda v, c: v < c, "Le": lambda v, c: v <= c, "Gt": lambda v, c: v > c, "Ge": lambda v, c: v >= c}
    SWAP = {"Lt": "Gt", "Le": "Ge", "Gt": "Lt", "Ge": "Le", "Eq": "Eq", "Ne": "Ne"}
    for i_, x in enumerate(pth):
        blk = b.blocks[x]
        for s_ in blk["stmts"]:
            if s_["k"] != "assign" or s_["lhs"]["proj"]:
                continue
            l, rv = s_["lhs"]["l"], s_["rhs"]
            src = rv["a"]["p"]["l"] if rv["k"] in ("use", "cast") and rv.get("a") and rv["a"]["k"] in ("copy", "move") and not rv["a"]["p"]["proj"] else None
            if src in alias:
                alias.add(l)
            elif l in alias and i_ > 0:
                alias.discard(l)
        t = blk["term"]
        if i_ > 0 and t["k"] == "call" and not t["dest"]["proj"] and t["dest"]["l"] in alias:
            alias.discard(t["dest"]["l"])
        if t["k"] == "switch" and t.get("dty") == "bool" and i_ + 1 < len(pth) and t["discr"]["k"] in ("copy", "move") and not t["discr"]["p"]["proj"]:
            # resolve the tested bool to `alias <op> const`, through copies and `!`
            l, neg, n_ = t["discr"]["p"]["l"], False, 0
            cmp_ = None
            while n_ < 8:
                n_ += 1
                ds = du.defs.get(l, [])
                if len(ds) != 1 or ds[0][2] != "assign" or ds[0][3]["lhs"]["proj"]:
                    break
                rv = ds[0][3]["rhs"]
                if rv["k"] == "binop" and rv["op"] in REL:
                    cmp_ = rv
                    break
                if rv["k"] == "use" and rv["a"]["k"] in ("copy", "move") and not rv["a"]["p"]["proj"]:
                    l = rv["a"]["p"]["l"]
                elif rv["k"] == "unop" and rv["op"] == "Not" and rv["a"]["k"] in ("copy", "move") and not rv["a"]["p"]["proj"]:
                    l, neg = rv["a"]["p"]["l"], not neg
                else:
                    break
            if cmp_ is None:
                continue
            a, c = cmp_["a"], cmp_["b"]
            op = cmp_["op"]
            if op_const(a) is not None and op_const(c) is None:
                a, c, op = c, a, SWAP[op]
            k = op_const(c)
            al = a["p"]["l"] if a["k"] in ("copy", "move") and not a["p"]["proj"] else None
            # the compared operand may be a same-path temporary copy of the alias
            if al is not None and al not in alias:
                ds = du.defs.get(al, [])
                if len(ds) == 1 and ds[0][2] == "assign" and ds[0][3]["rhs"]["k"] in ("use", "cast") and ds[0][3]["rhs"]["a"]["k"] in ("copy", "move") and not ds[0][3]["rhs"]["a"]["p"]["proj"] and ds[0][3]["rhs"]["a"]["p"]["l"] in alias:
                    al = ds[0][3]["rhs"]["a"]["p"]["l"]
            if k is None or al not in alias:
                continue
            nxt = pth[i_ + 1]
            ones = [bb for v_, bb in t["targets"] if int(v_) == 1]
            zeros = [bb for v_, bb in t["targets"] if int(v_) == 0]
            bval = True if nxt in ones else False if nxt in zeros else (bool(zeros) if nxt == t.get("otherwise") and bool(zeros) != bool(ones) else None)
            if bval is None:
                continue
            if neg:
                bval = not bval
            poss = {v for v in poss if REL[op](v, k) == bval}
    return poss


def errno_not_stale_rule(run, f, rid):
    """In the retry loops of the buffer readers and writers, errno is inspected (last_os_error) to decide between "would
    block, wait", "interrupted, retry" and "give up".  On a path from the inner call to that inspection errno must be this
    call's own (the result is -1) or known to be zero (reset_errno() lies on the path).  A result of 0 (end of stream) or a
    positive count that reaches the inspection without a reset is judged by whatever errno an EARLIER call left: with a stale
    EINTR / EAGAIN the wrapper re-issues the call or waits, instead of returning the end of stream."""
    run.rule(rid, "between an inner call and the inspection of errno, the call failed (-1) or errno was reset: errno is never consulted stale", floor=8, template="T2 (path by path, result followed through its aliases)")
    for nm, b in nio._each(run, f, rid, nio.BUF_READ + nio.BUF_WRITE):
        du = DefUse(b)
        inner = [(x, t) for (x, t) in b.calls() if norm(t.get("orig") or "").endswith("::" + nm) and norm(t.get("trait") or "") == (b.impl_trait or "") and t["args"]]
        cfg = Cfg(b)
        loop_calls = [(x, t) for (x, t) in inner if cfg.in_cycle(x)]
        errs = {x for (x, t) in find_calls(b, callee_is("std::io::Error::last_os_error"))}
        resets = {x for (x, t) in find_calls(b, callee_is("syscall::unix::reset_errno", "syscall::unix::set_errno"))}
        if len(loop_calls) != 1 or not errs:
            run.fail(rid, b.npath + "/errno-fresh", b.loc(), "%s: expected one inner call in the retry loop and an errno inspection after it (found %d / %d)" % (nm, len(loop_calls), len(errs)))
            continue
        ib, it = loop_calls[0]
        start = {it["dest"]["l"]} if not it["dest"]["proj"] else set()
        w = PathWalker(b)
        n_ex = 0
        bad = set()
        for nxt in cfg.after(ib):
            for (pth, _c, sv) in w.walk(nxt, lambda bid, t: ("errno",) if bid in errs else (("return",) if t["k"] == "return" else (("again",) if bid == ib else None))):
                if sv[0] != "errno":
                    continue
                n_ex += 1
                full = [ib] + list(pth)
                if any(x in resets for x in full):
                    continue
                poss = _classes_after(b, du, full, start)
                if poss - {-1}:
                    bad.add(", ".join({0: "0 (end of stream)", 1: "a positive count", -1: "-1"}[v] for v in sorted(poss - {-1})))
        if not run.paths(rid, b.npath + "/errno-fresh", b.loc(), n_ex):
            continue
        if bad:
            run.fail(rid, b.npath + "/errno-fresh", b.loc(it["line"]), "%s inspects errno after an inner call whose result can be %s, without reset_errno() in between: a stale EINTR/EAGAIN from an earlier call decides, and e.g. an end of stream is answered by re-issuing the call or waiting" % (nm, " or ".join(sorted(bad))))
        else:
            run.ok(rid, b.npath + "/errno-fresh", {"paths_to_errno": n_ex})


def no_raw_array_rule(run, f, rid):
    """readv / writev / preadv / pwritev retry with a scratch copy of the caller's iovec array that starts at the first
    unfinished element.  The pointer and the count handed to the inner call inside the retry loop must come from that scratch
    vector on EVERY reaching definition: if the caller's own (iov, iovcnt) parameters can reach them directly, a retry after a
    transfer that ended exactly on an element boundary passes the whole original array again, and buffers that were already
    filled (or sent) are handed to the kernel a second time."""
    run.rule(rid, "inside the retry loop the kernel never gets the caller's raw iovec array: pointer and count come from the scratch suffix only", floor=4, template="T5 (provenance, all reaching definitions)")
    for nm, b in nio._each(run, f, rid, ("readv", "preadv", "writev", "pwritev")):
        du = DefUse(b)
        cfg = Cfg(b)
        inner = [(x, t) for (x, t) in b.calls() if norm(t.get("orig") or "").endswith("::" + nm) and norm(t.get("trait") or "") == (b.impl_trait or "") and t["args"] and cfg.in_cycle(x)]
        if not inner:
            run.fail(rid, b.npath + "/no-raw-array", b.loc(), "%s: no inner call inside a retry loop" % nm)
            continue
        why = []
        for (x, t) in inner:
            # args: self.inner, fn_ptr, fd, iov, iovcnt, ...
            for (role, a) in (("array pointer", t["args"][3]), ("element count", t["args"][4])):
                sl = backward(b, a, du, at=(x, "term"), through_calls="none")
                raw = sorted(b.name_of(p) for p in sl.params if p >= 4)       # parameters after self, fn_ptr, fd
                if raw:
                    why.append("the %s can be the caller's own parameter %s" % (role, raw))
        if why:
            run.fail(rid, b.npath + "/no-raw-array", b.loc(inner[0][1]["line"]), "%s: %s -- after a transfer that ended on an element boundary the retry hands the kernel buffers that were already filled or sent" % (nm, "; ".join(sorted(set(why)))))
        else:
            run.ok(rid, b.npath + "/no-raw-array", {"inner_calls_in_loop": len(inner)})


def index_advances_rule(run, f, rid):
    """The vectored wrappers hand the kernel `vec[index..]`: `index` counts the leading elements that are completely
    transferred.  C17-SUFFIX checks that index advances ONLY when an element is complete; this is the converse: when the retry
    loop leaves an element complete (the byte accumulator reached the running length), index is advanced before the array
    for the next element is built.  Otherwise the next kernel call starts at the element that was just finished, and its bytes
    are sent (or its buffer filled) a second time.

    Roles, not names: `index` is the loop-carried local feeding the count of Iterator::skip; the accumulator is the one the
    NIO facts identify (x = x + result); "complete" is a comparison of the accumulator with another loop-carried local that
    the path takes on its `accumulator >= other` side."""
    from analysis.nioabs import NioFacts
    from analysis.flow import value_root
    run.rule(rid, "an element completed inside the retry loop advances the suffix index before the next array is built", floor=4, template="T1 (path by path, from the inner call to the next array build)")
    for nm, b in nio._each(run, f, rid, nio.VEC_READ + nio.VEC_WRITE):
        du = DefUse(b)
        cfg = Cfg(b)
        nf = NioFacts(b)
        skips = [(x, t) for (x, t) in b.calls() if norm(t.get("orig") or t.get("callee") or "").endswith("Iterator::skip") and len(t["args"]) == 2]
        inner = [(x, t) for (x, t) in b.calls() if x in nf.inner and cfg.in_cycle(x)]
        if not skips or not inner or nf.acc is None:
            run.fail(rid, b.npath + "/index-advances", b.loc(), "%s: suffix construction (Iterator::skip), inner call in the retry loop or byte accumulator not found" % nm)
            continue
        idx_roots = set()
        for (x, t) in skips:
            o = t["args"][1]
            if o["k"] in ("copy", "move") and not o["p"]["proj"]:
                idx_roots.add(value_root(du, o["p"]["l"]))
        # blocks that write the index from an addition: either the checked add itself or the `.0` of its result
        inc_blocks = set()
        for l in idx_roots:
            for d in du.defs.get(l, []):
                if d[2] != "assign":
                    continue
                rv = d[3]["rhs"]
                if rv["k"] == "binop" and rv["op"] in ("Add", "AddWithOverflow", "AddUnchecked"):
                    inc_blocks.add(d[0])
                elif rv["k"] == "use" and rv["a"]["k"] in ("copy", "move") and rv["a"]["p"]["proj"]:
                    tds = du.defs.get(rv["a"]["p"]["l"], [])
                    if len(tds) == 1 and tds[0][2] == "assign" and tds[0][3]["rhs"]["k"] == "binop" and tds[0][3]["rhs"]["op"] in ("Add", "AddWithOverflow"):
                        inc_blocks.add(d[0])
        skip_blocks = {x for (x, _t) in skips}
        acc = nf.acc

        def complete_on(pth):
            """Did the path establish `acc >= other` for the CURRENT element?  Comparisons count only up to the first
            re-definition of the compared local on the path: `length += next.iov_len` at the top of the next outer iteration
            starts the accounting of the next element, and a test against that new length says nothing about this one."""
            res = None
            others = set()
            for i_, x in enumerate(pth[:-1]):
                if i_ > 0 and others and any(s_["k"] == "assign" and not s_["lhs"]["proj"] and s_["lhs"]["l"] in others for s_ in b.blocks[x]["stmts"]):
                    break
                t_ = b.blocks[x]["term"]
                if t_["k"] != "switch" or t_.get("dty") != "bool" or t_["discr"]["k"] not in ("copy", "move") or t_["discr"]["p"]["proj"]:
                    continue
                ds = du.defs.get(t_["discr"]["p"]["l"], [])
                if len(ds) != 1 or ds[0][2] != "assign" or ds[0][3]["rhs"]["k"] != "binop" or ds[0][3]["rhs"]["op"] not in ("Lt", "Le", "Gt", "Ge"):
                    continue
                rv = ds[0][3]["rhs"]
                def root(o):
                    if o["k"] not in ("copy", "move") or o["p"]["proj"]:
                        return None
                    l = o["p"]["l"]
                    dd = du.defs.get(l, [])
                    if len(dd) == 1 and dd[0][2] == "assign" and dd[0][3]["rhs"]["k"] in ("use", "cast") and dd[0][3]["rhs"]["a"]["k"] in ("copy", "move") and not dd[0][3]["rhs"]["a"]["p"]["proj"]:
                        return dd[0][3]["rhs"]["a"]["p"]["l"]
                    return l
                ra, rb = root(rv["a"]), root(rv["b"])
                if acc not in (ra, rb) or ra == rb or None in (ra, rb):
                    continue
                others.add(rb if ra == acc else ra)
                nxt = pth[i_ + 1]
                ones = [bb for v_, bb in t_["targets"] if int(v_) == 1]
                zeros = [bb for v_, bb in t_["targets"] if int(v_) == 0]
                bval = True if nxt in ones else False if nxt in zeros else (bool(zeros) if nxt == t_.get("otherwise") and bool(zeros) != bool(ones) else None)
                if bval is None:
                    continue
                op = rv["op"]
                if ra != acc:                       # other <op> acc  ==  acc <swapped op> other
                    op = {"Lt": "Gt", "Le": "Ge", "Gt": "Lt", "Ge": "Le"}[op]
                holds_ge = (op == "Ge" and bval) or (op == "Lt" and not bval)
                holds_lt = (op == "Lt" and bval) or (op == "Ge" and not bval)
                if holds_ge:
                    res = True
                elif holds_lt:
                    res = False
            return res

        w = PathWalker(b, max_paths=60000)
        n_ex = bad = 0
        for (ib, it) in inner:
            for nxt in cfg.after(ib):
                for (pth, _c, sv) in w.walk(nxt, lambda bid, t: ("build",) if bid in skip_blocks else (("return",) if t["k"] == "return" else (("again",) if bid == ib else None))):
                    if sv[0] != "build":
                        continue
                    n_ex += 1
                    full = [ib] + list(pth)
                    if complete_on(full) is True and not any(x in inc_blocks for x in full):
                        bad += 1
        if not run.paths(rid, b.npath + "/index-advances", b.loc(), n_ex):
            continue
        if bad:
            run.fail(rid, b.npath + "/index-advances", b.loc(), "%s: after the retry loop leaves the current element complete, the next array can be built without advancing the suffix index (%d path(s)): the kernel is handed the finished element again" % (nm, bad))
        else:
            run.ok(rid, b.npath + "/index-advances", {"paths_to_next_build": n_ex})


def no_reissue_while_head_wrong_rule(run, f, rid):
    """CONDITIONAL on the known finding F11 (the head-offset of the vectored wrappers is measured from the END of the current
    element, i.e. it is always 0; keys C16-HEAD / C17-HEAD).  As long as that offset is wrong, the only thing that keeps it
    harmless after a successful SHORT transfer is that the wrapper does not issue the inner call again for the same request:
    today every vectored wrapper falls through to the errno inspection (errno was reset, the kind is none of the retry kinds)
    and returns.  A retry added there (`continue`) hands the kernel the element from its start again: bytes already sent are
    sent twice, buffers already filled are overwritten.  A correct implementation DOES retry after a short transfer -- with
    the right offset; when F11 is repaired this clause has to go, and C16-HEAD / C17-HEAD then carry the obligation."""
    run.rule(rid, "while the head offset is the known-wrong one (F11), no vectored wrapper re-issues its inner call after a call that succeeded", floor=6, template="P3 fixpoint (event absent), conditional on a known finding")
    for nm, b in nio._each(run, f, rid, nio.VEC_READ + nio.VEC_WRITE):
        nf, w = nio.walk(b)
        if not nf.ok:
            run.fail(rid, b.npath + "/shape", b.loc(), "wrapper shape not recognised (result local / inner call)")
            continue
        ev = [e for e in w.events if e[0] == "reissue-after-success"]
        if ev:
            run.fail(rid, b.npath + "/reissue-after-success", b.loc(ev[0][2]), "%s issues its inner call again after a call that succeeded, with the head offset that is known to be wrong (always 0): the retry starts at the beginning of the current element, so bytes of it are transferred twice" % nm, detail={"lines": sorted({e[2] for e in ev})})
        else:
            run.ok(rid, b.npath + "/no-reissue", {"states": w.visited})


# ------------------------------------------------------------------ C17: the head offset is computed anew for every element visited
def offset_per_element_rule(run, f, rid):
    """The vectored wrappers walk the caller's elements in an outer loop and, for the element a transfer stopped in, shift
    its base by an `offset` before re-issuing the call.  That offset belongs to ONE element: every round of the outer loop
    must compute it before it can be used.  If a round can reach the shift with the value a previous round left behind (an
    offset declared outside the loop and only updated where an element completes), an element that issued no call of its
    own passes a stale offset on: the next request starts at the wrong byte."""
    from analysis.flow import op_local
    run.rule(rid, "on every path from the head of the per-element loop to the head shift, the offset that is applied is assigned first", floor=4, template="T1 (must-pass on the loop body)")
    n = 0
    for nm, b in nio._each(run, f, rid, nio.VEC_READ + nio.VEC_WRITE):
        du = DefUse(b)
        cfg = Cfg(b)
        im = {t["dest"]["l"] for (x, t) in b.calls() if norm(t.get("callee") or "").endswith("IndexMut>::index_mut")}
        sites = []        # (block, offset local)
        for blk in b.blocks:
            for i, s in enumerate(blk["stmts"]):
                if s["k"] == "assign" and s["lhs"]["l"] in im and s["lhs"]["proj"] == ["deref"]:
                    agg = s["rhs"] if s["rhs"]["k"] == "agg" else None
                    if agg is None and s["rhs"]["k"] == "use" and op_local(s["rhs"]["a"]) is not None:
                        ds0 = du.defs.get(op_local(s["rhs"]["a"]), [])
                        if len(ds0) == 1 and ds0[0][2] == "assign" and ds0[0][3]["rhs"]["k"] == "agg":
                            agg = ds0[0][3]["rhs"]
                    if agg is None or "iovec" not in (agg.get("adt") or ""):
                        continue
                    # iov_len operand: <elem>.iov_len - offset
                    for o in agg["ops"]:
                        l = op_local(o)
                        cands = list(du.defs.get(l, [])) if l is not None else []
                        # checked arithmetic: `tmp = SubWithOverflow(a, b); x = move (tmp.0)`
                        for d in list(cands):
                            if d[2] == "assign" and d[3]["rhs"]["k"] == "use" and d[3]["rhs"]["a"]["k"] in ("move", "copy") and d[3]["rhs"]["a"]["p"]["proj"]:
                                cands += du.defs.get(d[3]["rhs"]["a"]["p"]["l"], [])
                        for d in cands:
                            if d[2] == "assign" and d[3]["rhs"]["k"] == "binop" and d[3]["rhs"]["op"].startswith("Sub"):
                                off = op_local(d[3]["rhs"]["b"])
                                for _ in range(4):       # through plain copies
                                    ds = du.defs.get(off, [])
                                    if len(ds) == 1 and ds[0][2] == "assign" and ds[0][3]["rhs"]["k"] == "use" and ds[0][3]["rhs"]["a"]["k"] in ("copy", "move") and not ds[0][3]["rhs"]["a"]["p"]["proj"]:
                                        off = ds[0][3]["rhs"]["a"]["p"]["l"]
                                    else:
                                        break
                                if off is not None and off > b.argc:
                                    sites.append((blk["id"], off, s.get("line")))
        if not sites:
            continue          # a wrapper without a head shift (nothing to carry over)
        loops = cfg.natural_loops()
        for (ub_, off, line) in sites:
            n += 1
            outer = None
            for h, blocks in loops.items():
                if ub_ in blocks and (outer is None or len(blocks) > len(loops[outer])):
                    outer = h
            if outer is None:
                run.fail(rid, b.npath + "/offset-per-element", b.loc(line), "%s: the head shift is not inside a per-element loop" % nm)
                continue
            defb = {d[0] for d in du.defs.get(off, [])}
            # must_pass: every path from the loop head to the shift passes a block that assigns the offset
            r = cfg.reachable(set(cfg.after(outer)), avoid=defb)
            if ub_ in r and ub_ not in defb:
                run.fail(rid, b.npath + "/offset-per-element", b.loc(line), "%s: a round of the per-element loop can reach the head shift without assigning `%s` first: the offset left by an earlier element is applied to this one, the request starts at the wrong byte" % (nm, b.name_of(off)))
            else:
                run.ok(rid, b.npath + "/offset-per-element", {"offset": b.name_of(off)})
    if n < 4:
        run.fail(rid, "head-shift-sites", "core/src/syscall/unix/mod.rs", "only %d head-shift site(s) found in the vectored wrappers (4 counted by hand): the rule would pass vacuously" % n)
