"""C20 — Readiness wakes exactly the waiting coroutine, promptly (structural clauses)."""
from rules.common import start
from rules import wave3
from rules import wave2
from rules import selector


def run(tier):
    run, fx = start("C20", tier,
        "T5 lossless token round trip (registration -> mio::Token -> Event::get_token), followed into repo-local helpers; T5 chain wait_just -> resume "
        "-> try_resume and registration under the current coroutine's id; T1 scope of a registration relative to the wait that made it.",
        ["core/default"],
        not_decided=["wake latency"],
        assumptions=["mio::Token round-trips a usize", "epoll reports the registered u64 data unchanged"])
    f = fx["core/default"]
    selector.lossless_rule(run, f, "C20-LOSSLESS")
    selector.chain_rule(run, f, "C20-CHAIN")
    selector.scope_rule(run, f, "C20-SCOPE")
    selector.poll_lock_rule(run, f, "C20-POLL-LOCK")
    # a wait is only woken by readiness if the descriptor really is registered: the interest machine of C21
    selector.machine_rule(run, f, "C20-INTEREST-MACHINE")
    # clauses added for the wave-2 seeds (rules/wave2.py; DESIGN 12a)
    wave2.poll_every_round_rule(run, f, "C20-POLL-EVERY-ROUND")
    # clauses added for the wave-2 seeds (rules/wave2.py; DESIGN 12a)
    wave3.fresh_events_rule(run, f, "C20-FRESH-EVENTS")
    # clauses added for the wave-2 seeds (rules/wave2.py; DESIGN 12a)
    wave3.wait_in_syscall_rule(run, f, "C20-WAIT-IN-SYSCALL")
    return run.finish()
