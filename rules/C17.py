"""C17 — Hooked vectored I/O only hands the kernel the caller's unfilled buffers (structural clauses)."""
from rules.common import start
from rules import wave2_nio
from rules import nio


def run(tier):
    run, fx = start("C17", tier,
        "T5 provenance on the six vectored wrappers: the count argument (iovcnt / msg_iovlen) is Vec::len of the same Vec whose as_ptr is the array "
        "argument; that Vec is rebuilt from the caller's array with skip(index), index advancing only under transferred >= length; head-element rule shared with C16.",
        ["core/default"],
        not_decided=["contents of the buffers"],
        assumptions=["Vec::len is the number of initialised elements behind Vec::as_ptr"])
    f = fx["core/default"]
    nio.count_rule(run, f, "C17-COUNT", "C17-SUFFIX")
    nio.head_rule(run, f, "C17-HEAD")
    # clauses added for the wave-2 seeds (rules/wave2.py; DESIGN 12a)
    wave2_nio.no_raw_array_rule(run, f, "C17-NO-RAW-ARRAY")
    wave2_nio.index_advances_rule(run, f, "C17-INDEX-ADVANCES")
    # clauses added for the wave-2 seeds (rules/wave2.py; DESIGN 12a)
    wave2_nio.no_reissue_while_head_wrong_rule(run, f, "C17-HEAD-UNUSED-AFTER-SUCCESS")
    # clauses added for the wave-2 seeds (rules/wave2.py; DESIGN 12a)
    wave2_nio.offset_per_element_rule(run, f, "C17-OFFSET-PER-ELEMENT")
    return run.finish()
