"""Clauses added for the wave-2 seeds that no earlier rule reported (DESIGN 12a work list).  Each is a structural necessary
condition of the property it is registered under, stated on the function as one inlined unit, path by path where the
statement is about paths, and fails closed (missing anchor, no path examined)."""
from analysis.facts import norm
from analysis.cfg import Cfg
from analysis.flow import DefUse, backward, find_calls, callee_is, callee_ends, op_local, op_const, static_of, field_chain
from analysis.table import PathWalker, describe_val, outcome_on_path, result_outcomes, enum_facts
from analysis.atomics import receiver_key
from rules.common import need, unit, inl, family, uncovered_roots

POOL = "co_pool::CoroutinePool"
LOOP = "net::event_loop::EventLoop"
CO = "coroutine::korosensei::Coroutine"
SCHED = "scheduler::Scheduler"
BF = "common::beans::BeanFactory"
LOCAL = "coroutine::local::CoroutineLocal"
OLQ = "common::ordered_work_steal::OrderedLocalQueue"


def _ret_paths(b, **kw):
    return [(p_, c_) for (p_, c_, sv) in PathWalker(b, **kw).walk(0, lambda bid, t: ("return",) if t["k"] == "return" else None) if sv[0] == "return"]


# ------------------------------------------------------------------ C20: the selector is polled in every round
def poll_every_round_rule(run, f, rid):
    """EventLoop::wait_event is the event-loop thread's round.  If a path through it returns Ok without reaching
    wait_just, a loop that always has a runnable coroutine never polls the OS: a waiter is then woken only by its
    periodic timeout, not by the readiness event."""
    run.rule(rid, "every round of EventLoop::wait_event that does not fail polls the selector (passes wait_just)", floor=1, template="T1 (must-pass, path by path)")
    b = unit(run, rid, f, LOOP + "::wait_event")
    if b is None:
        return
    du = DefUse(b)
    wj = {x for (x, _t) in find_calls(b, callee_is(LOOP + "::wait_just", LOOP + "::timed_wait_just"))}
    if not wj:
        run.fail(rid, "wait_event/polls", b.loc(), "wait_event never calls wait_just")
        return
    from rules.C07 import ret_variant
    n_ex = n_inf = 0
    bad = 0
    for (pth, _c) in _ret_paths(b):
        oc, feas = result_outcomes(b, du, pth)
        if not feas:
            n_inf += 1
            continue
        n_ex += 1
        if any(x in wj for x in pth):
            continue
        # a path without the poll is acceptable only when it reports a failure of the scheduling step (`?`)
        if ret_variant(b, pth) != "Err":
            bad += 1
    if not run.paths(rid, "wait_event/polls", b.loc(), n_ex, n_inf):
        return
    if bad:
        run.fail(rid, "wait_event/polls", b.loc(), "%d path(s) through wait_event return without polling the selector and without an error: with a coroutine that is runnable in every round the OS is never asked, readiness is seen only through the waiters' timeouts" % bad)
    else:
        run.ok(rid, "wait_event/polls", {"paths": n_ex})


# ------------------------------------------------------------------ C26: lookups consult the shared map
def lookup_consults_map_rule(run, f, rid):
    """Every return of get_or_default / get_mut_or_default passes a lookup in the factory's shared map (get / entry).  A
    path that answers from anywhere else (a thread-local cache, a static) can hand out an instance that is no longer, or
    never was, the one published under the name."""
    run.rule(rid, "every lookup of a named bean consults the shared map on every path", floor=1, template="T1 (must-pass, path by path)")
    for fn in (BF + "::get_or_default", BF + "::get_mut_or_default"):
        if f.body(fn) is None:
            continue
        b = unit(run, rid, f, fn)
        du = DefUse(b)
        look = {x for (x, t) in b.calls() if norm(t.get("callee") or "") in ("dashmap::DashMap::get", "dashmap::DashMap::entry", "dashmap::DashMap::get_mut", "dashmap::DashMap::contains_key")}
        tls = [s_ for blk in b.blocks for s_ in blk["stmts"] if s_["k"] == "assign" and s_["rhs"]["k"] == "tlsref"]
        n_ex = bad = 0
        for (pth, _c) in _ret_paths(b):
            n_ex += 1
            if not any(x in look for x in pth):
                bad += 1
        if not run.paths(rid, fn + "/consults-map", b.loc(), n_ex):
            continue
        if bad or tls:
            run.fail(rid, fn + "/consults-map", b.loc(), "%s can answer without looking the name up in the shared map (%d such path(s)%s): a bean removed or replaced by another thread keeps being handed out" % (fn.rsplit("::", 1)[1], bad, ", thread-local state consulted" if tls else ""))
        else:
            run.ok(rid, fn + "/consults-map", {"paths": n_ex})


# ------------------------------------------------------------------ C25: only remove/put delete from the map
def local_deleters_rule(run, f, rid):
    """The storage map loses entries only through CoroutineLocal::remove (and put, which hands the displaced value back).
    Any other deleting operation on it (clear, retain, remove from another method, shrink via drain) makes a stored value
    disappear while the coroutine -- finished or not -- is still alive and readable."""
    run.rule(rid, "entries leave the coroutine-local map only through remove (and put's displaced value)", floor=1, template="T9 (who-may-delete)")
    DEL = ("::clear", "::retain", "::remove", "::remove_if", "::drain", "::alter", "::alter_all", "::take")
    offenders = []
    seen = 0
    for b in f.bodies:
        if b.kind == "Promoted":
            continue
        du = None
        for (x, t) in b.calls():
            c = norm(t.get("callee") or "")
            if not (c.startswith(("dashmap::DashMap::", "std::collections::HashMap::", "std::collections::BTreeMap::")) and c.endswith(DEL)) or not t["args"]:
                continue
            du = du or DefUse(b)
            k = receiver_key(b, du, t["args"][0])
            if k and k[0] == LOCAL:
                seen += 1
                host = b.npath.split("::{closure#", 1)[0]
                if host not in (LOCAL + "::remove", LOCAL + "::put", "<%s as std::ops::Drop>::drop" % LOCAL) and uncovered_roots(f, host, {LOCAL + "::remove", LOCAL + "::put", "<%s as std::ops::Drop>::drop" % LOCAL}):
                    offenders.append("%s (%s)" % (host, c.rsplit("::", 1)[1]))
    if need(run, rid, f, LOCAL + "::remove") is None:
        return
    if seen == 0:
        run.fail(rid, LOCAL + "/deleters", "core/src/coroutine/local.rs", "no deleting operation on the coroutine-local map found at all (remove no longer removes)")
    elif offenders:
        run.fail(rid, LOCAL + "/deleters", "core/src/coroutine/local.rs", "entries are deleted from a coroutine's local storage outside remove/put: %s" % sorted(set(offenders)))
    else:
        run.ok(rid, LOCAL + "/deleters", {"deleting_sites": seen})


# ------------------------------------------------------------------ C02: the waiter's answer does not depend on the pool state
def wait_no_state_gate_rule(run, f, rid):
    """wait_task_result reports a stored result or times out; a Stopping pool still runs its accepted tasks, so a gate on
    the pool state turns "finished later" into an immediate error and strands the result."""
    run.rule(rid, "wait_task_result's outcome does not depend on the pool's lifecycle state", floor=1, template="T9 (who-may-read)")
    b = unit(run, rid, f, POOL + "::wait_task_result")
    if b is None:
        return
    st = find_calls(b, callee_is(POOL + "::state"))
    if st:
        run.fail(rid, "wait_task_result/state-gate", b.loc(st[0][1]["line"]), "wait_task_result consults the pool state: a join that starts while the pool is stopping is refused although the task still runs and its result is stored")
    else:
        run.ok(rid, "wait_task_result/state-gate", "no read of the pool state")


# ------------------------------------------------------------------ C01/C12/C15: try_grow refuses only on empty queues
def grow_refusal_rule(run, f, rid):
    """try_grow returns without creating a worker (no submit_co on the path) only on a path that found every queue it can
    take from empty.  Any other refusal (pool stopping with a live worker, ...) can leave an accepted task without a worker
    when the live worker is itself blocked on that task."""
    run.rule(rid, "try_grow declines to create a worker only when no task waits in any queue", floor=1, template="T2 (path by path)")
    b = unit(run, rid, f, POOL + "::try_grow")
    if b is None:
        return
    du = DefUse(b)
    sc = {x for (x, _t) in find_calls(b, callee_is(POOL + "::submit_co"))}
    em = [(x, t) for (x, t) in find_calls(b, callee_is(OLQ + "::is_empty"))]
    if not sc or len(em) != 1:
        run.fail(rid, "try_grow/refusals", b.loc(), "try_grow must decide on one OrderedLocalQueue::is_empty() and create the worker through submit_co (found %d / %d)" % (len(em), len(sc)))
        return
    n_ex = n_und = bad = 0
    for (pth, _c) in _ret_paths(b):
        if any(x in sc for x in pth):
            n_ex += 1
            continue
        v = outcome_on_path(b, du, pth, em[0][0])
        if v is None:
            n_und += 1
            bad += 1          # a refusal on a path that never asked (or on which the answer cannot be read): not justified
            continue
        n_ex += 1
        if v is not True:
            bad += 1
    if not run.paths(rid, "try_grow/refusals", b.loc(), n_ex, 0, n_und):
        return
    if bad:
        run.fail(rid, "try_grow/refusals", b.loc(), "try_grow can return without creating a worker although its queues are not empty (%d path(s)): an accepted task whose only live worker is blocked is never run" % bad)
    else:
        run.ok(rid, "try_grow/refusals", {"paths": n_ex})


# ------------------------------------------------------------------ C13: the coroutine -> thread record is held only while resumed
def running_coroutine_record_rule(run, f, rid):
    """do_schedule records which thread runs a coroutine (RUNNING_COROUTINES) so that a cancel can signal that thread.  The
    record must be gone again after every resume(): while a coroutine is suspended its old thread runs other coroutines,
    and a signal aimed through a stale record cancels one of those."""
    run.rule(rid, "the coroutine->thread record is inserted before resume and removed after it on every path", floor=1, template="T1 (pairing)")
    b = unit(run, rid, f, SCHED + "::do_schedule")
    if b is None:
        return
    cfg = Cfg(b)
    du = DefUse(b)
    RC = "scheduler::RUNNING_COROUTINES"
    ins = [x for (x, t) in b.calls() if norm(t.get("callee") or "") == "dashmap::DashMap::insert" and static_of(b, du, t["args"][0]) == RC]
    rem = [x for (x, t) in b.calls() if norm(t.get("callee") or "") == "dashmap::DashMap::remove" and static_of(b, du, t["args"][0]) == RC]
    res = [x for (x, t) in b.calls() if norm(t.get("callee") or "").endswith("Coroutine::resume") or norm(t.get("callee") or "").endswith("Coroutine::resume_with")]
    if not ins or not rem or len(res) != 1:
        run.fail(rid, "do_schedule/running-record", b.loc(), "expected RUNNING_COROUTINES insert, remove and one resume in do_schedule (found %d / %d / %d)" % (len(ins), len(rem), len(res)))
        return
    r = res[0]
    before = any(cfg.dominates(i, r) for i in ins)
    # path by path from the resume: every feasible way onwards -- back to the next resume, or out of the function -- passes
    # a remove.  (Plain reachability would pair the Err arm of `.inspect(..)` with the Continue arm of `?`.)
    w = PathWalker(b)
    n_ex = n_inf = 0
    leaks = []
    for start in cfg.after(r):
        for (pth, _c, sv) in w.walk(start, lambda bid, t: ("return",) if t["k"] == "return" else (("again",) if bid == r else None)):
            if sv[0] not in ("return", "again"):
                continue
            full = [r] + list(pth)
            oc, feas = result_outcomes(b, du, full)
            if not feas:
                n_inf += 1
                continue
            n_ex += 1
            if oc.get(r) == "err":
                # a failed resume ends the scheduling pass with an error and the coroutine is dropped.  The record is left
                # behind on that path in the pinned tree (findings/obs_running_record_on_failed_resume.rs); no history is
                # known in which that interrupts another task, so C13 does not demand the removal there
                continue
            if not any(x in rem for x in pth):
                leaks.append("%s after resume() %s" % ("return" if sv[0] == "return" else "next round", {"ok": "succeeded", "err": "failed", None: "(outcome not inspected)"}[oc.get(r)]))
    if not run.paths(rid, "do_schedule/running-record", b.loc(), n_ex, n_inf):
        return
    if before and not leaks:
        run.ok(rid, "do_schedule/running-record", "insert -> resume -> remove on every path")
    else:
        run.fail(rid, "do_schedule/running-record/" + ("+".join(sorted(set(leaks))).replace(" ", "-") if leaks else "no-insert"), b.loc(b.blocks[r]["term"]["line"]),
                 "do_schedule goes on without removing the coroutine's RUNNING_COROUTINES record (%s): the coroutine still looks scheduled by this thread, and cancelling its task signals whatever the thread runs by then" % (sorted(set(leaks)) or "record not inserted before resume"))


# ------------------------------------------------------------------ C11: a worker of a stopping pool exits
def _worker_loop(f):
    """The worker loop try_grow hands to submit_co: the closure of try_grow that calls try_run, or -- when the loop was
    given a name -- the function the reference tree does not have that calls try_run and is entered from try_grow only."""
    from analysis.facts import ref_items
    from rules.common import owners
    refb = set((ref_items(f.crate, f.config) or {}).get("bodies") or ())
    out = []
    for c in f.bodies:
        if c.kind == "Promoted" or not any(norm(t.get("callee") or "") == POOL + "::try_run" for (_x, t) in c.calls()):
            continue
        if c.kind == "Closure" and c.npath.startswith(POOL + "::try_grow::{closure#"):
            out.append(c)
        elif c.kind in ("Fn", "AssocFn") and refb and c.npath not in refb and owners(f, c.npath, {POOL + "::try_grow"}) == {POOL + "::try_grow"}:
            out.append(c)
    return out


def worker_exit_rule(run, f, rid):
    """In the worker loop (the closure try_grow submits), an idle round -- try_run found nothing -- on which can_recycle()
    is true ends the worker.  Otherwise workers of a stopping pool linger (until a keep-alive they may never reach), running
    stays above zero and stop waits out its timeout."""
    run.rule(rid, "an idle worker of a pool that may be recycled (stopping/stopped) returns", floor=1, template="T2 (path by path)")
    host = need(run, rid, f, POOL + "::try_grow")
    if host is None:
        return
    cands = _worker_loop(f)
    if len(cands) != 1:
        run.fail(rid, "worker-loop/exit", host.loc(), "the worker loop (closure of try_grow calling try_run) was not found")
        return
    # can_recycle() is spliced in, so `pool.can_recycle()` and an inlined `match pool.state() { Running => false, _ => true }`
    # are the same thing to the rule: "the pool's state is not Running"
    b = inl(f, cands[0], keep=(POOL + "::try_run", POOL + "::state"), force=(POOL + "::can_recycle",))
    du = DefUse(b)
    cfg = Cfg(b)
    st = find_calls(b, callee_is(POOL + "::state"))
    tr = find_calls(b, callee_is(POOL + "::try_run"))
    if not st or len(tr) != 1:
        run.fail(rid, "worker-loop/exit", b.loc(), "expected one try_run and a test of the pool state (can_recycle) in the worker loop (found %d / %d)" % (len(tr), len(st)))
        return
    cr = st
    w = PathWalker(b)
    n_ex = n_und = bad = 0
    T = tr[0][0]
    rounds = []
    for start in cfg.after(T):
        # the walker emits a path only at a stop: stop at a return, and when the try_run call is reached AGAIN (one round)
        for (p_, c_, sv) in w.walk(start, lambda bid, t: ("return",) if t["k"] == "return" else (("again",) if bid == T else None)):
            if sv[0] in ("return", "again"):
                rounds.append(([T] + list(p_), c_, sv))
    for (pth, conds, sv) in rounds:
        if sv[0] == "return":
            n_ex += 1
            continue              # the worker ends: nothing to demand
        pth = pth[:-1] if pth[-1] == T else pth     # the closing T belongs to the next round
        oc, feas = result_outcomes(b, du, pth)
        if not feas:
            continue
        if oc.get(T) == "ok":
            n_ex += 1
            continue              # a busy round (a task was run): going round again is the point
        # an idle round that goes round again: the path must have established that the pool is Running (may not be recycled).
        # A round that never looks at the state (the test short-circuited away behind `expired && ..`) keeps a worker of a
        # stopping pool alive just the same.
        n_ex += 1
        if not any(x in pth for (x, _t) in st):
            bad += 1
        elif enum_facts(conds, ("Running", "Stopping", "Stopped")) != {"Running"}:
            bad += 1
    if not run.paths(rid, "worker-loop/exit", b.loc(), n_ex, 0, n_und):
        return
    if bad or n_und:
        run.fail(rid, "worker-loop/exit", b.loc(cr[0][1]["line"]), "an idle worker can go round again although can_recycle() is true (%d path(s), %d undecided): workers of a stopping pool do not exit, running never returns to zero and stop() waits out its timeout" % (bad, n_und))
    else:
        run.ok(rid, "worker-loop/exit", {"paths": n_ex})


# ------------------------------------------------------------------ C08/C25: the `current` deques are used from one end
def current_ends_rule(run, f, rid):
    """impl_current_for! keeps, per thread, a deque of the nested `current` objects (coroutine, suspender, scheduler, pool,
    event loop).  init_current, current and clean_current must work on the same end: otherwise, as soon as one is resumed
    inside another, current() names the outer one while the inner one runs -- a value yielded through Suspender::current()
    is then reported by the wrong resume, and the wrong coroutine's local storage is reached."""
    run.rule(rid, "init_current, current and clean_current of every `current` family use the same end of the per-thread deque", floor=3, template="T5 (siblings agree)")
    FRONT = {"push_front", "front", "front_mut", "pop_front"}
    BACK = {"push_back", "back", "back_mut", "pop_back"}
    fams = {}
    for b in f.bodies:
        if b.kind != "AssocFn":
            continue
        last = b.npath.rsplit("::", 1)[1]
        if last in ("init_current", "current", "clean_current"):
            ops = set()
            for c in family(f, b):
                for (_x, t) in c.calls():
                    cn = norm(t.get("callee") or "")
                    if cn.startswith("std::collections::VecDeque::") and cn.rsplit("::", 1)[1] in FRONT | BACK:
                        ops.add(cn.rsplit("::", 1)[1])
            fams.setdefault(b.npath.rsplit("::", 1)[0], {})[last] = ops
    n = 0
    for owner, m in sorted(fams.items()):
        if set(m) != {"init_current", "current", "clean_current"}:
            continue
        n += 1
        allops = set().union(*m.values())
        want = {"init_current": {"push"}, "current": {"read"}, "clean_current": {"pop"}}
        kind = lambda o: "push" if o.startswith("push") else "pop" if o.startswith("pop") else "read"
        roles_ok = all({kind(o) for o in m[k]} == want[k] for k in m)
        one_end = allops <= FRONT or allops <= BACK
        if roles_ok and one_end:
            run.ok(rid, owner + "/current-ends", sorted(allops))
        else:
            run.fail(rid, owner + "/current-ends", owner, "%s: init_current / current / clean_current use %s: they must push, read and pop at the same end of the per-thread deque (nested resumes otherwise see the outer object as current)" % (owner.rsplit("::", 1)[-1], {k: sorted(v) for k, v in m.items()}))
    if n == 0:
        run.fail(rid, "current-ends/none", "core/src/common/macros.rs", "no init_current/current/clean_current family found")


# ------------------------------------------------------------------ C24: no handler of the crate blocks the fault signals
def fault_signals_unblocked_rule(run, f, rid):
    """A signal handler's sa_mask is added to the thread's mask while the handler runs.  The cancel handler never returns
    (it yields out of the signal frame), so whatever its mask blocks stays blocked on that thread.  If that includes
    SIGSEGV / SIGBUS, the next fault in any coroutine on the thread kills the process instead of failing the coroutine."""
    run.rule(rid, "no signal action installed by the crate blocks SIGSEGV or SIGBUS in its handler mask", floor=1, template="T5 (provenance of the mask)")
    n = 0
    for b in f.bodies:
        if b.kind == "Promoted":
            continue
        news = find_calls(b, callee_is("nix::sys::signal::SigAction::new"))
        if not news:
            continue
        du = DefUse(b)
        for (x, t) in news:
            n += 1
            msl = backward(b, t["args"][2], du, at=(x, "term"), through_calls="all")
            srcs = {norm(tt.get("callee") or "") for (_y, tt) in msl.calls}
            # what was added to the set: every SigSet::add whose receiver is the mask's local
            ml = op_local(t["args"][2])
            added = set()
            for (y, tt) in b.calls():
                if norm(tt.get("callee") or "") == "nix::sys::signal::SigSet::add" and tt["args"]:
                    rsl = backward(b, tt["args"][0], du, at=(y, "term"), through_calls="none")
                    if ml in rsl.locals | {op_local(tt["args"][0])} or (msl.locals & rsl.locals):
                        added.add(repr(describe_val(b, du, tt["args"][1])))
            bad = []
            if any(c.endswith("SigSet::all") for c in srcs):
                bad.append("the mask starts from SigSet::all()")
            if any(c.endswith(("SigSet::thread_get_mask",)) for c in srcs):
                bad.append("the mask is copied from the thread's current mask")
            for a in added:
                if "SIGSEGV" in a or "SIGBUS" in a:
                    # the trap handler itself may list the fault signals (they are blocked only while IT runs, and it returns)
                    if not b.npath.endswith("setup_trap_handler"):
                        bad.append("the mask contains a fault signal")
            key = "%s/handler-mask#%d" % (b.npath.split("::", 2)[-1], [y for (y, _t) in news].index(x))
            if bad:
                run.fail(rid, key, b.loc(t["line"]), "%s installs a handler whose mask blocks the fault signals (%s): a handler that does not return leaves SIGSEGV/SIGBUS blocked on the thread, and the next fault in a coroutine there terminates the process" % (b.npath.rsplit("::", 1)[1], "; ".join(bad)))
            else:
                run.ok(rid, key, {"mask_sources": sorted(c.rsplit("::", 2)[-1] for c in srcs if "SigSet" in c), "added": sorted(added)})
    if n == 0:
        run.fail(rid, "handler-mask/none", "core/src", "no SigAction::new found (the crate installs its handlers some other way)")


# ------------------------------------------------------------------ C15: an idle worker does not hold the loop thread
def idle_block_rule(run, f, rid):
    """When every worker failed to pop a task the worker loop parks the scheduling thread on the pool's blocker.  While it
    is parked nothing else on that event loop runs: no timer is promoted, no readiness is polled.  The park must therefore
    be a compile-time constant no longer than the scheduling slice (10 ms)."""
    run.rule(rid, "the idle park of the worker loop is a constant of at most one scheduling slice", floor=1, template="T5 (constant provenance)")
    cands = _worker_loop(f)
    if len(cands) != 1:
        run.fail(rid, "worker-loop/idle-park", POOL + "::try_grow", "the worker loop (closure of try_grow calling try_run) was not found")
        return
    b = inl(f, cands[0], keep=(POOL + "::try_run", POOL + "::can_recycle"))
    du = DefUse(b)
    bl = [(x, t) for (x, t) in b.calls() if norm(t.get("callee") or "").endswith("CondvarBlocker::block") or norm(t.get("callee") or "") in ("std::thread::sleep", "std::thread::park_timeout")]
    if not bl:
        run.ok(rid, "worker-loop/idle-park", "the worker loop never parks the thread")
        return
    for (x, t) in bl:
        d = describe_val(b, du, t["args"][-1])
        from rules.common import const_duration_ns
        ns = const_duration_ns(b, du, t["args"][-1])
        ok = ns is not None and 0 < ns <= 10 * 10**6
        if ok:
            run.ok(rid, "worker-loop/idle-park", {"nanoseconds": ns})
        else:
            run.fail(rid, "worker-loop/idle-park", b.loc(t["line"]), "an idle worker parks the event-loop thread for %r, which is not a constant of at most 10 ms: coroutines sleeping or waiting on that loop are not resumed until the park ends" % (d,))


# ------------------------------------------------------------------ C27: io_uring wrappers take their limit from the matching direction
def uring_direction_rule(run, f, rid):
    """The io_uring layer bounds a coroutine's wait by the socket's time limit, like the NIO layer: read-family calls by
    recv_time_limit, write-family (and connect) by send_time_limit.  With the wrong one, a send on a socket that only has
    SO_RCVTIMEO times out with ETIMEDOUT while its own submission is still in flight and completes later."""
    run.rule(rid, "io_uring read-family wrappers bound their wait by recv_time_limit, write-family and connect by send_time_limit", floor=8, template="T5/T6")
    READ = ("read", "recv", "recvfrom", "pread", "readv", "preadv", "recvmsg", "accept", "accept4")
    WRITE = ("write", "send", "sendto", "pwrite", "writev", "pwritev", "sendmsg", "connect")
    n = 0
    for b in f.bodies:
        if not ("::IoUring" in b.npath and b.kind == "AssocFn") or b.npath.endswith(("::fmt", "::default")):
            continue
        nm = b.npath.rsplit("::", 1)[1]
        if nm not in READ + WRITE:
            continue
        # which limit function the wrapper reaches: directly, or through helpers of any ABI (`extern "C" fn send_deadline`)
        lim, seen_, work = set(), set(), [(b, 0)]
        while work:
            cb_, d_ = work.pop()
            if cb_.path in seen_:
                continue
            seen_.add(cb_.path)
            for c2 in [cb_] + f.closures_of(cb_):
                for (_x, t_) in c2.calls():
                    cn = norm(t_.get("callee") or "")
                    if cn.endswith(("::recv_time_limit", "::send_time_limit")):
                        lim.add(cn.rsplit("::", 1)[1])
                    elif t_.get("local") and t_.get("resolved", True) and not t_.get("exp") and d_ < 3 and "::IoUring" not in cn and "::Nio" not in cn and "::Raw" not in cn:
                        for nb in f.by_npath.get(cn, []):
                            if nb.kind in ("Fn", "AssocFn"):
                                work.append((nb, d_ + 1))
        if not lim:
            continue          # a wrapper that does not wait with a limit at all
        n += 1
        want = "recv_time_limit" if nm in READ else "send_time_limit"
        if lim == {want}:
            run.ok(rid, b.npath + "/limit", want)
        else:
            run.fail(rid, b.npath + "/limit", b.loc(), "io_uring %s bounds its wait by %s (must be %s)" % (nm, sorted(lim), want))
    if n == 0:
        run.fail(rid, "uring-direction/none", "core/src/syscall/unix/mod.rs", "no io_uring wrapper with a time limit found")


# ------------------------------------------------------------------ C05: a hit ends the scan (replaces a clause that could not fire)
def return_at_first_hit_rule(run, f, rid):
    """pop_local and the shared pop scan the priority map in ascending key order; the FIRST bucket that yields an item ends the
    scan and that item is returned.  If the scan could go on to a later bucket after a hit, a lower-priority item would be
    returned (or the hit dropped).  Stated from each success arm of a bucket pop: every feasible continuation reaches a
    return without popping another bucket (merely stepping the iterator on is harmless and is allowed).

    (The per-path version written earlier asked whether `next()` occurs again AFTER the hit on a path from the function
    entry; such a path is acyclic and can never revisit the `next()` block, so that clause could not fire.  This one starts
    the walk at the success arm and stops at a return or at the `next()` block.)"""
    from rules.queues import OLQ as _OLQ, OWS as _OWS, _iter_facts
    from analysis.flow import switch_info
    run.rule(rid, "a bucket pop that yields an item ends the priority scan: no later bucket is popped before the return", floor=2, template="T1 (from the success arm, path by path)")
    for fn, inner in ((_OLQ + "::pop_local", "st3::fifo::Worker::pop"), (_OWS + "::pop", "crossbeam_deque::Injector::steal")):
        b = unit(run, rid, f, fn)
        if b is None:
            continue
        cfg = Cfg(b)
        du = DefUse(b)
        it = _iter_facts(b)
        inner_blocks = {x for (x, _t) in find_calls(b, callee_is(inner))}
        if len(it["next"]) != 1 or not inner_blocks:
            run.fail(rid, fn + "/first-hit", b.loc(), "the scan loop (one iterator, a bucket pop inside) was not found")
            continue
        nb = it["next"][0]
        arms = []
        for blk in b.blocks:
            if blk["cleanup"] or blk["term"]["k"] != "switch":
                continue
            si = switch_info(b, du, blk["id"])
            if si["kind"] == "discr" and not si["place"]["proj"] and (si["arms"].get("Some") is not None or si["arms"].get("Success") is not None):
                vs = backward(b, {"k": "copy", "p": {"l": si["place"]["l"], "proj": []}}, du, at=(blk["id"], "term"), through_calls="none")
                if inner_blocks & {x for (x, _t) in vs.calls}:
                    arms.append(si["arms"].get("Some") or si["arms"].get("Success"))
        if not arms:
            run.fail(rid, fn + "/first-hit", b.loc(), "no match on the bucket pop result")
            continue
        w = PathWalker(b)
        n_ex = bad = 0
        for arm in arms:
            # stop at a return, or at ANOTHER bucket pop: stepping the iterator alone is harmless (a loop that skips every
            # bucket once it holds an item returns the same item); popping a later bucket is not
            for (pth, _c, sv) in w.walk(arm, lambda bid, t: ("return",) if t["k"] == "return" else (("pop",) if bid in inner_blocks else None)):
                if sv[0] == "return":
                    n_ex += 1
                elif sv[0] == "pop":
                    n_ex += 1
                    bad += 1
        if not run.paths(rid, fn + "/first-hit", b.loc(), n_ex):
            continue
        if bad:
            run.fail(rid, fn + "/first-hit", b.loc(), "after a bucket yielded an item a later bucket can still be popped (%d continuation(s)): a lower-priority item is returned, or one of the two is dropped" % bad)
        else:
            run.ok(rid, fn + "/first-hit", {"success_arms": len(arms), "continuations": n_ex})


# ------------------------------------------------------------------ C09/C13: what a producer pushes is what its yield's consumer path pops
def request_pairing_rule(run, f, rid):
    """A yield carries its requests in two per-thread queues (TIMESTAMP: wake-up time, CANCEL: cancel flag).  The producer
    pushes, then yields; raw_resume pops when it sees that yield.  raw_resume has two consumer paths for a Running-state yield:
    the cancel path (is_cancel() popped `true`) pops CANCEL only and returns Cancelled; the ordinary path pops CANCEL and
    TIMESTAMP.  So whatever `cancel()` pushes (transitively, before it yields) must be popped on the cancel path, and whatever
    `until_with()` pushes on the ordinary path.  An entry pushed but not popped by its own yield's path is attributed to the
    next yield on the thread -- some other coroutine's plain suspend is then reported with this one's delay."""
    from rules.coro import SUS, TLS_TS, TLS_CANCEL, tls_of_with
    run.rule(rid, "the request queues a producer pushes before its yield are the ones raw_resume pops on the path that yield takes", floor=2, template="T5/T6 (producer set within consumer-path set)")
    QN = {TLS_TS: "TIMESTAMP", TLS_CANCEL: "CANCEL"}

    def pushes_of(fn, depth=0, seen=None):
        """queues fn pushes before yielding, following calls to other Suspender methods"""
        seen = seen or set()
        if fn in seen or depth > 4:
            return set()
        seen.add(fn)
        out = set()
        for b in f.by_npath.get(fn, []):
            du = DefUse(b)
            for (x, t) in b.calls():
                c = norm(t.get("callee") or "")
                if c in ("std::thread::LocalKey::with", "std::thread::LocalKey::try_with"):
                    k = tls_of_with(b, du, t)
                    if k:
                        cl = describe_val(b, du, t["args"][1])
                        names = [cl[1]] if cl and cl[0] == "closure" else []
                        stack = [cb for cb in f.bodies if cb.kind == "Closure" and cb.npath in names]
                        while stack:
                            cb = stack.pop()
                            if any(norm(tt.get("callee") or "").startswith("std::collections::VecDeque::push") for (_y, tt) in cb.calls()):
                                out.add(k)
                            stack.extend(f.closures_of(cb))
                elif t.get("local") and t.get("resolved", True) and not t.get("exp") and (c.startswith(SUS + "::") or c.startswith("coroutine::suspender::")) and not c.endswith("::suspend_with"):
                    out |= pushes_of(c, depth + 1, seen)
            for cb in f.closures_of(b):
                pass
        return out

    rr = unit(run, rid, f, "coroutine::korosensei::Coroutine::raw_resume")
    if rr is None:
        return
    du = DefUse(rr)
    ic = find_calls(rr, callee_is(SUS + "::is_cancel"))
    ts = find_calls(rr, callee_is(SUS + "::timestamp"))
    if not ic or not ts:
        run.fail(rid, "raw_resume/consumers", rr.loc(), "raw_resume no longer consumes the requests through is_cancel() / timestamp()")
        return
    # the consumer paths of a Running-state yield: paths on which the FIRST is_cancel's answer is branched on
    pops = {"cancel": None, "ordinary": None}
    n_ex = n_und = 0
    for (pth, _c) in _ret_paths(rr):
        here = [x for (x, _t) in ic if x in pth]
        if not here:
            continue
        v = outcome_on_path(rr, du, pth, here[0])
        if v is None:
            continue          # the Syscall-state arm drains both queues without looking at the answers: not a consumer choice
        n_ex += 1
        got = set()
        if any(x in pth for (x, _t) in ic):
            got.add(TLS_CANCEL)
        if any(x in pth for (x, _t) in ts):
            got.add(TLS_TS)
        k = "cancel" if v else "ordinary"
        pops[k] = got if pops[k] is None else (pops[k] & got)
    if not run.paths(rid, "raw_resume/consumer-paths", rr.loc(), n_ex, 0, n_und):
        return
    for prod, path in ((SUS + "::cancel", "cancel"), (SUS + "::until_with", "ordinary")):
        if need(run, rid, f, prod) is None:
            continue
        pushed = pushes_of(prod)
        popped = pops[path]
        key = prod.rsplit("::", 1)[1] + "/pushed-within-popped"
        if popped is None:
            run.fail(rid, key, rr.loc(), "raw_resume has no %s consumer path" % path)
        elif not pushed:
            run.fail(rid, key, prod, "%s pushes no request at all" % prod.rsplit("::", 1)[1])
        elif pushed <= popped:
            run.ok(rid, key, {"pushes": sorted(QN[k] for k in pushed), "its_yield_pops": sorted(QN[k] for k in popped)})
        else:
            run.fail(rid, key, prod, "%s pushes %s before it yields, but the %s path of raw_resume that consumes that yield pops only %s: the entry left behind is reported for the next yield on this thread (another coroutine's plain suspend gets this delay / cancel)" % (prod.rsplit("::", 1)[1], sorted(QN[k] for k in pushed), path, sorted(QN[k] for k in popped)))


# ------------------------------------------------------------------ C14: unit-changing multiply happens at full width
def wide_scale_rule(run, f, rid):
    """usleep / sleep / poll / select turn their argument into nanoseconds (or ms) by multiplying.  The multiply must act
    on the value AFTER it was widened to the sink's 64-bit type: a saturating or checked multiply in the narrow argument type
    (c_uint microseconds * 1000) caps the wait at 2^32 ns = 4.29 s, so a longer sleep returns early."""
    from rules.timed import TIMED
    run.rule(rid, "the multiplication that changes the unit of a caller's time argument is done in a 64-bit type", floor=1, template="T8 (width of the scaling step)")
    NARROW = ("u32", "i32", "u16", "i16", "u8", "i8")
    n = 0
    for fn in list(TIMED)[:3] + [k for k in list(TIMED)[3:5]]:
        b = f.body(fn)
        if b is None:
            continue
        ub = inl(f, b)
        du = DefUse(ub)
        bad = []
        sites = 0
        for (x, t) in ub.calls():
            c = norm(t.get("callee") or "")
            last = c.rsplit("::", 1)[-1]
            if last in ("saturating_mul", "checked_mul", "wrapping_mul", "overflowing_mul") and t["args"]:
                # only scalings of the caller's time argument
                sl = backward(ub, t["args"][0], du, at=(x, "term"), through_calls="all")
                if not (sl.params - {1, 2}):
                    continue
                sites += 1
                ty = c.rsplit("::", 2)[-2] if c.count("::") >= 1 else "?"
                k = op_const(t["args"][1])
                if ty in NARROW and k is not None and k >= 1000:
                    bad.append("%s::%s by %s at line %s" % (ty, last, k, t["line"]))
        for blk in ub.blocks:
            for i_, s_ in enumerate(blk["stmts"]):
                if s_["k"] == "assign" and s_["rhs"]["k"] == "binop" and s_["rhs"]["op"] in ("Mul", "MulWithOverflow", "MulUnchecked"):
                    k = op_const(s_["rhs"]["b"]) if op_const(s_["rhs"]["b"]) is not None else op_const(s_["rhs"]["a"])
                    o = s_["rhs"]["a"] if op_const(s_["rhs"]["b"]) is not None else s_["rhs"]["b"]
                    if k is None or k < 1000 or o["k"] not in ("copy", "move"):
                        continue
                    sl = backward(ub, o, du, at=(blk["id"], i_), through_calls="all")
                    if not (sl.params - {1, 2}):
                        continue
                    sites += 1
                    ty = ub.locals[o["p"]["l"]] if not o["p"]["proj"] else "?"
                    if ty in NARROW:
                        bad.append("%s * %s at line %s" % (ty, k, s_.get("line")))
        # exception, by construction not by name: when the function treats the narrow type's MAX as "no limit" -- it compares a
        # value that derives from the product with that MAX constant (select: `if t != c_uint::MAX { t -= step }`) -- a
        # saturated product means "wait forever", never a shorter finite wait
        if bad:
            MAXES = {"4294967295", "2147483647", "65535", "32767", "255", "127"}
            prod_blocks = {x for (x, t) in ub.calls() if norm(t.get("callee") or "").rsplit("::", 1)[-1] in ("saturating_mul", "checked_mul")}
            sentinel = False
            for blk in ub.blocks:
                for i_, s_ in enumerate(blk["stmts"]):
                    if s_["k"] == "assign" and s_["rhs"]["k"] == "binop" and s_["rhs"]["op"] in ("Eq", "Ne"):
                        for (o, k_) in ((s_["rhs"]["a"], s_["rhs"]["b"]), (s_["rhs"]["b"], s_["rhs"]["a"])):
                            if k_["k"] == "const" and str(k_.get("v")) in MAXES and o["k"] in ("copy", "move"):
                                if prod_blocks & {y for (y, _t) in backward(ub, o, du, at=(blk["id"], i_), through_calls="all").calls}:
                                    sentinel = True
            if sentinel:
                bad = []
        n += 1
        key = fn.rsplit("::", 1)[1] + "/scale-width"
        if bad:
            run.fail(rid, key, b.loc(), "%s scales its time argument in a narrow integer type (%s): the product is capped below the requested time and the call returns early for long waits" % (fn.rsplit("::", 1)[1], "; ".join(bad)))
        else:
            run.ok(rid, key, {"scaling_sites": sites})
    if n == 0:
        run.fail(rid, "scale-width/none", "core/src/syscall/unix", "no timed wrapper found")
