def join_abi_rule(run, fh, ff, rid): pass
