def join_abi_rule(run, fh, ff, rid): pass
def grow_abi_rule(run, fh, rid): pass
