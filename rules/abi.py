"""Rule instances on the C-ABI layer: hook crate (hook/default) and facade crate (facade/default)."""
from analysis.facts import norm
from analysis.cfg import Cfg
from analysis.flow import DefUse, backward, find_calls, callee_is, callee_ends, op_local, op_const, bool_branch, variant_arms
from analysis.table import PathWalker, describe_val
from rules.common import need, unit


def _ret_desc(b, du, path):
    """the function's return value on this path: a constant, the result of a call, or something computed"""
    from analysis.table import value_on_path
    v = value_on_path(b, path, 0)
    if v is None:
        return None
    if v[0] == "const":
        return ("const", v[1])
    if v[0] == "call":
        return ("call", v[1])
    return ("value",)


def join_abi_rule(run, fh, ff, rid):
    run.rule(rid, "C ABI of join: the hook encodes Ok(Ok(Some(p)))->p, Ok(Ok(None))->0, every failure -> -1; the facade decodes <0 -> Err, 0 -> Ok(None), >0 -> the boxed result; a task body never fails through the -1 channel", floor=2, template="T6 (writer/reader tables agree)")
    for fn in ("task_join", "task_timeout_join"):
        b = unit(run, rid, fh, fn)      # an outcome-to-code helper shared by the two entry points is part of each
        if b is None:
            continue
        w = PathWalker(b)
        paths = w.walk(0, lambda bid, t: ("return",) if t["k"] == "return" else None)
        run.count("paths_or_states", len(paths))
        rows = {}
        for (path, conds, sv) in paths:
            vs = tuple(tuple(sorted(c[2])) for c in conds if c[0] == "variant")
            rows.setdefault(vs, set()).add(_ret_desc(b, w.du, path))
        ok = True
        why = []
        for vs, outs in rows.items():
            flat = [v for tup in vs for v in tup]
            if "Err" in flat:
                want = {("const", "-1")}
            elif flat == ["Ok", "Ok", "None"]:
                want = {("const", "0")}
            elif flat == ["Ok", "Ok", "Some"]:
                want = None
            else:
                continue
            if want is not None and outs != want:
                ok = False
                why.append("%s returns %s (expected %s)" % ("/".join(flat), sorted(outs), sorted(want)))
            if want is None:
                # the pointer itself through a checked conversion
                if not all(o and o[0] == "call" and o[1].endswith("Result::expect") for o in outs):
                    ok = False
                    why.append("Ok(Ok(Some(p))) does not return p through a checked conversion: %s" % sorted(outs))
        du = w.du
        jn = [(x, t) for (x, t) in b.calls() if norm(t.get("callee") or "").endswith(("JoinHandle::join", "JoinHandle::timeout_join"))]
        if len(jn) != 1 or {b.name_of(p) for p in backward(b, jn[0][1]["args"][0], du, at=(jn[0][0], "term"), through_calls="none").params} != {"handle"}:
            ok = False
            why.append("does not join its own handle argument")
        if fn == "task_timeout_join" and jn:
            d = describe_val(b, du, jn[0][1]["args"][1])
            # from_nanos(<the ns_time parameter, unchanged>): `ns_time * 2` mentions the name too
            if not (d[0] == "call" and d[1] == "std::time::Duration::from_nanos" and len(d[2]) == 1 and d[2][0][0] == "param" and d[2][0][2] == "ns_time"):
                ok = False
                why.append("the timeout is not Duration::from_nanos(ns_time)")
        if ok and len(rows) >= 4:
            run.ok(rid, "hook::" + fn, {"rows": len(rows)})
        else:
            run.fail(rid, "hook::" + fn, b.loc(), "%s: %s" % (fn, "; ".join(why) or "result encoding table incomplete (%d rows)" % len(rows)))
    if ff is None:
        return
    for fn in ("JoinHandle::join", "JoinHandle::timeout_join"):
        b = unit(run, rid, ff, fn)      # likewise a shared `decode(code)` helper
        if b is None:
            continue
        w = PathWalker(b)
        du = w.du
        paths = w.walk(0, lambda bid, t: ("return",) if t["k"] == "return" else None)
        run.count("paths_or_states", len(paths))
        ok = True
        why = []
        seen = set()
        for (path, conds, sv) in paths:
            ords = [c[2] for c in conds if c[0] == "variant" and set(c[2]) <= {"Less", "Equal", "Greater"}]
            if not ords:
                continue
            o = ords[0]
            calls = [norm(b.blocks[x]["term"].get("callee") or "") for x in path if b.blocks[x]["term"]["k"] == "call"]
            from rules.C07 import ret_variant
            rv = ret_variant(b, path)
            for v in o:
                seen.add(v)
                if v == "Less" and rv != "Err":
                    ok = False
                    why.append("a negative code is not reported as Err")
                if v == "Equal" and (rv != "Ok" or any(c.endswith("Box::from_raw") for c in calls)):
                    ok = False
                    why.append("code 0 must be Ok(None)")
                if v == "Greater" and not any(c.endswith("Box::from_raw") for c in calls):
                    ok = False
                    why.append("a positive code must be decoded as the boxed result")
        cmpz = [(x, t) for (x, t) in b.calls() if norm(t.get("callee") or "").endswith("::cmp")]
        if not cmpz or seen != {"Less", "Equal", "Greater"}:
            ok = False
            why.append("the code is not classified by cmp(&0) into all three orderings (seen %s)" % sorted(seen))
        if ok:
            run.ok(rid, "facade::" + fn, "<0 Err, 0 Ok(None), >0 Box::from_raw")
        else:
            run.fail(rid, "facade::" + fn, b.loc(), "%s: %s" % (fn, "; ".join(sorted(set(why)))))
    tm = [b for b in ff.bodies if b.npath.endswith("task::task_main") or b.npath.endswith("::task_main")]
    if not tm:
        run.missing(rid, "facade task_main")
        return
    b = tm[0]
    run.fn(b)
    bodies = [b] + [c for c in ff.bodies if c.kind == "Closure" and c.npath.startswith(b.npath + "::")]
    calls = [norm(t.get("callee") or "") for c in bodies for (_x, t) in c.calls()]
    dc = {t["substs"][-1] for c in bodies for (_x, t) in c.calls() if norm(t.get("callee") or "").endswith("::downcast_ref") and t.get("substs")}
    du = DefUse(b)
    r = backward(b, 0, du)
    leaked = any(norm(t.get("callee") or "").endswith("Box::leak") or norm(t.get("callee") or "").endswith("Box::into_raw") for (_x, t) in r.calls)
    why = []
    if "std::panic::catch_unwind" not in calls:
        why.append("the user closure is not run under catch_unwind")
    if not leaked:
        why.append("the value returned is not a leaked box (0 and negative codes are reserved)")
    if not any("str" in d for d in dc) or not any("String" in d for d in dc):
        why.append("the panic message is recovered only for payload types %s (a formatted panic!(\"..{}\") carries a String): the joiner gets 'task failed without message'" % sorted(dc))
    if why:
        run.fail(rid, "facade::task_main", b.loc(), "; ".join(why))
    else:
        run.ok(rid, "facade::task_main", {"payload_types": sorted(dc)})


def grow_abi_rule(run, fh, rid):
    run.rule(rid, "hook::maybe_grow_stack substitutes the defaults exactly for zero arguments, passes param to the callback and returns its value", floor=1, template="T5")
    b = need(run, rid, fh, "maybe_grow_stack")
    if b is None:
        return
    du = DefUse(b)
    cfg = Cfg(b)
    mg = [(x, t) for (x, t) in b.calls() if norm(t.get("callee") or "").endswith("Coroutine::maybe_grow_with")]
    why = []
    if len(mg) != 1:
        why.append("no single maybe_grow_with call")
    else:
        x, t = mg[0]
        for i, (pn, dflt) in enumerate((("red_zone", "default_red_zone"), ("stack_size", "DEFAULT_STACK_SIZE"))):
            sl = backward(b, t["args"][i], du, at=(x, "term"))
            srcs = {b.name_of(p) for p in sl.params} | {norm(tt.get("callee") or "").rsplit("::", 1)[-1] for (_y, tt) in sl.calls}
            if pn not in srcs:
                why.append("argument %d is not the caller's %s" % (i, pn))
            if dflt == "default_red_zone" and dflt not in srcs:
                why.append("a zero red_zone is not replaced by default_red_zone()")
            if sl.binops() and set(sl.binops()) - {"Gt", "Ne", "Eq"}:
                why.append("%s is modified arithmetically (%s)" % (pn, sl.binops()))
        # the tests are `> 0`
        for blk in b.blocks:
            for s in blk["stmts"]:
                if s["k"] == "assign" and s["rhs"]["k"] == "binop" and s["rhs"]["op"] in ("Gt", "Ne", "Lt", "Eq", "Ge", "Le"):
                    if op_const(s["rhs"]["b"]) not in (0, None) or op_const(s["rhs"]["a"]) not in (0, None):
                        why.append("an argument is compared with a constant other than 0")
        cl = [c for c in fh.bodies if c.kind == "Closure" and c.npath.startswith("maybe_grow_stack::")]
        okp = False
        for c in cl:
            for (_y, tt) in c.calls():
                if tt.get("callee") is None and tt["args"]:
                    d2 = DefUse(c)
                    sl = backward(c, tt["args"][0], d2, through_calls="none")
                    okp = any(v == "param" for v in c.upvars.values()) and not sl.ops
        if not okp:
            why.append("the callback is not invoked with the caller's param")
        r = backward(b, 0, du)
        if not any(y == x for (y, _t) in r.calls):
            why.append("the value returned is not the callback's result")
    if why:
        run.fail(rid, "hook::maybe_grow_stack", b.loc(), "; ".join(sorted(set(why))))
    else:
        run.ok(rid, "hook::maybe_grow_stack", "zero -> defaults; f(param); result returned")


def forward_rule(run, fh, rid):
    run.rule(rid, "every interposed libc symbol forwards its own arguments, in order, to the same-named core syscall whenever hooking is on or a coroutine is current, and to the real symbol otherwise", floor=36, template="T5/T2")
    for b in fh.bodies:
        if b.kind != "Fn" or not b.npath.startswith("syscall::unix::"):
            continue
        if not str(b.abi).startswith("C"):
            continue        # a Rust-ABI helper nested in the module (the symbol resolver): not an interposed symbol
        nm = b.npath.rsplit("::", 1)[1]
        run.fn(b)
        cfg = Cfg(b)
        du = DefUse(b)
        core = [(x, t) for (x, t) in b.calls() if norm(t.get("callee") or "").startswith("open_coroutine_core::syscall::")]
        raw = [(x, t) for (x, t) in b.calls() if t.get("callee") is None]
        hk = [(x, t) for (x, t) in b.calls() if norm(t.get("callee") or "") == "hook"]
        cu = [(x, t) for (x, t) in b.calls() if norm(t.get("callee") or "").endswith("Coroutine::current")]
        why = []
        if len(core) != 1 or len(raw) != 1:
            why.append("expected one core-syscall call and one call of the real symbol")
        else:
            cx, ct = core[0]
            if norm(ct["callee"]).rsplit("::", 1)[1] != nm:
                why.append("forwards to core syscall `%s`" % norm(ct["callee"]).rsplit("::", 1)[1])
            n = b.argc
            for i in range(n):
                a = ct["args"][i + 1] if i + 1 < len(ct["args"]) else None
                sl = backward(b, a, du, at=(cx, "term"), through_calls="none") if a else None
                if sl is None or sl.params != {i + 1} or sl.ops:
                    why.append("argument %d of the core call is not parameter %d unchanged" % (i + 1, i + 1))
            rx, rt = raw[0]
            for i in range(n):
                a = rt["args"][i] if i < len(rt["args"]) else None
                sl = backward(b, a, du, at=(rx, "term"), through_calls="none") if a else None
                if sl is None or sl.params != {i + 1} or sl.ops:
                    why.append("argument %d of the real call is not parameter %d unchanged" % (i, i + 1))
            # dispatch: core call reachable when hook() is true and when current().is_some() is true
            if not hk or not cu:
                why.append("dispatch does not consult both hook() and SchedulableCoroutine::current()")
            else:
                # path-sensitive: on every path to the real symbol both tests were evaluated and false; on every path to
                # the core syscall one of them was true (or the compile-time `ci` switch routes everything there)
                from analysis.table import PathWalker, outcome_on_path
                isn = [(x, t) for (x, t) in b.calls() if norm(t.get("callee") or "") in ("std::option::Option::is_some", "std::option::Option::is_none")]
                if not isn:
                    why.append("the current-coroutine test is not evaluated")
                else:
                    w = PathWalker(b)
                    for (pth, _c, sv) in w.walk(0, lambda bid, t: ("core",) if bid == cx else (("raw",) if bid == rx else None)):
                        if sv[0] not in ("core", "raw"):
                            continue
                        hv = outcome_on_path(b, du, pth, hk[0][0])
                        cv = outcome_on_path(b, du, pth, isn[0][0])
                        if cv is not None and norm(isn[0][1]["callee"]).endswith("is_none"):
                            cv = not cv
                        if sv[0] == "raw" and hv is not False:
                            why.append("with hooking enabled the call is not (always) routed to the core syscall")
                        if sv[0] == "raw" and cv is not False:
                            why.append("inside a coroutine the call is not (always) routed to the core syscall")
                        if sv[0] == "core" and hv is not True and cv is not True:
                            why.append("a plain thread with hooking off is routed to the core syscall")
        if why:
            run.fail(rid, "hook::" + nm, b.loc(), "%s: %s" % (nm, "; ".join(sorted(set(why))[:4])))
        else:
            run.ok(rid, "hook::" + nm, "hook() || current().is_some() -> core::%s(Some(real), args..) else real(args..)" % nm)
