"""Rule instances on the two work-steal queues (shared by C01, C03, C04, C05, C06)."""
from analysis.facts import norm
from analysis.cfg import Cfg
from analysis.flow import DefUse, ReachingDefs, backward, find_calls, callee_is, callee_ends, op_local, op_const, switch_info, value_root, field_chain
from analysis.linear import Linear
from analysis.atomics import AtomicModel, is_atomic_method, receiver_key, role_field
from analysis.table import describe_val, PathWalker
from rules.common import need, unit, inl, uncovered_roots

OWS = "common::ordered_work_steal::OrderedWorkStealQueue"
OLQ = "common::ordered_work_steal::OrderedLocalQueue"
WS = "common::work_steal::WorkStealQueue"
LQ = "common::work_steal::LocalQueue"

PUSH_FNS = {  # fn -> name of the by-value item parameter
    OWS + "::push_with_priority": "item", OLQ + "::push_with_priority": "item", OLQ + "::push_to_global": "item",
    WS + "::push": "item", LQ + "::push": "item", OWS + "::push": "item", OLQ + "::push": "item",
}
POP_FNS = [OWS + "::pop", OLQ + "::pop", OLQ + "::pop_local", WS + "::pop", LQ + "::pop"]

REPO_PUSH = set(PUSH_FNS)
REPO_POP = set(POP_FNS)


def sink(c, t):
    if c == "crossbeam_deque::Injector::push":
        return "consume"
    if c == "st3::fifo::Worker::push":
        return "maybe-return"
    if c in REPO_PUSH:
        return "consume"
    return None


def source(c, t):
    return c in ("st3::fifo::Worker::pop", "crossbeam_deque::Injector::steal") or c in REPO_POP


def linear_rule(run, f, rid):
    run.rule(rid, "by-value item is moved into exactly one sink on every path of each push fn; a popped item is returned or re-pushed, never dropped", floor=10, template="T1/T5 (P3 linear walker)")
    for fn, pname in sorted(PUSH_FNS.items()):
        b = unit(run, rid, f, fn)       # closures handed to combinators (`filter_map(|_| pop()).for_each(|i| push(i))`) are part of it
        if b is None:
            continue
        item = [l for l in range(1, b.argc + 1) if b.name_of(l) == pname]
        if not item:
            run.fail(rid, fn + "/item-param", b.loc(), "push function has no by-value parameter named `%s`" % pname)
            continue
        lw = Linear(b, item, source, sink, ret_is_sink=False)
        lw.run()
        run.count("paths_or_states", lw.visited)
        bad = list(lw.events)
        for (bid, holders, consumed) in lw.exits:
            if consumed != 1:
                bad.append(("count", bid, "a path reaches return having handed the item to %s sinks" % ("no" if consumed == 0 else "two or more")))
        if bad:
            kinds = sorted({e[0] for e in bad})
            run.fail(rid, fn + "/item", b.loc(), "item is not linear in %s: %s" % (fn.rsplit("::", 1)[1], "; ".join(e[2] for e in bad[:3])), detail={"kinds": kinds})
        else:
            run.ok(rid, fn + "/item", {"exits": len(lw.exits), "states": lw.visited})
    for fn in POP_FNS:
        b = unit(run, rid, f, fn)       # `from_shared.or_else(|| self.queue.pop())` is the same two-step lookup
        if b is None:
            continue
        lw = Linear(b, [], source, sink, ret_is_sink=True, transparent=lambda c, t: False)
        lw.run()
        run.count("paths_or_states", lw.visited)
        if lw.events:
            run.fail(rid, fn + "/popped", b.loc(), "a popped item can be lost in %s: %s" % (fn.rsplit("::", 1)[1], "; ".join(e[2] for e in lw.events[:3])), detail={"kinds": sorted({e[0] for e in lw.events})})
        else:
            run.ok(rid, fn + "/popped", {"exits": len(lw.exits), "states": lw.visited})


def pair_rule(run, f, rid):
    """Every Injector::push is followed by exactly one +1 on that queue's len, every Steal::Success by exactly one -1;
    no other site changes the shared len."""
    run.rule(rid, "shared len bookkeeping: +1 after every Injector::push, -1 on every Steal::Success, no other writer", floor=5, template="T1/T9")
    am = AtomicModel(f)
    for adt, pushfn, popfn in ((OWS, OWS + "::push_with_priority", OWS + "::pop"), (WS, WS + "::push", WS + "::pop")):
        key = (adt, role_field(f, adt, adt + "::len", "len"))       # the counter `len()` reports, whatever the field is called
        # writers of the shared len
        writers = {}
        for body in f.bodies:
            du = None
            for bid, t in body.calls():
                c = norm(t.get("callee") or "")
                if c.startswith("std::sync::atomic::Atomic::") and c.rsplit("::", 1)[1] not in ("load", "new"):
                    du = du or DefUse(body)
                    if receiver_key(body, du, t["args"][0]) == key:
                        writers.setdefault(body.npath, []).append((bid, t, c.rsplit("::", 1)[1]))
        # a writer outside push/pop is fine when it can only be entered from them (a helper cut out of them)
        extra = {w for w in set(writers) - {pushfn, popfn} if uncovered_roots(f, w.split("::{closure#", 1)[0], {pushfn, popfn})}
        def unit_writers(ub):
            udu, out = DefUse(ub), []
            for bid, t in ub.calls():
                c = norm(t.get("callee") or "")
                if c.startswith("std::sync::atomic::Atomic::") and c.rsplit("::", 1)[1] not in ("load", "new") and receiver_key(ub, udu, t["args"][0]) == key:
                    out.append((bid, t, c.rsplit("::", 1)[1]))
            return out
        if extra:
            run.fail(rid, adt + "/len-writers", "core/src/common", "shared len of %s is written outside push/pop: %s" % (adt, sorted(extra)))
        else:
            run.ok(rid, adt + "/len-writers", sorted(writers))
        # push: Injector::push then fetch_add(1) on all paths, once
        b = unit(run, rid, f, pushfn)
        if b is not None:
            cfg = Cfg(b)
            du = DefUse(b)
            pushes = find_calls(b, callee_is("crossbeam_deque::Injector::push"))
            pw = unit_writers(b)
            incs = [(bid, t) for (bid, t, m) in pw if m == "fetch_add" and op_const(t["args"][1]) == 1]
            okc = len(pushes) == 1 and len(incs) == 1 and len(pw) == 1
            if okc:
                okp, _ = cfg.must_pass(cfg.after(pushes[0][0]), [incs[0][0]])
                okc = okp and not cfg.in_cycle(incs[0][0]) and cfg.dominates(pushes[0][0], incs[0][0])
            if okc:
                run.ok(rid, pushfn + "/inc", "Injector::push -> len.fetch_add(1) on every path, once")
            else:
                run.fail(rid, pushfn + "/inc", b.loc(), "after Injector::push the shared len must be incremented by exactly 1 on every path (pushes=%d, +1 sites=%d, writers=%d)" % (len(pushes), len(incs), len(pw)))
        # pop: Success arm -> exactly one decrement; no decrement elsewhere
        b = unit(run, rid, f, popfn)
        if b is not None:
            cfg = Cfg(b)
            du = DefUse(b)
            steals = find_calls(b, callee_is("crossbeam_deque::Injector::steal"))
            decs = unit_writers(b)
            ok = len(steals) >= 1 and len(decs) == 1 and decs[0][2] in ("fetch_sub", "fetch_update")
            why = "steal sites=%d, len writers=%d" % (len(steals), len(decs))
            if ok:
                # every switch on a Steal value: its Success arm(s) and the others
                succ, other = set(), set()
                for blk in b.blocks:
                    if blk["term"]["k"] == "switch" and not blk["cleanup"]:
                        si = switch_info(b, du, blk["id"])
                        if si["kind"] == "discr" and norm(si["adt"] or "").endswith("Steal"):
                            if si["arms"].get("Success") is not None:
                                succ.add(si["arms"]["Success"])
                            other |= {bb for n, bb in si["arms"].items() if n != "Success"}
                            t_ = blk["term"]
                            if t_["otherwise"] not in si["arms"].values() and b.blocks[t_["otherwise"]]["term"]["k"] != "unreachable":
                                other.add(t_["otherwise"])
                other -= succ
                if not succ:
                    ok, why = False, "no match on the Steal result"
                else:
                    # path by path: a path decrements exactly as often as it passes a Success arm (the item may travel
                    # through a helper's `Option`, `find_map` and `?` before the counter is touched)
                    from analysis.table import result_outcomes
                    w_ = PathWalker(b, max_paths=60000)
                    bad_ = None
                    n_ex = n_inf = 0
                    for (pth, _c, sv) in w_.walk(0, lambda bid, t: ("return",) if t["k"] == "return" else None):
                        if sv[0] != "return":
                            continue
                        _oc, feas = result_outcomes(b, du, pth)
                        if not feas:
                            n_inf += 1
                            continue
                        n_ex += 1
                        ns = len([x for x in pth if x in succ])
                        nd = len([x for x in pth if x == decs[0][0]])
                        if ns != nd:
                            bad_ = "a path passes %d Steal::Success arm(s) and decrements %d time(s)" % (ns, nd)
                    if not run.paths(rid, popfn + "/dec", b.loc(), n_ex, n_inf):
                        bad_ = bad_ or "no feasible path examined"
                    ok = bad_ is None
                    why = bad_ or ""
                    if ok and decs[0][2] == "fetch_update":
                        # the update closure: the one handed to this fetch_update (wherever it is defined)
                        cl = []
                        for a_ in decs[0][1]["args"]:
                            dv = describe_val(b, du, a_)
                            if isinstance(dv, tuple) and dv and dv[0] == "closure":
                                cl += f.by_npath.get(dv[1], [])
                        cl = cl or [c for c in f.closures_of(getattr(b, "origin", b))]
                        amt = None
                        for c in cl:
                            for (_x, tt) in c.calls():
                                if norm(tt.get("callee") or "").endswith("saturating_sub") or norm(tt.get("callee") or "").endswith("checked_sub"):
                                    amt = op_const(tt["args"][1])
                        if amt != 1:
                            ok, why = False, "fetch_update closure does not subtract the constant 1"
                    elif ok and decs[0][2] == "fetch_sub" and op_const(decs[0][1]["args"][1]) != 1:
                        ok, why = False, "fetch_sub amount is not 1"
            if ok:
                run.ok(rid, popfn + "/dec", "Steal::Success -> len -= 1 on every path, once; not on Empty/Retry")
            else:
                run.fail(rid, popfn + "/dec", b.loc(), "Steal::Success must decrement the shared len by exactly 1 (%s)" % why)


def retry_rule(run, f, rid):
    """A shared pop reports empty only on Steal::Empty: Steal::Retry (a concurrent operation got in the way, the injector may
    still hold items) must go back to stealing from the same injector, never on to the next bucket / to `None`."""
    from analysis.flow import variant_arms, bool_branch
    run.rule(rid, "the shared pop retries on Steal::Retry (same injector) and reports empty only on Steal::Empty", floor=2, template="T6/T7")
    for popfn in (OWS + "::pop", WS + "::pop"):
        b = unit(run, rid, f, popfn)
        if b is None:
            continue
        cfg = Cfg(b)
        du = DefUse(b)
        steals = find_calls(b, callee_is("crossbeam_deque::Injector::steal"))
        if not steals:
            run.fail(rid, popfn + "/retry", b.loc(), "no Injector::steal call found in the shared pop")
            continue
        advance = {x for (x, t) in b.calls() if norm(t.get("callee") or "").endswith("Iterator>::next") or norm(t.get("orig") or "").endswith("Iterator::next")}
        rets = {blk["id"] for blk in b.blocks if blk["term"]["k"] == "return"}
        why = None
        for (sb, st) in steals:
            retry_bb = None
            # the bool form first: `if stolen.is_retry() { continue }` (a later `if let Success(..)` then never sees a Retry)
            if True:
                for (x, t) in b.calls():
                    if norm(t.get("callee") or "") == "crossbeam_deque::Steal::is_retry" and st["dest"]["l"] in backward(b, t["args"][0], du, at=(x, "term")).locals:
                        bb = bool_branch(b, cfg, du, t["dest"]["l"], cfg.after(x))
                        if bb:
                            retry_bb = bb[0]
            if retry_bb is None:
                va = variant_arms(b, cfg, du, value_root(du, st["dest"]["l"]), cfg.after(sb)) or variant_arms(b, cfg, du, st["dest"]["l"], cfg.after(sb))
                if va and "Retry" in va[0]:
                    retry_bb = va[0]["Retry"]
            if retry_bb is None:
                why = "the result of Injector::steal is not matched on Steal::Retry (a Retry is treated like Empty: the pop reports empty although the injector may hold items)"
                break
            S = {x for (x, _t) in steals}       # `let mut a = q.steal(); while a.is_retry() { a = q.steal() }` has two sites
            back = bool(S & cfg.reachable({retry_bb}, avoid=advance | rets))
            leak = bool((rets | advance) & cfg.reachable({retry_bb}, avoid=S))
            if not back or leak:
                why = "the Steal::Retry arm does not go back to stealing from the same injector (it reaches %s)" % ("the next bucket / a return" if leak else "no further steal")
                break
        if why:
            run.fail(rid, popfn + "/retry", b.loc(steals[0][1]["line"]), why)
        else:
            run.ok(rid, popfn + "/retry", {"steal_sites": len(steals)})


def self_steal_rule(run, f, rid):
    pass


# ---------------- C05 ----------------

def _iter_facts(b):
    calls = [norm(t.get("callee") or "") for (_x, t) in b.calls()]
    return {
        "skip_iter": any(c in ("crossbeam_skiplist::SkipMap::iter", "<&'a crossbeam_skiplist::SkipMap as std::iter::IntoIterator>::into_iter") for c in calls),
        "rev": any(c in ("std::iter::Iterator::rev", "<std::iter::Rev as std::iter::Iterator>::next", "std::iter::DoubleEndedIterator::next_back", "<crossbeam_skiplist::map::Iter as std::iter::DoubleEndedIterator>::next_back") or c.endswith("::next_back") or c.endswith("::pop_back") or c.endswith("::back") for c in calls),
        "next": [x for (x, t) in b.calls() if norm(t.get("callee") or "") in ("<crossbeam_skiplist::map::Iter as std::iter::Iterator>::next", "<std::iter::Rev as std::iter::Iterator>::next")],
    }


def ascending_rule(run, f, rid):
    run.rule(rid, "pops scan the priority map in ascending key order and return at the first bucket that yields an item", floor=2, template="T5/T1")
    for fn, inner in ((OLQ + "::pop_local", "st3::fifo::Worker::pop"), (OWS + "::pop", "crossbeam_deque::Injector::steal")):
        b = unit(run, rid, f, fn)     # a scan written as iter().find_map(..) is the same loop
        if b is None:
            continue
        cfg = Cfg(b)
        du = DefUse(b)
        it = _iter_facts(b)
        inner_calls = find_calls(b, callee_is(inner))
        why = []
        if not it["skip_iter"] or len(it["next"]) != 1:
            why.append("does not iterate the SkipMap with a single forward iterator")
        if it["rev"]:
            why.append("iterates in reverse (rev/next_back): lowest priority would be served first")
        if not inner_calls:
            why.append("no bucket pop site found")
        if not why:
            nb = it["next"][0]
            # every bucket pop (a retry loop may have two sites) operates on the entry yielded by this iteration
            for (ib, itc) in inner_calls:
                sl = backward(b, itc["args"][0], du, at=(ib, "term"))
                if not any(x == nb for (x, _t) in sl.calls):
                    why.append("the bucket popped is not the entry yielded by the iterator")
            # every success arm of a match on a bucket pop result returns without going back to next()
            inner_blocks = {x for (x, _t) in inner_calls}
            arms = []
            for blk in b.blocks:
                if blk["cleanup"] or blk["term"]["k"] != "switch":
                    continue
                si = switch_info(b, du, blk["id"])
                if si["kind"] == "discr" and not si["place"]["proj"] and (si["arms"].get("Some") is not None or si["arms"].get("Success") is not None):
                    vs = backward(b, {"k": "copy", "p": {"l": si["place"]["l"], "proj": []}}, du, at=(blk["id"], "term"), through_calls="none")
                    if inner_blocks & {x for (x, _t) in vs.calls}:
                        arms.append(si["arms"].get("Some") or si["arms"].get("Success"))
            arm = arms[0] if arms else None
            if arm is None:
                why.append("no match on the bucket pop result")
            else:
                # "a hit ends the scan" is judged by C05-FIRST-HIT (rules/wave2.py), from the success arm onwards: a path from
                # the function entry is acyclic and cannot show the iterator being stepped again after the hit
                # and the value returned on that arm is the popped one
                lw = Linear(b, [], lambda c, t: c == inner, lambda c, t: None)
                lw.run()
                if lw.events:
                    why.append("popped value is not the one returned: " + lw.events[0][2])
        if why:
            run.fail(rid, fn + "/scan", b.loc(), "; ".join(why))
        else:
            run.ok(rid, fn + "/scan", "forward SkipMap iterator, return at first hit")


def _root_entry(b, du, op, callee):
    """The `entry` local on which Entry::key / Entry::value was called to obtain op (None if not found)."""
    sl = backward(b, op, du, through_calls="all")
    roots = set()
    for (bid, t) in sl.calls:
        if norm(t.get("callee") or "") == callee:
            s2 = backward(b, t["args"][0], du, through_calls="none")
            roots |= {x for (x, tt) in s2.calls if norm(tt.get("callee") or "").endswith("Iterator>::next")}
    return roots


def key_rule(run, f, rid):
    run.rule(rid, "every inter-queue move keeps the item's priority key", floor=4, template="T5")
    # push_to_global: shared.push_with_priority(*entry.key(), entry.value().pop())
    b = need(run, rid, f, OLQ + "::push_to_global")
    if b is not None:
        du = DefUse(b)
        moved = []
        for (bid, t) in find_calls(b, callee_is(OWS + "::push_with_priority")):
            ksl = backward(b, t["args"][1], du, at=(bid, "term"), stop_call=lambda c, tt: c == "crossbeam_skiplist::map::Entry::key")
            isl = backward(b, t["args"][2], du, at=(bid, "term"))
            from_pop = any(norm(tt.get("callee") or "") == "st3::fifo::Worker::pop" for (_x, tt) in isl.calls)
            if not from_pop:
                # the caller's own item: key must be the caller's own priority parameter
                if ksl.params and all(b.name_of(p) == "priority" for p in ksl.params) and not ksl.calls:
                    run.ok(rid, "push_to_global/own-item", "own item filed under the priority parameter")
                else:
                    run.fail(rid, "push_to_global/own-item", b.loc(t["line"]), "the caller's item is pushed to the shared queue under a key that is not the `priority` parameter")
                continue
            kroot = _root_entry(b, du, t["args"][1], "crossbeam_skiplist::map::Entry::key")
            iroot = _root_entry(b, du, t["args"][2], "crossbeam_skiplist::map::Entry::value")
            pure = not ksl.binops() and not [c for c in ksl.consts if "v" in c]
            moved.append(t)
            if kroot and kroot == iroot and pure:
                run.ok(rid, "push_to_global/moved-item", "key = *entry.key() of the entry whose worker yielded the item")
            else:
                run.fail(rid, "push_to_global/moved-item", b.loc(t["line"]), "an item moved to the shared queue is filed under a key that is not the key of the bucket it came from (key entry %s, item entry %s, arithmetic on key: %s)" % (sorted(kroot), sorted(iroot), not pure))
        if not moved:
            run.fail(rid, "push_to_global/moved-item", b.loc(), "no shared.push_with_priority of a locally popped item found")
    # steal branch of pop: get_or_insert_with(*entry.key()) where entry is the victim entry being stolen from
    b = need(run, rid, f, OLQ + "::pop")
    if b is not None:
        du = DefUse(b)
        st = find_calls(b, callee_is("st3::fifo::Stealer::steal"))
        gi = find_calls(b, callee_is("crossbeam_skiplist::SkipMap::get_or_insert_with"))
        ok, why = False, "steal site or destination bucket lookup missing"
        if len(st) == 1 and len(gi) == 1:
            (sb, stt), (gb, gt) = st[0], gi[0]
            kroot = _root_entry(b, du, gt["args"][1], "crossbeam_skiplist::map::Entry::key")
            vroot = _root_entry(b, du, stt["args"][0], "crossbeam_skiplist::map::Entry::value")
            ksl = backward(b, gt["args"][1], du, at=(gb, "term"), stop_call=lambda c, tt: c == "crossbeam_skiplist::map::Entry::key")
            pure = not ksl.binops() and not [c for c in ksl.consts if "v" in c]
            # destination worker is the value of the entry returned by that lookup
            dsl = backward(b, stt["args"][1], du, at=(sb, "term"))
            dest_ok = any(x == gb for (x, _t) in dsl.calls)
            ok = bool(kroot) and kroot == vroot and pure and dest_ok
            why = "key entry %s, victim entry %s, arithmetic on key %s, destination from that lookup %s" % (sorted(kroot), sorted(vroot), not pure, dest_ok)
        if ok:
            run.ok(rid, "pop/steal-key", "stolen items are filed under *entry.key() of the victim bucket")
        else:
            run.fail(rid, "pop/steal-key", b.loc(), "stolen items must be filed under the victim bucket's key (%s)" % why)
    # push_with_priority files under `priority`
    for fn, sinkc in ((OLQ + "::push_with_priority", "st3::fifo::Worker::push"), (OWS + "::push_with_priority", "crossbeam_deque::Injector::push")):
        b = need(run, rid, f, fn)
        if b is None:
            continue
        du = DefUse(b)
        gi = find_calls(b, callee_is("crossbeam_skiplist::SkipMap::get_or_insert_with"))
        pu = find_calls(b, callee_is(sinkc))
        ok = False
        if len(gi) == 1 and len(pu) == 1:
            ksl = backward(b, gi[0][1]["args"][1], du, at=(gi[0][0], "term"), through_calls="pass")
            bsl = backward(b, pu[0][1]["args"][0], du, at=(pu[0][0], "term"))
            ok = {b.name_of(p) for p in ksl.params} == {"priority"} and not ksl.binops() and not ksl.calls and any(x == gi[0][0] for (x, _t) in bsl.calls)
        if ok:
            run.ok(rid, fn + "/key", "bucket = get_or_insert_with(priority)")
        else:
            run.fail(rid, fn + "/key", b.loc(), "the item must be pushed into the bucket looked up with the unmodified `priority` parameter")
    # push(item) uses item.priority().unwrap_or(DEFAULT_PRECEDENCE)
    for fn in (OLQ + "::push", OWS + "::push"):
        b = need(run, rid, f, fn)
        if b is None:
            continue
        du = DefUse(b)
        pw = find_calls(b, callee_ends("::push_with_priority"))
        ok = False
        if len(pw) == 1:
            ksl = backward(b, pw[0][1]["args"][1], du, at=(pw[0][0], "term"))
            cs = {norm(t.get("orig") or "") for (_x, t) in ksl.calls}
            ok = "common::ordered_work_steal::Ordered::priority" in cs and not ksl.binops()
            dflt = [c for c in ksl.consts if c.get("v") is not None]
            ok = ok and all(c["v"] == "0" for c in dflt)
        if ok:
            run.ok(rid, fn + "/own-priority", "item.priority().unwrap_or(0)")
        else:
            run.fail(rid, fn + "/own-priority", b.loc(), "push(item) must file the item under item.priority() (default 0) without arithmetic")
    # clients of the ordered queues (scheduler, pool, event loop): an item is filed under its own priority -- either through
    # push(item), or through push_with_priority(k, item) with k read from that item's priority without arithmetic
    sites, bad = 0, []
    for cb in f.bodies:
        if cb.kind == "Promoted" or cb.npath.startswith(("common::ordered_work_steal::", "common::work_steal::")) or cb.npath.startswith("<common::"):
            continue
        cdu = None
        for (x, t) in cb.calls():
            c = norm(t.get("callee") or "")
            if c in (OLQ + "::push", OWS + "::push"):
                sites += 1
            elif c in (OLQ + "::push_with_priority", OWS + "::push_with_priority"):
                sites += 1
                cdu = cdu or DefUse(cb)
                ksl = backward(cb, t["args"][1], cdu, at=(x, "term"))
                own = any(norm(tt.get("orig") or tt.get("callee") or "").endswith("Ordered::priority") for (_x, tt) in ksl.calls) or any(fl == "priority" for fl in getattr(ksl, "fields", []))
                consts = [k for k in ksl.consts if k.get("v") is not None]
                if not own or ksl.binops() or consts:
                    bad.append((cb, t))
    if bad:
        cb, t = bad[0]
        run.fail(rid, "clients/own-priority", cb.loc(t["line"]), "%s files an item in a priority queue under a key that is not that item's own priority (constant / computed key): it is then served out of priority order" % cb.npath)
    else:
        run.ok(rid, "clients/own-priority", {"push_sites_outside_the_queue_modules": sites})


def evict_rule(run, f, rid):
    run.rule(rid, "overflow evicts the lowest-priority buckets first (reverse iteration in push_to_global)", floor=1, template="T5")
    b = need(run, rid, f, OLQ + "::push_to_global")
    if b is None:
        return
    du = DefUse(b)
    pops = find_calls(b, callee_is("st3::fifo::Worker::pop"))
    ok = False
    for (pb, pt) in pops:
        sl = backward(b, pt["args"][0], du, at=(pb, "term"))
        nx = [norm(t.get("callee") or "") for (_x, t) in sl.calls]
        if "<std::iter::Rev as std::iter::Iterator>::next" in nx or any(c.endswith("::next_back") for c in nx):
            ok = True
    if ok and pops:
        run.ok(rid, "push_to_global/reverse", "evicted items come from a reversed SkipMap iterator")
    else:
        run.fail(rid, "push_to_global/reverse", b.loc(), "items moved to the shared queue on overflow are not taken from the lowest-priority end (no reversed iteration feeds Worker::pop)")


def bucket_type_rule(run, f, rid):
    run.rule(rid, "buckets are FIFO containers (st3::fifo::Worker, crossbeam Injector)", floor=2, template="type fact")
    for adt, fld, want in ((OWS, "shared_queue", "crossbeam_deque::Injector<"), (OWS, "local_queues", "st3::fifo::Worker<"), (WS, "shared_queue", "crossbeam_deque::Injector<"), (WS, "local_queues", "st3::fifo::Worker<")):
        a = f.nadts.get(adt)
        ty = None
        if a:
            for v in a["variants"]:
                for fd in v["fields"]:
                    if fd["name"] == fld:
                        ty = fd["ty"]
        if ty and want in ty and "lifo" not in ty:
            run.ok(rid, "%s.%s" % (adt, fld), ty)
        else:
            run.fail(rid, "%s.%s" % (adt, fld), adt, "bucket type of %s.%s is %s, expected a FIFO %s" % (adt, fld, ty, want))


def source_rule(run, f, rid):
    run.rule(rid, "Ordered::priority of tasks and coroutines returns the priority they were created with", floor=2, template="T5")
    for fn in ("<co_pool::task::Task as common::ordered_work_steal::Ordered>::priority", "<coroutine::korosensei::Coroutine as common::ordered_work_steal::Ordered>::priority"):
        b = need(run, rid, f, fn)
        if b is None:
            continue
        du = DefUse(b)
        sl = backward(b, 0, du)
        if sl.fields == {"priority"} and not sl.binops() and not sl.calls and not [c for c in sl.consts if "v" in c]:
            run.ok(rid, fn, "returns self.priority")
        else:
            run.fail(rid, fn, b.loc(), "Ordered::priority must return the stored priority field unchanged (fields read: %s, arithmetic: %s)" % (sorted(sl.fields), bool(sl.binops())))


# ---------------- C06 ----------------

def tick_rule(run, f, rid):
    run.rule(rid, "every k-th pop (k<=61) consults the shared queue before the local one and returns its item", floor=4, template="T2/T3")
    for fn, shared_pop, local_pops in ((LQ + "::pop", WS + "::pop", ("st3::fifo::Worker::pop",)), (OLQ + "::pop", OWS + "::pop", (OLQ + "::pop_local",))):
        b = unit(run, rid, f, fn)      # a `pop_shared_on_tick` helper is part of pop
        if b is None:
            continue
        from analysis.table import outcome_on_path, result_outcomes
        cfg = Cfg(b)
        du = DefUse(b)
        ticks = find_calls(b, callee_ends("::tick"))
        mult = find_calls(b, callee_is("u32::is_multiple_of"))
        why = []
        if len(ticks) != 1 or not all(cfg.dominates(ticks[0][0], r) for r in cfg.returns):
            why.append("tick() is not called exactly once before every return")
        k = None
        if len(mult) != 1:
            why.append("no single is_multiple_of test on the tick")
        else:
            mb, mt = mult[0]
            k = op_const(mt["args"][1])
            sl = backward(b, mt["args"][0], du, at=(mb, "term"))
            if not any(x == ticks[0][0] for (x, _t) in sl.calls) if ticks else True:
                why.append("the periodic test is not on the value returned by tick()")
            if k is None or not (1 <= k <= 61):
                why.append("the period %r is not a constant in 1..=61" % (k,))
        if not why:
            # path by path: when the periodic test holds, the first queue consulted is the shared one, and an item it
            # yields is returned without touching another queue
            mb = mult[0][0]
            sp = {x for (x, t) in find_calls(b, callee_is(shared_pop))}
            lp = {x for (x, t) in find_calls(b, callee_is(*local_pops))} | {x for (x, t) in find_calls(b, callee_is("st3::fifo::Stealer::steal"))}
            w = PathWalker(b, max_paths=60000)
            seen_true = n_inf = n_und = 0
            for (pth, _c, sv) in w.walk(0, lambda bid, t: ("return",) if t["k"] == "return" else None):
                if sv[0] != "return":
                    continue
                mv = outcome_on_path(b, du, pth, mb)
                if mv is None and mb in pth:
                    n_und += 1          # the periodic test lies on the path but the helper cannot tell how it went
                if mv is not True:
                    continue
                oc, feasible = result_outcomes(b, du, pth)
                if not feasible:
                    n_inf += 1
                    continue
                seen_true += 1
                pops = [x for x in pth if x in sp or x in lp]
                if not pops or pops[0] not in sp:
                    why.append("on the periodic branch the local queue can be popped (or the function can return) before the shared queue is consulted")
                elif oc.get(pops[0]) == "ok" and len(pops) > 1:
                    why.append("an item obtained from the shared queue on the periodic branch is not returned at once")
            run.paths(rid, fn + "/tick", b.loc(), seen_true, n_inf, n_und)
            if n_und:
                why.append("on %d path(s) through the periodic test its outcome could not be read off the path: those paths were not judged" % n_und)
            if not seen_true:
                why.append("result of is_multiple_of is not branched on")
            why = sorted(set(why))
        if why:
            run.fail(rid, fn + "/tick", b.loc(), "; ".join(why))
        else:
            run.ok(rid, fn + "/tick", {"period": k})
    # tick(): +1 per call, wrap returns 0
    for fn, adt in ((LQ + "::tick", LQ), (OLQ + "::tick", OLQ)):
        b = need(run, rid, f, fn)
        if b is None:
            continue
        du = DefUse(b)
        fa = [(x, t) for (x, t) in b.calls() if is_atomic_method(t, "fetch_add")]
        tk = receiver_key(b, du, fa[0][1]["args"][0]) if len(fa) == 1 else None
        # which private field holds the count is the author's business, provided it is a field of this queue that only
        # tick() itself writes (on a counter shared with push/pop "one more per call" would not hold)
        foreign = []
        if tk and tk[0] == adt:
            for ob in f.bodies:
                if ob.kind == "Promoted" or ob.npath == fn or ob.npath.startswith(fn + "::{closure#"):
                    continue
                odu = None
                for (_x, t_) in ob.calls():
                    c_ = norm(t_.get("callee") or "")
                    if c_.startswith("std::sync::atomic::Atomic::") and c_.rsplit("::", 1)[1] not in ("load", "new") and t_["args"]:
                        odu = odu or DefUse(ob)
                        if receiver_key(ob, odu, t_["args"][0]) == tk:
                            foreign.append(ob.npath)
        ok = len(fa) == 1 and op_const(fa[0][1]["args"][1]) == 1 and tk is not None and tk[0] == adt and not foreign and not Cfg(b).in_cycle(fa[0][0])
        sl = backward(b, 0, du)
        consts = sorted({c["v"] for c in sl.consts if "v" in c and c.get("ty") == "u32"})
        ok = ok and any(x == fa[0][0] for (x, _t) in sl.calls) and set(consts) <= {"0", "1", "4294967295"}
        if ok:
            run.ok(rid, fn, "tick = fetch_add(1)+1, wraps to 0")
        else:
            run.fail(rid, fn, b.loc(), "tick() must advance the counter by exactly 1 per call and return the new count (0 on wrap); constants seen %s" % consts)


def fallback_rule(run, f, rid):
    """Path by path over pop as one unit (its lock helpers spliced in, whatever they are called): a path on which no
    queue yielded an item ends with the shared pop whose answer is returned; a successful steal is followed by a local
    pop; the steal lock taken on a path is released on it."""
    from analysis.table import result_outcomes
    run.rule(rid, "a local miss never reports empty without consulting siblings' result or the shared queue", floor=2, template="T1")
    for fn, shared_pop, local_pops, adt in ((LQ + "::pop", WS + "::pop", ("st3::fifo::Worker::pop",), LQ), (OLQ + "::pop", OWS + "::pop", (OLQ + "::pop_local",), OLQ)):
        b = unit(run, rid, f, fn, force=("try_lock", "release_lock", "can_steal"))
        if b is None:
            continue
        cfg = Cfg(b)
        du = DefUse(b)
        lp = {x for (x, t) in find_calls(b, callee_is(*local_pops))}
        sp = {x for (x, t) in find_calls(b, callee_is(shared_pop))}
        st = {x for (x, t) in find_calls(b, callee_is("st3::fifo::Stealer::steal"))}
        if not lp or not sp:
            run.fail(rid, fn + "/fallback", b.loc(), "local pop or shared pop call missing")
            continue
        lock_take, lock_rel = set(), set()
        for (x, t) in b.calls():
            c = norm(t.get("callee") or "")
            if c.startswith("std::sync::atomic::Atomic::") and t["args"] and receiver_key(b, du, t["args"][0]) == (adt, role_field(f, adt, adt + "::try_lock", "stealing")):
                m = c.rsplit("::", 1)[1]
                if m in ("compare_exchange", "compare_exchange_weak", "swap", "fetch_or"):
                    lock_take.add(x)
                elif m in ("store", "fetch_and"):
                    lock_rel.add(x)
        why = []
        if not st:
            why.append("expected a steal site")
        if not lock_take or not lock_rel:
            why.append("the steal lock (stealing flag) is not taken and released with atomic operations")
        w = PathWalker(b, max_paths=80000)
        npaths = n_inf = 0
        for (pth, _c, sv) in w.walk(0, lambda bid, t: ("return",) if t["k"] == "return" else None):
            if sv[0] != "return" or why:
                continue
            oc, feasible = result_outcomes(b, du, pth)
            if not feasible:
                n_inf += 1
                continue
            npaths += 1
            pops = [x for x in pth if x in lp or x in sp]
            steals_ok = [i for i, x in enumerate(pth) if x in st and oc.get(x) == "ok"]
            if not pops:
                why.append("the function can return without popping any queue")
                continue
            last = pops[-1]
            found = oc.get(last) == "ok"
            if not found and last not in sp:
                # the last queue asked was the local one: fine only right after a successful steal
                if not (steals_ok and pth.index(last) > steals_ok[-1]):
                    why.append("after a local miss the function can return without popping the shared queue (and without a successful steal)")
            if steals_ok and not any(x in lp and pth.index(x) > steals_ok[-1] for x in pops):
                why.append("a successful steal is not followed by a local pop")
            # the lock is held unless the path shows the attempt FAILED (a result nobody inspects may have been a success)
            took = [i for i, x in enumerate(pth) if x in lock_take and oc.get(x) != "err"]
            if took and not any(i > took[-1] for i, x in enumerate(pth) if x in lock_rel):
                why.append("the steal lock is not released on every path (later pops would never steal again)")
        if not why:
            run.paths(rid, fn + "/fallback", b.loc(), npaths, n_inf)
        why = sorted(set(why))
        if why:
            run.fail(rid, fn + "/fallback", b.loc(), "; ".join(why))
        else:
            run.ok(rid, fn + "/fallback", "miss -> steal (then local pop) or shared.pop(); lock released on all paths")


def sweep_rule(run, f, rid):
    run.rule(rid, "the steal sweep visits every sibling: index = (start + i) % num for i in 0..num", floor=2, template="T5")
    for fn in (LQ + "::pop", OLQ + "::pop"):
        b = need(run, rid, f, fn)
        if b is None:
            continue
        du = DefUse(b)
        # the sibling list is a sequence indexed with get(): VecDeque, Vec or a slice -- told by the field it is read from
        SEQ = ("std::collections::VecDeque", "std::vec::Vec", "[T]", "core::slice")
        g = [(x, t) for (x, t) in b.calls() if norm(t.get("callee") or "").rsplit("::", 1)[-1] == "get" and norm(t.get("callee") or "").startswith(SEQ)]
        g = [(x, t) for (x, t) in g if "local_queues" in repr(describe_val(b, du, t["args"][0])) or "local_queues" in (field_chain(b, du, t["args"][0]) or [])]
        ok, why = False, "no get(index) on the sibling list"
        if len(g) == 1:
            gb, gt = g[0]
            sl = backward(b, gt["args"][1], du, at=(gb, "term"))
            cs = {norm(t.get("callee") or "") for (_x, t) in sl.calls}
            ops = set(sl.binops())
            ok = ("Rem" in ops) and (("Add" in ops) or ("AddWithOverflow" in ops)) and any(c.rsplit("::", 1)[-1] == "len" and c.startswith(SEQ) for c in cs) and "<std::ops::Range as std::iter::Iterator>::next" in cs and "rand::RngExt::random_range" in cs and not ({"Sub", "SubWithOverflow", "Mul", "MulWithOverflow", "Div", "Shr", "Shl", "BitAnd"} & ops)
            why = "ops %s, calls %s" % (sorted(ops), sorted(c.rsplit('::', 1)[1] for c in cs))
            # the range is 0..num with num = len()
            rng = [t for (_x, t) in sl.calls if norm(t.get("callee") or "") == "<std::ops::Range as std::iter::Iterator>::next"]
        if ok:
            run.ok(rid, fn + "/sweep", "(start + i) % len over 0..len")
        else:
            run.fail(rid, fn + "/sweep", b.loc(), "sibling index must be (start + i) %% num over i in 0..num (%s)" % why)


def len_reset_rule(run, f, rid):
    """After my fix for F2: an owner that finds all its workers empty must forget a stale count (siblings steal without updating it)."""
    run.rule(rid, "pop_local resets the local count when every bucket is empty (siblings steal without updating it; can_steal() reads it)", floor=1, template="T1")
    b = unit(run, rid, f, OLQ + "::pop_local")
    if b is None:
        return
    cfg = Cfg(b)
    du = DefUse(b)
    # paths that return None: those not passing the Some arm of Worker::pop
    pops = find_calls(b, callee_is("st3::fifo::Worker::pop"))
    stores = [(x, t) for (x, t) in b.calls() if is_atomic_method(t, "store") and receiver_key(b, du, t["args"][0]) == (OLQ, role_field(f, OLQ, OLQ + "::local_len", "len")) and op_const(t["args"][1]) == 0]
    arms = []
    for (pb, pt) in pops:
        for x in sorted(cfg.reachable(cfg.after(pb))):
            if b.blocks[x]["term"]["k"] == "switch":
                si = switch_info(b, du, x)
                if si["kind"] == "discr" and not si["place"]["proj"] and value_root(du, si["place"]["l"]) == value_root(du, pt["dest"]["l"]):
                    if si["arms"].get("Some") is not None:
                        arms.append(si["arms"]["Some"])
                    break
    # every feasible path entry -> return that avoids all Some arms must pass a store(0)
    esc = PathWalker(b).escapes(0, set(arms) | {x for (x, _t) in stores}) if pops and arms else [None]
    if pops and arms and not esc:
        run.ok(rid, "pop_local/reset", "None path passes len.store(0)")
    else:
        run.fail(rid, "pop_local/reset", b.loc(), "pop_local can report an empty local queue without resetting a stale count: can_steal() then stays false and sibling work is never taken")


def steal_api_rule(run, f, rid):
    """st3 offers steal (moves the oldest items, order kept) and steal_and_pop (hands out the NEWEST of the batch).
    FIFO among equals survives a steal only through the former followed by an ordinary local pop."""
    run.rule(rid, "stealing uses st3 Stealer::steal (order preserving) and the stolen items are popped through the ordinary local pop", floor=2, template="T9 (who-may-call)")
    for fn, lp in ((OLQ + "::pop", OLQ + "::pop_local"), (LQ + "::pop", "st3::fifo::Worker::pop")):
        b = need(run, rid, f, fn)
        if b is None:
            continue
        bad = [norm(t.get("callee") or "") for (_x, t) in b.calls() if norm(t.get("callee") or "").startswith("st3::") and norm(t.get("callee") or "").endswith("steal_and_pop")]
        st = find_calls(b, callee_is("st3::fifo::Stealer::steal"))
        cfg = Cfg(b)
        after = [x for (x, t) in find_calls(b, callee_is(lp)) if st and cfg.dominates(st[0][0], x)]
        if bad or len(st) != 1 or not after:
            run.fail(rid, fn + "/steal", b.loc(), "steal path must be Stealer::steal followed by the ordinary local pop (steal_and_pop hands out the newest stolen item first): %s" % (bad or "steal sites=%d, local pop after steal=%d" % (len(st), len(after))))
        else:
            run.ok(rid, fn + "/steal", "Stealer::steal then local pop")


def bucket_capacity_rule(run, f, rid):
    """Every per-priority bucket of a local queue is created with the queue's full local capacity: the ordering clause
    'no more tasks queued than the local capacity' presumes a bucket never overflows before the queue as a whole is full."""
    run.rule(rid, "every local bucket (st3 Worker) is created with the shared local_capacity, unmodified", floor=3, template="T5")
    n = 0
    for b in f.bodies:
        if b.kind == "Promoted" or not b.npath.startswith(("common::ordered_work_steal::", "common::work_steal::")):
            continue
        du = None
        for (bid, t) in b.calls():
            if norm(t.get("callee") or "") == "st3::fifo::Worker::new":
                du = du or DefUse(b)
                sl = backward(b, t["args"][0], du, at=(bid, "term"))
                n += 1
                srcs = set(sl.fields) | {b.name_of(p) for p in sl.params if b.name_of(p) not in ("self",)}
                if b.kind == "Closure":
                    srcs |= {b.upvars[int(x)] for x in sl.fields if x.isdigit() and int(x) in b.upvars}
                pure = not sl.binops() and not [c for (_x, c) in sl.calls if not norm(c.get("callee") or "").endswith(("::deref", "::clone"))] and not [c for c in sl.consts if "v" in c]
                # closures read the capture `self.shared.local_capacity`
                ok = pure and "local_capacity" in srcs
                key = "%s/Worker::new" % b.npath
                if ok:
                    run.ok(rid, key, "capacity = local_capacity")
                else:
                    run.fail(rid, key, b.loc(t["line"]), "a local bucket is created with a capacity that is not the queue's local_capacity (sources %s, arithmetic/calls on it: %s): a smaller bucket overflows to the shared queue before the local queue is full and reorders priorities" % (sorted(srcs), not pure))
    return n
