def pair_rule(run, f, rid): pass
def linear_rule(run, f, rid): pass
def self_steal_rule(run, f, rid): pass
