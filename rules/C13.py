"""C13 — Cancelling a task affects only that task (structural clauses)."""
from rules.common import start
from rules import wave2
from rules import pool, coro


def run(tier):
    run, fx = start("C13", tier,
        "Run-or-cancelled rule keyed by the popped task's own id, consumption of exactly that request (and nobody else consuming CANCEL_TASKS), "
        "settling of the skipped task's waiter, three-way dispatch table of try_cancel_task with key provenance, identity guard of the SIGVTALRM "
        "handler, and draining of per-yield cancel requests in every state branch of raw_resume.",
        ["core/default"],
        not_decided=["timing of signal delivery"],
        assumptions=["pthread_kill delivers to a thread, not to a coroutine"])
    f = fx["core/default"]
    pool.run_once_rule(run, f, "C13-RUN-OR-CANCELLED", settle_rid="C13-SETTLE", skip_rid="C13-CONSUMER-ONLY")
    pool.cancel_dispatch_rule(run, f, "C13-DISPATCH")
    pool.identity_rule(run, f, "C13-IDENTITY")
    coro.drain_rule(run, f, "C13-DRAIN")
    # clauses added for the wave-2 seeds (rules/wave2.py; DESIGN 12a)
    wave2.running_coroutine_record_rule(run, f, "C13-RUNNING-RECORD")
    wave2.request_pairing_rule(run, f, "C13-REQUEST-PAIRING")
    return run.finish()
