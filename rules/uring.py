"""Rule instances for C27 (io_uring completion routing; config core/io_uring)."""
from analysis.facts import norm
from analysis.cfg import Cfg
from analysis.flow import DefUse, backward, find_calls, callee_is, callee_ends, op_local, op_const, bool_branch, variant_arms, field_chain, static_of
from analysis.table import describe_val
from rules.common import need, inl, unit

LOOP = "net::event_loop::EventLoop"
OP = "net::operator::linux::Operator"


def wrappers(f):
    out = []
    for b in f.bodies:
        if b.kind == "AssocFn" and b.npath.startswith(LOOP + "::") and b.npath.rsplit("::", 1)[1] not in ("new", "adapt_io_uring"):
            if not any(norm(t.get("callee") or "").startswith(OP + "::") for (_x, t) in b.calls()):
                continue
            # the wrapper as one unit: a slot-allocation helper shared by the family is spliced in
            b = inl(f, b, keep={cb.npath for cb in f.bodies if cb.npath.startswith(OP + "::")})
            ops = [(x, t) for (x, t) in b.calls() if norm(t.get("callee") or "").startswith(OP + "::")]
            if ops and any(norm(t.get("callee") or "") == LOOP + "::token" for (_x, t) in b.calls()):
                out.append((b, ops))
    return out


def register_first_rule(run, f, rid):
    run.rule(rid, "the wait-table slot exists before the submission can complete: insert precedes the SQE hand-over, and a failed submit removes it", floor=24, template="T3")
    for b, ops in wrappers(f):
        run.fn(b)
        cfg = Cfg(b)
        du = DefUse(b)
        ins = [(x, t) for (x, t) in find_calls(b, callee_is("dashmap::DashMap::insert")) if (field_chain(b, du, t["args"][0]) or [""])[-1] == "syscall_wait_table"]
        tk = find_calls(b, callee_is(LOOP + "::token"))
        nm = b.npath.rsplit("::", 1)[1]
        why = []
        if len(ins) != 1 or len(ops) != 1 or len(tk) != 1:
            why.append("expected one token(), one operator call and one wait-table insert")
        else:
            # same token for the SQE user_data and the table key
            k1 = backward(b, ops[0][1]["args"][1], du, at=(ops[0][0], "term"), through_calls="none")
            k2 = backward(b, ins[0][1]["args"][1], du, at=(ins[0][0], "term"), through_calls="none")
            if not any(x == tk[0][0] for (x, _t) in k1.calls) or not any(x == tk[0][0] for (x, _t) in k2.calls):
                why.append("the SQE user_data and the wait-table key are not the same token")
            if not norm(ops[0][1]["callee"]).endswith("::" + nm):
                why.append("wrapper %s submits Operator::%s" % (nm, norm(ops[0][1]["callee"]).rsplit("::", 1)[1]))
            if why:
                pass
            elif not cfg.dominates(ins[0][0], ops[0][0]):
                run.fail(rid, "%s/insert-after-submit" % b.npath, b.loc(ins[0][1]["line"]),
                         "EventLoop::%s hands the SQE to the ring before the wait-table slot exists: for a caller on another thread the completion can be processed first, finds no slot, and the caller blocks forever" % nm)
                continue
        if why:
            run.fail(rid, "%s/shape" % b.npath, b.loc(), "; ".join(why))
        else:
            run.ok(rid, b.npath, "insert(token) dominates operator.%s(token, ..)" % nm)


def dispatch_rule(run, f, rid):
    run.rule(rid, "adapt_io_uring stores each completion's own result into the slot keyed by that completion's user_data and resumes that token; only the internal timeout entry is skipped", floor=1, template="T5/T1")
    b = unit(run, rid, f, LOOP + "::adapt_io_uring")
    if b is None:
        return
    cfg = Cfg(b)
    du = DefUse(b)
    nx = [x for (x, t) in b.calls() if norm(t.get("orig") or "").endswith("Iterator::next")]
    ud = find_calls(b, callee_is("io_uring::cqueue::Entry::user_data"))
    rs = find_calls(b, callee_is("io_uring::cqueue::Entry::result"))
    rm = [(x, t) for (x, t) in find_calls(b, callee_is("dashmap::DashMap::remove")) if (field_chain(b, du, t["args"][0]) or [""])[-1] == "syscall_wait_table"]
    # EventLoop::resume(token), or -- when the author inlined it -- the Scheduler::try_resume(token) it performs
    re = find_calls(b, callee_is(LOOP + "::resume")) or find_calls(b, callee_is("scheduler::Scheduler::try_resume"))
    why = []
    if len(nx) != 1 or len(ud) != 1 or len(rs) != 1 or len(rm) != 1 or len(re) != 1:
        why.append("expected one CQE loop with user_data(), result(), wait-table remove and resume (found %d/%d/%d/%d/%d)" % (len(nx), len(ud), len(rs), len(rm), len(re)))
    else:
        k = backward(b, rm[0][1]["args"][1], du, at=(rm[0][0], "term"), through_calls="none")
        if not any(x == ud[0][0] for (x, _t) in k.calls) or k.ops:
            why.append("the slot removed is not keyed by this completion's user_data")
        k = backward(b, re[0][1]["args"][1], du, at=(re[0][0], "term"), through_calls="none")
        if not any(x == ud[0][0] for (x, _t) in k.calls) or k.ops:
            why.append("resume is not given this completion's user_data")
        # the stored value: `*pending = Some(result)` with result from cqe.result()
        stored = False
        for blk in b.blocks:
            for i, s in enumerate(blk["stmts"]):
                if s["k"] == "assign" and s["lhs"]["proj"] == ["deref"] and s["rhs"]["k"] in ("agg", "use"):
                    ops_ = s["rhs"]["ops"] if s["rhs"]["k"] == "agg" else [s["rhs"]["a"]]
                    for o in ops_:
                        v = backward(b, o, du, at=(blk["id"], i), through_calls="pass")
                        if any(x == rs[0][0] for (x, _t) in v.calls) and not v.binops():
                            stored = True
        if not stored:
            why.append("the value stored for the waiter is not this completion's result")
        # every CQE reaches remove+resume unless it is the timeout entry
        va = variant_arms(b, cfg, du, b.blocks[nx[0]]["term"]["dest"]["l"], cfg.after(nx[0]))
        if not va or va[0].get("Some") is None:
            why.append("CQE loop not recognised")
        else:
            some = va[0]["Some"]
            exempt = []
            # the user_data the operator itself uses for its internal timeout entry (read from Operator::select/do_select)
            tvals = set()
            for ob in f.bodies:
                if ob.kind == "AssocFn" and ob.npath.startswith(OP + "::"):
                    for (_x, tt) in ob.calls():
                        if norm(tt.get("callee") or "") in (OP + "::timeout_add", OP + "::timeout_update") and len(tt["args"]) > 1 and tt["args"][1]["k"] == "const" and "v" in tt["args"][1]:
                            tvals.add(tt["args"][1]["v"])
            for blk in b.blocks:
                for s in blk["stmts"]:
                    if s["k"] == "assign" and s["rhs"]["k"] == "binop" and s["rhs"]["op"] in ("Eq", "Ne") and cfg.dominates(some, blk["id"]):
                        cs = [o.get("v") for o in (s["rhs"]["a"], s["rhs"]["b"]) if o["k"] == "const"]
                        other = [o for o in (s["rhs"]["a"], s["rhs"]["b"]) if o["k"] != "const"]
                        if cs and cs[0] in tvals and other and any(x == ud[0][0] for (x, _t) in backward(b, other[0], du, at=(blk["id"], 0), through_calls="none").calls + backward(b, other[0], du, through_calls="none").calls):
                            br = bool_branch(b, cfg, du, s["lhs"]["l"], [blk["id"]])
                            if br:
                                exempt.append(br[0] if s["rhs"]["op"] == "Eq" else br[1])
            for (x, t) in b.calls():
                c = norm(t.get("callee") or "")
                if c.endswith(("PartialEq::ne", "PartialEq::eq", "PartialEq>::eq", "PartialEq>::ne")) and cfg.dominates(some, x):
                    d = repr(describe_val(b, du, t["args"][0])) + repr(describe_val(b, du, t["args"][1]))
                    if "IO_URING_TIMEOUT_USERDATA" in d:
                        br = bool_branch(b, cfg, du, t["dest"]["l"], cfg.after(x))
                        if br:
                            exempt.append(br[1] if c.endswith("ne") else br[0])
            for blk in b.blocks:
                for s in blk["stmts"]:
                    if s["k"] == "assign" and s["rhs"]["k"] == "binop" and s["rhs"]["op"] in ("Eq", "Ne") and cfg.dominates(some, blk["id"]):
                        d = repr(describe_val(b, du, s["rhs"]["a"])) + repr(describe_val(b, du, s["rhs"]["b"]))
                        if "IO_URING_TIMEOUT_USERDATA" in d:
                            br = bool_branch(b, cfg, du, s["lhs"]["l"], [blk["id"]])
                            if br:
                                exempt.append(br[0] if s["rhs"]["op"] == "Eq" else br[1])
            # the point every completion must pass: the resume call, or -- with resume inlined -- the lookup of the token in
            # COROUTINE_TOKENS that guards try_resume (a completion of a thread caller has no coroutine to resume)
            must = {re[0][0]}
            if norm(re[0][1].get("callee") or "") != LOOP + "::resume":
                g = [x for (x, t) in find_calls(b, callee_is("dashmap::DashSet::remove")) if static_of(b, du, t["args"][0]) == "net::event_loop::COROUTINE_TOKENS" and cfg.dominates(x, re[0][0])]
                must = set(g) or must
            r = cfg.reachable({some}, avoid=must | set(exempt))
            if nx[0] in r:
                why.append("a completion other than the internal timeout entry can be skipped without delivering its result / resuming its waiter")
    if why:
        run.fail(rid, LOOP + "::adapt_io_uring", b.loc(), "; ".join(why))
    else:
        run.ok(rid, LOOP + "::adapt_io_uring", "slot[cqe.user_data()] = cqe.result(); resume(cqe.user_data()); timeout entry skipped")


def errno_rule(run, f, rid, settle_rid):
    run.rule(rid, "an io_uring wrapper turns a negative completion into errno = -result and -1, passes non-negative results through, with checked conversions", floor=23, template="T6/T5")
    run.rule(settle_rid, "every exit of a wrapper that obtained a wait slot consumed its result (or removed the slot and cancelled the operation)", floor=23, template="T1")
    io = [b for b in f.bodies if "::IoUring" in b.npath and b.kind == "AssocFn" and not b.npath.endswith(("::fmt", "::default"))]
    for b in io:
        run.fn(b)
        cfg = Cfg(b)
        du = DefUse(b)
        nm = b.npath.rsplit("::", 1)[1]
        se = find_calls(b, callee_is("syscall::unix::set_errno"))
        ww = find_calls(b, callee_is("std::sync::Condvar::wait_while"))
        ev = [(x, t) for (x, t) in b.calls() if norm(t.get("callee") or "") == "net::EventLoops::" + nm]
        why = []
        if len(ev) != 1 or len(ww) != 1:
            why.append("expected one EventLoops::%s submission and one wait on its slot" % nm)
        else:
            # errno = -result on the negative edge; judged on the wrapper as one unit, so that the mapping cut out into a
            # helper (`io_uring_result_to_libc(r)`, generic over the result type: `r < T::from(0)`, `-r` are trait calls
            # there) reads like the inline form
            ub = inl(f, b)
            ucfg, udu = Cfg(ub), DefUse(ub)
            uww = find_calls(ub, callee_is("std::sync::Condvar::wait_while"))
            neg_ok = False
            tests = []      # (block whose successors are the branch, local holding `result < 0`)
            for blk in ub.blocks:
                for s_ in blk["stmts"]:
                    if s_["k"] == "assign" and s_["rhs"]["k"] == "binop" and s_["rhs"]["op"] == "Lt" and op_const(s_["rhs"]["b"]) == 0:
                        tests.append((blk["id"], s_["lhs"]["l"]))
            for (x, t) in ub.calls():
                if norm(t.get("orig") or t.get("callee") or "").endswith("PartialOrd::lt") and len(t["args"]) == 2 and "'0'" in repr(describe_val(ub, udu, t["args"][1])) and "From::from" in repr(describe_val(ub, udu, t["args"][1])):
                    tests.append((t["target"], t["dest"]["l"]))
            for (x, t) in find_calls(ub, callee_is("syscall::unix::set_errno")):
                v = backward(ub, t["args"][0], udu, at=(x, "term"), through_calls="pass")
                negated = "Neg" in [d for (k, d, _s) in v.ops if k == "unop"] or "Sub" in v.binops() or "SubWithOverflow" in v.binops() or any(norm(tt.get("orig") or tt.get("callee") or "").endswith("Neg::neg") for (_y, tt) in v.calls)
                from_slot = uww and any(y == uww[0][0] for (y, _t) in v.calls)
                for (y, tt) in v.calls:
                    # the slice stops at a trait call it does not know to be value-preserving: follow `-r` spelled Neg::neg(r)
                    if norm(tt.get("orig") or tt.get("callee") or "").endswith("Neg::neg") and uww:
                        v2 = backward(ub, tt["args"][0], udu, at=(y, "term"), through_calls="pass")
                        from_slot = from_slot or any(z == uww[0][0] for (z, _t) in v2.calls)
                if from_slot and negated:
                    for (tb, tl) in tests:
                        br = bool_branch(ub, ucfg, udu, tl, [tb])
                        if br and ucfg.dominates(br[0], x):
                            neg_ok = True
            if not neg_ok:
                why.append("a negative completion is not mapped to errno = -result")
            # no narrowing `as` cast on the result path
            r = backward(b, 0, du)
            narrowing = [c for (c, s) in r.casts() if c[0] == "IntToInt" and c[1] in ("i64", "isize") and c[2] in ("i32", "i16", "i8")]
            if narrowing:
                why.append("the completion result is narrowed with `as` (%s)" % narrowing)
        if why:
            run.fail(rid, b.npath, b.loc(), "%s: %s" % (nm, "; ".join(why)))
        else:
            run.ok(rid, b.npath, "result < 0 -> set_errno(-result), -1")
        # settle: returns after the submission that do not pass the slot wait
        if len(ev) == 1 and len(ww) == 1:
            va = variant_arms(b, cfg, du, ev[0][1]["dest"]["l"], cfg.after(ev[0][0]))
            okarm = va[0].get("Ok") if va else None
            if okarm is not None:
                cancel = [x for (x, t) in b.calls() if "cancel" in norm(t.get("callee") or "") or norm(t.get("callee") or "").endswith("syscall_wait_table") or (norm(t.get("callee") or "") == "dashmap::DashMap::remove")]
                r = cfg.reachable({okarm}, avoid={ww[0][0]} | set(cancel))
                leak = sorted(set(cfg.returns) & r)
                # identify the early-return edge (Timeout arm)
                if leak:
                    run.fail(settle_rid, "%s/timeout-exit-leaves-slot" % b.npath, b.loc(),
                             "%s returns (syscall Timeout) without consuming or removing its wait-table slot and without cancelling the submission: the late completion fills the stale slot / the next call of this coroutine trips the 'previous token was not retrieved' assert" % nm)
                else:
                    run.ok(settle_rid, b.npath, "every exit after submission waits for the slot")


def userdata_rule(run, f, rid):
    run.rule(rid, "every operator call tags its submission entry with its own user_data parameter", floor=20, template="T5")
    for b in f.bodies:
        if b.kind != "AssocFn" or not b.npath.startswith(OP + "::") or b.argc < 2 or b.name_of(2) != "user_data":
            continue
        nm = b.npath.rsplit("::", 1)[1]
        # these take the user_data of the submission they cancel / update, not a tag of their own (io_uring API)
        if nm in ("select", "do_select", "push_sq", "new", "timeout_remove", "timeout_update", "poll_remove", "async_cancel"):
            continue
        run.fn(b)
        du = DefUse(b)
        ud = [(x, t) for (x, t) in b.calls() if norm(t.get("callee") or "").endswith("squeue::Entry::user_data") or norm(t.get("callee") or "").endswith("Entry::user_data")]
        ps = [(x, t) for (x, t) in b.calls() if norm(t.get("callee") or "") == OP + "::push_sq"]
        ok = bool(ud) and bool(ps)
        for (x, t) in ud:
            sl = backward(b, t["args"][1], du, at=(x, "term"), through_calls="none")
            if {b.name_of(p) for p in sl.params} != {"user_data"} or sl.ops:
                ok = False
        # the entry pushed is the tagged one
        if ok:
            for (x, t) in ps:
                sl = backward(b, t["args"][1], du, at=(x, "term"))
                if not any(y in [u[0] for u in ud] for (y, _t) in sl.calls):
                    ok = False
        if ok:
            run.ok(rid, b.npath, "entry.user_data(user_data) -> push_sq")
        else:
            run.fail(rid, b.npath, b.loc(), "Operator::%s does not tag the entry it submits with its own user_data parameter" % nm)


def token_rule(run, f, rid):
    run.rule(rid, "the token of a non-coroutine caller identifies the calling thread (and the call), so two threads in the same call never share a slot", floor=1, template="T5")
    b = unit(run, rid, f, LOOP + "::token")        # a `thread_token(..)` helper for the non-coroutine case is part of it
    if b is None:
        return
    du = DefUse(b)
    hs = [(x, t) for (x, t) in b.calls() if norm(t.get("orig") or "").endswith("Hash::hash")]
    srcs = set()
    for (x, t) in hs:
        sl = backward(b, t["args"][0], du, at=(x, "term"))
        for (_y, tt) in sl.calls:
            srcs.add(norm(tt.get("callee") or ""))
    if "libc::pthread_self" in srcs and any(c.endswith("mem::discriminant") for c in srcs) and "libc::getpid" not in srcs:
        run.ok(rid, LOOP + "::token/thread-path", "hash(pthread_self(), discriminant(syscall))")
    else:
        run.fail(rid, LOOP + "::token/thread-path", b.loc(), "the thread-path token must be derived from the calling thread's identity (pthread_self) and the syscall (hash inputs: %s)" % sorted(c.rsplit("::", 1)[1] for c in srcs))


# ------------------------------------------------------------------ one completion per submission
# The wait table has ONE slot per token and the token is per caller, not per call: the dispatch loop takes every
# completion that carries a token for the completion of whatever call currently waits under it.  That is sound only if
# each submission posts exactly one completion.  io_uring opcodes that post more than one (zero-copy sends: result +
# buffer-release notification; multishot accept/recv/poll/timeout: one per event) need an extra protocol (skip the
# F_NOTIF / follow F_MORE) that adapt_io_uring does not have.
ONE_COMPLETION = {
    # submitted today
    "Accept", "AsyncCancel", "Close", "Connect", "EpollCtl", "Fsync", "MkDirAt", "OpenAt", "PollAdd", "PollRemove", "Read", "Readv", "Recv",
    "RecvMsg", "RenameAt", "Send", "SendMsg", "Shutdown", "Socket", "Timeout", "TimeoutRemove", "TimeoutUpdate", "Write", "Writev",
    # the other single-completion opcodes of io-uring 0.7 (so that hooking one more system call is not reported):
    # one SQE, one CQE, no F_MORE / F_NOTIF
    "Nop", "ReadFixed", "WriteFixed", "ReadvFixed", "WritevFixed", "SyncFileRange", "SetSockOpt", "AsyncCancel2", "LinkTimeout", "Fallocate",
    "FilesUpdate", "Statx", "Fadvise", "Madvise", "OpenAt2", "Splice", "Tee", "ProvideBuffers", "RemoveBuffers", "UnlinkAt", "SymlinkAt", "LinkAt",
    "GetXattr", "SetXattr", "FGetXattr", "FSetXattr", "MsgRingData", "MsgRingSendFd", "UringCmd16", "UringCmd80", "FutexWait", "FutexWake",
    "FutexWaitV", "WaitId", "FixedFdInstall", "Ftruncate", "Bind", "Listen", "EpollWait", "Pipe",
}
MANY_COMPLETIONS = {
    "SendZc": "posts the result and, later, a second completion (IORING_CQE_F_NOTIF, result 0) when the buffer is released",
    "SendMsgZc": "posts the result and, later, a second completion (IORING_CQE_F_NOTIF, result 0) when the buffers are released",
    "RecvZc": "zero-copy receive: one completion per chunk (F_MORE)",
    "AcceptMulti": "multishot: one completion per accepted connection", "RecvMulti": "multishot: one completion per datagram/chunk",
    "RecvMsgMulti": "multishot: one completion per message", "ReadMulti": "multishot: one completion per read",
    "RecvMultiBundle": "multishot: one completion per bundle", "SendBundle": "may post several completions (one per bundle sent, F_MORE)",
    "RecvBundle": "a bundle completion covers several provided buffers; with F_MORE further completions follow",
}
# builder options that turn a one-completion opcode into a multishot one
MULTI_OPTIONS = {"PollAdd::multi": "multishot poll: one completion per event", "Timeout::flags": "may carry IORING_TIMEOUT_MULTISHOT",
                 "Recv::ioprio": "may carry IORING_RECV_MULTISHOT", "Accept::ioprio": "may carry IORING_ACCEPT_MULTISHOT"}


def one_completion_rule(run, f, rid):
    run.rule(rid, "every opcode the operator submits posts exactly one completion per submission (the wait table has one slot per token and no F_MORE/F_NOTIF protocol)", floor=20, template="T9 (modelled opcode table, fail closed)")
    seen = 0
    for b in f.bodies:
        if b.kind == "Promoted" or not (b.npath.startswith(OP + "::") or b.npath.startswith(OP.rsplit("::", 1)[0] + "::")):
            continue
        per = {}
        for (x, t) in b.calls():
            c = norm(t.get("callee") or "")
            if not c.startswith("io_uring::opcode::"):
                continue
            op, meth = c.split("::")[2], c.split("::")[3] if len(c.split("::")) > 3 else ""
            per.setdefault(op, set()).add(meth)
        for op, meths in sorted(per.items()):
            if "new" not in meths and "build" not in meths:
                continue
            seen += 1
            key = b.npath + "/" + op
            if op in MANY_COMPLETIONS:
                run.fail(rid, key, b.loc(), "Operator::%s submits io_uring opcode %s, which %s; the second completion carries the same user_data and is taken for the completion of the caller's NEXT call (that call returns its result while its own submission is still in flight)" % (b.npath.rsplit("::", 1)[1], op, MANY_COMPLETIONS[op]))
            elif op not in ONE_COMPLETION:
                run.fail(rid, key, b.loc(), "Operator::%s submits io_uring opcode %s, which is not in the table of opcodes known to post exactly one completion: add it to the table after checking the kernel's contract" % (b.npath.rsplit("::", 1)[1], op))
            else:
                multi = [m for m in meths if "%s::%s" % (op, m) in MULTI_OPTIONS]
                if multi:
                    run.fail(rid, key, b.loc(), "Operator::%s sets %s on opcode %s (%s): more than one completion per submission" % (b.npath.rsplit("::", 1)[1], multi, op, MULTI_OPTIONS["%s::%s" % (op, multi[0])]))
                else:
                    run.ok(rid, key, "one completion")
    if not seen:
        run.fail(rid, "no-opcode-site", "core/src/net/operator/linux/mod.rs", "no io_uring opcode construction found in the operator: the rule has nothing to judge")
