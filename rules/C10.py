"""C10 — Scheduler completes each coroutine once and honours delays and cancels (structural clauses)."""
from rules.common import start
from rules import wave3
from rules import sched


def run(tier):
    run, fx = start("C10", tier,
        "Linear-resource walk of the popped coroutine through do_schedule/check_ready/try_resume/submit_raw_co, result table (Complete->Ok, Error->Err "
        "under the coroutine's own id), delay guards (promotion only when due, park iff later, timer check before every pop, min-heap orderings), "
        "cancel-before-resume guard with sole consumers of CANCEL_COROUTINES, callback promotion.",
        ["core/default"] + (["core/preemptive"] if tier == "thorough" else []),
        not_decided=["wall-clock 'first pass at or after' (the guard is on now(), the pass timing is not decided)"],
        assumptions=["BinaryHeap is a max-heap of Ord::cmp", "DashMap::remove returns the stored value"])
    for cfgname, f in fx.items():
        sched.linear_rule(run, f, "C10-LINEAR")
        sched.result_rule(run, f, "C10-RESULT")
        sched.delay_rule(run, f, "C10-DELAY")
        sched.cancel_rule(run, f, "C10-CANCEL")
        sched.try_resume_rule(run, f, "C10-CALLBACK")
    # clauses added for the wave-2 seeds (rules/wave2.py; DESIGN 12a)
    for _cfg, f in fx.items():
        wave3.promotion_exits_rule(run, f, "C10-PROMOTION-EXITS")
    return run.finish()
