"""Clauses added for the wave-3 seeds that no earlier rule reported (DESIGN 12b).  Same discipline as rules/wave2.py:
structural necessary conditions, on inlined units, path by path where the statement is about paths, failing closed."""
from analysis.facts import norm
from analysis.cfg import Cfg
from analysis.flow import DefUse, backward, find_calls, callee_is, callee_ends, op_local, op_const, static_of, field_chain, switch_info
from analysis.table import PathWalker, describe_val, outcome_on_path, result_outcomes, enum_facts
from rules.common import need, unit, inl, family

POOL = "co_pool::CoroutinePool"
SCHED = "scheduler::Scheduler"
CO = "coroutine::korosensei::Coroutine"


# ------------------------------------------------------------------ C07/C11: every state change is broadcast
def change_broadcast_rule(run, f, rid):
    """change_state replaces the state cell and tells the listeners.  EVERY path from the replace to the return passes the
    on_state_changed broadcast: a transition that is stored but not reported (say, only logged for one target state) leaves
    the listeners' view behind the coroutine's -- the pool's worker count, which lives in such a listener, is then never
    decremented for a worker that ended that way."""
    run.rule(rid, "every path of change_state from the state replace to the return passes the on_state_changed broadcast", floor=1, template="T1 (must-pass)")
    b = unit(run, rid, f, CO + "::change_state")
    if b is None:
        return
    cfg = Cfg(b)
    rep = find_calls(b, lambda c, t: c.endswith("cell::Cell::replace") or c.endswith("cell::Cell::set"))
    osc = [x for (x, t) in b.calls() if norm(t.get("orig") or "").endswith("Listener::on_state_changed")]
    if len(rep) != 1 or not osc:
        run.fail(rid, "change_state/broadcast-on-every-path", b.loc(), "change_state must replace the state cell once and broadcast on_state_changed (found %d / %d)" % (len(rep), len(osc)))
        return
    ok, wit = cfg.must_pass(cfg.after(rep[0][0]), osc)
    if ok:
        run.ok(rid, "change_state/broadcast-on-every-path", {"broadcast_sites": len(osc)})
    else:
        run.fail(rid, "change_state/broadcast-on-every-path", b.loc(rep[0][1]["line"]), "change_state can return after replacing the state without broadcasting on_state_changed: listeners (the pool's worker counter among them) miss that transition")


# ------------------------------------------------------------------ C12: do_clean settles ALL remaining waiters
def clean_all_waiters_rule(run, f, rid):
    """do_clean runs when the pool is Stopped and nothing will be scheduled any more.  The ids it settles must be ALL the keys
    of `waits`: a filter on that list (skip ids that look "running", take the first n, ...) leaves exactly those waiters
    blocked forever, since a Stopped pool never resumes the task they wait for."""
    run.rule(rid, "do_clean settles every key of waits: the id list is not filtered, truncated or skipped", floor=1, template="T5 (provenance of the iterated list)")
    b = unit(run, rid, f, POOL + "::do_clean")
    if b is None:
        return
    du = DefUse(b)
    cfg = Cfg(b)
    SHRINK = ("Iterator::filter", "Iterator::filter_map", "Iterator::skip", "Iterator::skip_while", "Iterator::take", "Iterator::take_while", "Iterator::step_by",
              "Iterator::find", "Iterator::nth", "Vec::retain", "Vec::truncate", "Vec::drain", "Vec::pop", "Vec::remove", "Vec::swap_remove", "Vec::dedup")
    shr = sorted({norm(t.get("orig") or t.get("callee") or "").split("::", 2)[-1] for (_x, t) in b.calls() if norm(t.get("orig") or t.get("callee") or "").endswith(SHRINK)})
    # a `continue` / early exit between obtaining an id and settling it
    ins = [x for (x, t) in find_calls(b, callee_is("dashmap::DashMap::insert")) if (field_chain(b, du, t["args"][0]) or [""])[-1] == "results"]
    nx = [x for (x, t) in b.calls() if norm(t.get("orig") or "").endswith("Iterator::next") and cfg.in_cycle(x)]
    # the per-id loop is the one whose body inserts into results
    skip = False
    for n in nx:
        va = None
        from analysis.flow import variant_arms
        va = variant_arms(b, cfg, du, b.blocks[n]["term"]["dest"]["l"], cfg.after(n))
        if va and va[0].get("Some") is not None and ins and any(i in cfg.reachable({va[0]["Some"]}) for i in ins):
            if n in cfg.reachable({va[0]["Some"]}, avoid=set(ins)):
                skip = True
    over_waits = any("waits" in (field_chain(b, du, t["args"][0]) or []) for (_x, t) in b.calls() if t["args"] and norm(t.get("callee") or "").endswith(("DashMap::iter", "DashMap::iter_mut", "IntoIterator>::into_iter", "DashMap::into_iter")))
    why = []
    if not over_waits:
        why.append("the list does not come from iterating `waits`")
    if shr:
        why.append("the id list is narrowed by %s" % shr)
    if skip:
        why.append("an id can be skipped (the loop can go to the next id without inserting its result)")
    if why:
        run.fail(rid, "do_clean/all-waiters", b.loc(), "do_clean does not settle every waiter: %s; the waiters left out stay blocked, because a Stopped pool schedules nothing" % "; ".join(why))
    else:
        run.ok(rid, "do_clean/all-waiters", "every key of waits, unfiltered")


# ------------------------------------------------------------------ C01/C03: only modelled operations on the modelled containers
MODELLED = {
    # container method -> why the linear / pairing rules can account for it
    "st3::fifo::Worker": {"new": "creates an empty bucket", "push": "hands the item back in Err when full (tracked)", "pop": "source of an item (tracked)",
                          "stealer": "handle for siblings", "capacity": "read only", "spare_capacity": "read only", "is_empty": "read only"},
    "st3::fifo::Stealer": {"steal": "moves items between buckets, Err when nothing moved (modelled)", "clone": "handle"},
    "crossbeam_deque::Injector": {"new": "creates an empty queue", "push": "consumes the item (tracked, paired with len += 1)", "steal": "source of an item (tracked, paired with len -= 1)",
                                 "is_empty": "read only", "len": "read only"},
}


def container_api_rule(run, f, rid):
    """The no-loss / no-duplication rules follow an item through the operations in the model table (DESIGN 1.4).  An
    operation on the same containers that is NOT in the table moves items where those rules cannot see them -- e.g.
    st3's `Worker::extend`, which silently drops what does not fit.  Fail closed: every st3 / crossbeam-deque container
    method the crate calls is one the table covers."""
    run.rule(rid, "every operation the crate performs on the st3 / crossbeam-deque containers is one the item-tracking rules model", floor=3, template="T9 (who-may-call, fail closed)")
    used = {}
    for b in f.bodies:
        if b.kind == "Promoted":
            continue
        for (_x, t) in b.calls():
            c = norm(t.get("callee") or "")
            for cont in MODELLED:
                if c.startswith(cont + "::"):
                    used.setdefault(cont, {}).setdefault(c[len(cont) + 2:], set()).add(b.npath.split("::{closure#", 1)[0])
    if not used:
        run.fail(rid, "containers/none", "core/src/common", "no st3 / crossbeam-deque container operation found")
        return
    for cont, ms in sorted(used.items()):
        extra = {m: sorted(v)[:2] for m, v in ms.items() if m not in MODELLED[cont]}
        if extra:
            run.fail(rid, cont + "/unmodelled-" + "+".join(sorted(extra)), "core/src/common", "%s::%s is used (%s) but is not in the model table: items moved by it are invisible to the no-loss / no-duplication rules (st3's extend, for one, drops what does not fit)" % (cont, ", ".join(sorted(extra)), extra))
        else:
            run.ok(rid, cont, sorted(ms))


# ------------------------------------------------------------------ C10: the timer-promotion loops leave only on "empty" or "not yet due"
def promotion_exits_rule(run, f, rid):
    """check_ready promotes due timers from the two heaps.  Each of its loops may be left only because the heap is empty
    (peek() is None) or because its head is not yet due (now() < timestamp); a failure exit (`?`) aside.  Any other exit --
    e.g. giving up when an entry's coroutine is no longer in the syscall table -- leaves due timers behind it in the heap, and
    a pass with nothing else to run returns without resuming coroutines whose wake-up time has passed."""
    run.rule(rid, "the timer-promotion loops of check_ready are left only when the heap is empty or its head is not yet due", floor=2, template="T7/T2 (exit edges, path by path)")
    b = unit(run, rid, f, SCHED + "::check_ready")
    if b is None:
        return
    cfg = Cfg(b)
    du = DefUse(b)
    peeks = [(x, t) for (x, t) in b.calls() if norm(t.get("callee") or "").endswith("BinaryHeap::peek")]
    if len(peeks) < 2:
        run.fail(rid, "check_ready/loops", b.loc(), "expected the two promotion loops over the suspend heaps (peek) in check_ready, found %d" % len(peeks))
        return
    loops = cfg.natural_loops()
    from rules.C07 import ret_variant
    for k, (pb, pt) in enumerate(peeks):
        L = None
        for h, blocks in loops.items():
            if pb in blocks and (L is None or len(blocks) < len(L)):
                L = blocks
        key = "check_ready/loop#%d-exits" % k
        if L is None:
            run.fail(rid, key, b.loc(pt["line"]), "the heap is peeked outside a loop: at most one due timer is promoted per pass")
            continue
        w = PathWalker(b)
        n_ex = bad = 0
        # one round of the loop: from the peek to leaving the loop / re-entering the peek
        for start in cfg.after(pb):
            for (pth, conds, sv) in w.walk(start, lambda bid, t: ("again",) if bid == pb else (("left",) if bid not in L else None)):
                if sv[0] != "left":
                    continue
                n_ex += 1
                full = [pb] + list(pth)
                oc, feas = result_outcomes(b, du, full)
                if not feas:
                    continue
                if oc.get(pb) == "err":
                    continue                      # peek() was None: the heap is empty
                # not yet due: the path took the `now() < timestamp` side of a comparison between now() and a timestamp field
                notdue = False
                for cd in conds:
                    if cd[0] == "bool" and isinstance(cd[1], tuple) and cd[1] and cd[1][0] == "cmp" and cd[1][1] in ("Lt", "Le"):
                        a, c = cd[1][2], cd[1][3]
                        now_a = isinstance(a, tuple) and a[0] == "call" and a[1] == "common::now"
                        now_c = isinstance(c, tuple) and c[0] == "call" and c[1] == "common::now"
                        if now_a and not now_c and cd[2] is True:
                            notdue = True         # now <(=) ts holds
                        if now_c and not now_a and cd[2] is False:
                            notdue = True         # ts <(=) now fails
                if notdue:
                    continue
                # a failure exit: the function returns Err right after leaving
                tail = cfg.reachable({pth[-1]})
                if all(b.blocks[r]["term"]["k"] != "return" for r in tail):
                    continue
                rest = [(p2, s2) for (p2, _c2, s2) in PathWalker(b).walk(pth[-1], lambda bid, t: ("return",) if t["k"] == "return" else None) if s2[0] == "return"]
                if rest and all(ret_variant(b, full + list(p2)[1:]) == "Err" for (p2, _s) in rest):
                    continue
                bad += 1
        if not run.paths(rid, key, b.loc(pt["line"]), n_ex):
            continue
        if bad:
            run.fail(rid, key, b.loc(pt["line"]), "a promotion loop of check_ready can be left although its heap is not empty and its head is due (%d exit path(s)): timers behind that entry stay in the heap, and their coroutines are not resumed by the first pass after their wake-up time" % bad)
        else:
            run.ok(rid, key, {"exit_paths": n_ex})


# ------------------------------------------------------------------ C02: only the joiner takes a result away
def results_deleters_rule(run, f, rid):
    """A finished task's outcome waits in the pool's `results` map until its joiner takes it (try_take_task_result, also
    through clean_task_result when the handle is dropped).  Nothing else may delete from that map: a clean-up that clears it
    (say, when the pool stops) throws away the outcome of every task that finished but was not joined yet, and the later
    join times out instead of returning the task's own result."""
    from analysis.atomics import receiver_key
    from rules.common import uncovered_roots
    run.rule(rid, "entries leave the pool's results map only through the joiner's take", floor=1, template="T9 (who-may-delete)")
    DEL = ("::clear", "::retain", "::remove", "::remove_if", "::drain", "::alter", "::alter_all", "::shrink_to_fit")
    allowed = {POOL + "::try_take_task_result"}
    offenders, seen = [], 0
    for b in f.bodies:
        if b.kind == "Promoted":
            continue
        du = None
        for (x, t) in b.calls():
            c = norm(t.get("callee") or "")
            if not (c.startswith("dashmap::DashMap::") and c.endswith(DEL)) or not t["args"]:
                continue
            du = du or DefUse(b)
            if (field_chain(b, du, t["args"][0]) or [""])[-1] != "results":
                continue
            k = receiver_key(b, du, t["args"][0])
            if k and k[0] != POOL:
                continue
            seen += 1
            host = b.npath.split("::{closure#", 1)[0]
            if host not in allowed and uncovered_roots(f, host, allowed):
                offenders.append("%s (%s)" % (host.rsplit("::", 1)[-1], c.rsplit("::", 1)[1]))
    if need(run, rid, f, POOL + "::try_take_task_result") is None:
        return
    if seen == 0:
        run.fail(rid, "results/deleters", "core/src/co_pool/mod.rs", "no take from the results map found at all (a joiner can never obtain a result)")
    elif offenders:
        run.fail(rid, "results/deleters", "core/src/co_pool/mod.rs", "results are deleted outside the joiner's take: %s; a task that finished but was not joined yet loses its outcome, and its join times out" % sorted(set(offenders)))
    else:
        run.ok(rid, "results/deleters", {"deleting_sites": seen})


# ------------------------------------------------------------------ C14: now() is the clock absolute deadlines are given in
def now_is_realtime_rule(run, f, rid):
    """Relative waits only compare now() with now()+d, so any clock would do for them.  pthread_cond_timedwait gets an ABSOLUTE
    CLOCK_REALTIME deadline from its caller and subtracts now() from it: that is only meaningful while now() is the wall clock
    (time since UNIX_EPOCH).  With a monotonic now() the remaining time never reaches zero and the call never times out."""
    run.rule(rid, "common::now() is wall-clock time since UNIX_EPOCH, the clock caller-supplied absolute deadlines are expressed in", floor=1, template="T5 (provenance)")
    b = unit(run, rid, f, "common::now")
    if b is None:
        return
    du = DefUse(b)
    sl = backward(b, 0, du, through_calls="all")
    cs = {norm(t.get("callee") or "") for (_x, t) in sl.calls}
    wall = any(c.endswith("SystemTime::now") for c in cs) and any(c.endswith("SystemTime::duration_since") for c in cs)
    epoch = "UNIX_EPOCH" in repr([c for c in sl.consts]) or any("UNIX_EPOCH" in repr(describe_val(b, du, a)) for (_x, t) in b.calls() if norm(t.get("callee") or "").endswith("duration_since") for a in t["args"])
    mono = sorted(c for c in cs if "Instant" in c)
    # is there a consumer that subtracts now() from a caller-supplied absolute time?  (today: pthread_cond_timedwait)
    consumers = []
    for ob in f.bodies:
        if ob.kind != "AssocFn" or "pthread_cond_timedwait" not in ob.npath or "::Nio" not in ob.npath:
            continue
        if any(norm(t.get("callee") or "") == "common::now" for c2 in family(f, ob) for (_x, t) in c2.calls()):
            consumers.append(ob.npath.rsplit("::", 1)[1])
    if wall and epoch and not mono:
        run.ok(rid, "common::now/clock", {"clock": "SystemTime since UNIX_EPOCH", "absolute-deadline consumers": consumers})
    elif not consumers:
        run.ok(rid, "common::now/clock", {"clock": "not wall clock, but no consumer subtracts now() from a caller's absolute deadline"})
    else:
        run.fail(rid, "common::now/clock", b.loc(), "now() is not wall-clock time since UNIX_EPOCH (sources: %s) while %s subtracts it from the caller's CLOCK_REALTIME deadline: the remaining time never reaches zero and the timed wait never returns ETIMEDOUT" % (sorted(c.rsplit("::", 2)[-2] + "::" + c.rsplit("::", 1)[-1] for c in cs if "time" in c.lower() or "Instant" in c), consumers))


# ------------------------------------------------------------------ C09/C07/C08: nothing ends the coroutine between the request push and the yield
SUS = "coroutine::suspender::korosensei::Suspender"


def _diverging(b):
    """Blocks whose terminator is a call that never returns (panic!/assert!/unreachable!/abort ...): an exit of the unit
    that is not a return."""
    return [x for (x, t) in b.calls() if t.get("target") is None]


def no_exit_before_yield_rule(run, f, rid):
    """until_with / cancel push the request on the thread-local queue and then yield; the queue is drained only by the resume
    that sees a Yield (never by a Return).  If control can leave the coroutine's body between the push and the context
    switch by anything but that switch -- a return, or a panic!/assert! caught by the coroutine's catch and turned into a
    Return -- the request stays queued and is attributed to the next yield on the thread.  So with suspend_with (and every
    helper the rules do not name) spliced into the pusher, every path from the push to an exit of the unit -- a return OR a
    call that does not return -- passes the context switch (Yielder::suspend)."""
    run.rule(rid, "from the request push, every path to a return or to a non-returning call (panic!/assert!) passes the context switch", floor=2, template="T1 (must-pass, panics as exits)")
    for fn in (SUS + "::until_with", SUS + "::cancel"):
        b = unit(run, rid, f, fn, force={"suspend_with"})
        if b is None:
            continue
        cfg = Cfg(b)
        push = find_calls(b, callee_is("std::collections::VecDeque::push_front", "std::collections::VecDeque::push_back"))
        sw = [x for (x, t) in b.calls() if norm(t.get("callee") or "").endswith("Yielder::suspend")]
        nm = fn.rsplit("::", 1)[1]
        if len(push) != 1 or not sw:
            run.fail(rid, nm + "/no-exit-before-yield", b.loc(), "%s: expected one request push and the context switch in the unit (found %d / %d)" % (nm, len(push), len(sw)))
            continue
        div = [x for x in _diverging(b) if x in cfg.reach]
        ok, wit = cfg.must_pass(cfg.after(push[0][0]), sw, exits=set(cfg.returns) | set(div))
        if ok:
            run.ok(rid, nm + "/no-exit-before-yield", {"switch_sites": len(sw), "non_returning_calls_in_unit": len(div)})
        else:
            t = b.blocks[wit]["term"]
            what = "returns" if t["k"] == "return" else "can end in %s (line %s)" % (norm(t.get("callee") or "a non-returning call"), t.get("line"))
            run.fail(rid, nm + "/no-exit-before-yield", b.loc(t.get("line")), "%s %s after pushing its request and before the context switch: the coroutine then ends with a Return, which does not drain the queue, and the request is attributed to the next yield on the thread" % (nm, what))
