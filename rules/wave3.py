"""Clauses added for the wave-3 seeds that no earlier rule reported (DESIGN 12b).  Same discipline as rules/wave2.py:
structural necessary conditions, on inlined units, path by path where the statement is about paths, failing closed."""
from analysis.facts import norm
from analysis.cfg import Cfg
from analysis.flow import DefUse, backward, find_calls, callee_is, callee_ends, op_local, op_const, static_of, field_chain, switch_info
from analysis.table import PathWalker, describe_val, outcome_on_path, result_outcomes, enum_facts
from rules.common import need, unit, inl, family

POOL = "co_pool::CoroutinePool"
SCHED = "scheduler::Scheduler"
CO = "coroutine::korosensei::Coroutine"


# ------------------------------------------------------------------ C07/C11: every state change is broadcast
def change_broadcast_rule(run, f, rid):
    """change_state replaces the state cell and tells the listeners.  EVERY path from the replace to the return passes the
    on_state_changed broadcast: a transition that is stored but not reported (say, only logged for one target state) leaves
    the listeners' view behind the coroutine's -- the pool's worker count, which lives in such a listener, is then never
    decremented for a worker that ended that way."""
    run.rule(rid, "every path of change_state from the state replace to the return passes the on_state_changed broadcast", floor=1, template="T1 (must-pass)")
    b = unit(run, rid, f, CO + "::change_state")
    if b is None:
        return
    cfg = Cfg(b)
    rep = find_calls(b, lambda c, t: c.endswith("cell::Cell::replace") or c.endswith("cell::Cell::set"))
    osc = [x for (x, t) in b.calls() if norm(t.get("orig") or "").endswith("Listener::on_state_changed")]
    if len(rep) != 1 or not osc:
        run.fail(rid, "change_state/broadcast-on-every-path", b.loc(), "change_state must replace the state cell once and broadcast on_state_changed (found %d / %d)" % (len(rep), len(osc)))
        return
    ok, wit = cfg.must_pass(cfg.after(rep[0][0]), osc)
    if ok:
        run.ok(rid, "change_state/broadcast-on-every-path", {"broadcast_sites": len(osc)})
    else:
        run.fail(rid, "change_state/broadcast-on-every-path", b.loc(rep[0][1]["line"]), "change_state can return after replacing the state without broadcasting on_state_changed: listeners (the pool's worker counter among them) miss that transition")


# ------------------------------------------------------------------ C12: do_clean settles ALL remaining waiters
def clean_all_waiters_rule(run, f, rid):
    """do_clean runs when the pool is Stopped and nothing will be scheduled any more.  The ids it settles must be ALL the keys
    of `waits`: a filter on that list (skip ids that look "running", take the first n, ...) leaves exactly those waiters
    blocked forever, since a Stopped pool never resumes the task they wait for."""
    run.rule(rid, "do_clean settles every key of waits: the id list is not filtered, truncated or skipped", floor=1, template="T5 (provenance of the iterated list)")
    b = unit(run, rid, f, POOL + "::do_clean")
    if b is None:
        return
    du = DefUse(b)
    cfg = Cfg(b)
    SHRINK = ("Iterator::filter", "Iterator::filter_map", "Iterator::skip", "Iterator::skip_while", "Iterator::take", "Iterator::take_while", "Iterator::step_by",
              "Iterator::find", "Iterator::nth", "Vec::retain", "Vec::truncate", "Vec::drain", "Vec::pop", "Vec::remove", "Vec::swap_remove", "Vec::dedup")
    shr = sorted({norm(t.get("orig") or t.get("callee") or "").split("::", 2)[-1] for (_x, t) in b.calls() if norm(t.get("orig") or t.get("callee") or "").endswith(SHRINK)})
    # a `continue` / early exit between obtaining an id and settling it
    ins = [x for (x, t) in find_calls(b, callee_is("dashmap::DashMap::insert")) if (field_chain(b, du, t["args"][0]) or [""])[-1] == "results"]
    nx = [x for (x, t) in b.calls() if norm(t.get("orig") or "").endswith("Iterator::next") and cfg.in_cycle(x)]
    # the per-id loop is the one whose body inserts into results
    skip = False
    for n in nx:
        va = None
        from analysis.flow import variant_arms
        va = variant_arms(b, cfg, du, b.blocks[n]["term"]["dest"]["l"], cfg.after(n))
        if va and va[0].get("Some") is not None and ins and any(i in cfg.reachable({va[0]["Some"]}) for i in ins):
            if n in cfg.reachable({va[0]["Some"]}, avoid=set(ins)):
                skip = True
    over_waits = any("waits" in (field_chain(b, du, t["args"][0]) or []) for (_x, t) in b.calls() if t["args"] and norm(t.get("callee") or "").endswith(("DashMap::iter", "DashMap::iter_mut", "IntoIterator>::into_iter", "DashMap::into_iter")))
    why = []
    if not over_waits:
        why.append("the list does not come from iterating `waits`")
    if shr:
        why.append("the id list is narrowed by %s" % shr)
    if skip:
        why.append("an id can be skipped (the loop can go to the next id without inserting its result)")
    if why:
        run.fail(rid, "do_clean/all-waiters", b.loc(), "do_clean does not settle every waiter: %s; the waiters left out stay blocked, because a Stopped pool schedules nothing" % "; ".join(why))
    else:
        run.ok(rid, "do_clean/all-waiters", "every key of waits, unfiltered")


# ------------------------------------------------------------------ C01/C03: only modelled operations on the modelled containers
MODELLED = {
    # container method -> why the linear / pairing rules can account for it
    "st3::fifo::Worker": {"new": "creates an empty bucket", "push": "hands the item back in Err when full (tracked)", "pop": "source of an item (tracked)",
                          "stealer": "handle for siblings", "capacity": "read only", "spare_capacity": "read only", "is_empty": "read only"},
    "st3::fifo::Stealer": {"steal": "moves items between buckets, Err when nothing moved (modelled)", "clone": "handle"},
    "crossbeam_deque::Injector": {"new": "creates an empty queue", "push": "consumes the item (tracked, paired with len += 1)", "steal": "source of an item (tracked, paired with len -= 1)",
                                 "is_empty": "read only", "len": "read only"},
}


def container_api_rule(run, f, rid):
    """The no-loss / no-duplication rules follow an item through the operations in the model table (DESIGN 1.4).  An
    operation on the same containers that is NOT in the table moves items where those rules cannot see them -- e.g.
    st3's `Worker::extend`, which silently drops what does not fit.  Fail closed: every st3 / crossbeam-deque container
    method the crate calls is one the table covers."""
    run.rule(rid, "every operation the crate performs on the st3 / crossbeam-deque containers is one the item-tracking rules model", floor=3, template="T9 (who-may-call, fail closed)")
    used = {}
    for b in f.bodies:
        if b.kind == "Promoted":
            continue
        for (_x, t) in b.calls():
            c = norm(t.get("callee") or "")
            for cont in MODELLED:
                if c.startswith(cont + "::"):
                    used.setdefault(cont, {}).setdefault(c[len(cont) + 2:], set()).add(b.npath.split("::{closure#", 1)[0])
    if not used:
        run.fail(rid, "containers/none", "core/src/common", "no st3 / crossbeam-deque container operation found")
        return
    for cont, ms in sorted(used.items()):
        extra = {m: sorted(v)[:2] for m, v in ms.items() if m not in MODELLED[cont]}
        if extra:
            run.fail(rid, cont + "/unmodelled-" + "+".join(sorted(extra)), "core/src/common", "%s::%s is used (%s) but is not in the model table: items moved by it are invisible to the no-loss / no-duplication rules (st3's extend, for one, drops what does not fit)" % (cont, ", ".join(sorted(extra)), extra))
        else:
            run.ok(rid, cont, sorted(ms))


# ------------------------------------------------------------------ C10: the timer-promotion loops leave only on "empty" or "not yet due"
def promotion_exits_rule(run, f, rid):
    """check_ready promotes due timers from the two heaps.  Each of its loops may be left only because the heap is empty
    (peek() is None) or because its head is not yet due (now() < timestamp); a failure exit (`?`) aside.  Any other exit --
    e.g. giving up when an entry's coroutine is no longer in the syscall table -- leaves due timers behind it in the heap, and
    a pass with nothing else to run returns without resuming coroutines whose wake-up time has passed."""
    run.rule(rid, "the timer-promotion loops of check_ready are left only when the heap is empty or its head is not yet due", floor=2, template="T7/T2 (exit edges, path by path)")
    b = unit(run, rid, f, SCHED + "::check_ready")
    if b is None:
        return
    cfg = Cfg(b)
    du = DefUse(b)
    peeks = [(x, t) for (x, t) in b.calls() if norm(t.get("callee") or "").endswith("BinaryHeap::peek")]
    if len(peeks) < 2:
        run.fail(rid, "check_ready/loops", b.loc(), "expected the two promotion loops over the suspend heaps (peek) in check_ready, found %d" % len(peeks))
        return
    loops = cfg.natural_loops()
    from rules.C07 import ret_variant
    for k, (pb, pt) in enumerate(peeks):
        L = None
        for h, blocks in loops.items():
            if pb in blocks and (L is None or len(blocks) < len(L)):
                L = blocks
        key = "check_ready/loop#%d-exits" % k
        if L is None:
            run.fail(rid, key, b.loc(pt["line"]), "the heap is peeked outside a loop: at most one due timer is promoted per pass")
            continue
        w = PathWalker(b)
        n_ex = bad = 0
        # one round of the loop: from the peek to leaving the loop / re-entering the peek
        for start in cfg.after(pb):
            for (pth, conds, sv) in w.walk(start, lambda bid, t: ("again",) if bid == pb else (("left",) if bid not in L else None)):
                if sv[0] != "left":
                    continue
                n_ex += 1
                full = [pb] + list(pth)
                oc, feas = result_outcomes(b, du, full)
                if not feas:
                    continue
                if oc.get(pb) == "err":
                    continue                      # peek() was None: the heap is empty
                # not yet due: the path took the `now() < timestamp` side of a comparison between now() and a timestamp field
                notdue = False
                for cd in conds:
                    if cd[0] == "bool" and isinstance(cd[1], tuple) and cd[1] and cd[1][0] == "cmp" and cd[1][1] in ("Lt", "Le"):
                        a, c = cd[1][2], cd[1][3]
                        now_a = isinstance(a, tuple) and a[0] == "call" and a[1] == "common::now"
                        now_c = isinstance(c, tuple) and c[0] == "call" and c[1] == "common::now"
                        if now_a and not now_c and cd[2] is True:
                            notdue = True         # now <(=) ts holds
                        if now_c and not now_a and cd[2] is False:
                            notdue = True         # ts <(=) now fails
                if notdue:
                    continue
                # a failure exit: the function returns Err right after leaving
                tail = cfg.reachable({pth[-1]})
                if all(b.blocks[r]["term"]["k"] != "return" for r in tail):
                    continue
                rest = [(p2, s2) for (p2, _c2, s2) in PathWalker(b).walk(pth[-1], lambda bid, t: ("return",) if t["k"] == "return" else None) if s2[0] == "return"]
                if rest and all(ret_variant(b, full + list(p2)[1:]) == "Err" for (p2, _s) in rest):
                    continue
                bad += 1
        if not run.paths(rid, key, b.loc(pt["line"]), n_ex):
            continue
        if bad:
            run.fail(rid, key, b.loc(pt["line"]), "a promotion loop of check_ready can be left although its heap is not empty and its head is due (%d exit path(s)): timers behind that entry stay in the heap, and their coroutines are not resumed by the first pass after their wake-up time" % bad)
        else:
            run.ok(rid, key, {"exit_paths": n_ex})


# ------------------------------------------------------------------ C02: only the joiner takes a result away
def results_deleters_rule(run, f, rid):
    """A finished task's outcome waits in the pool's `results` map until its joiner takes it (try_take_task_result, also
    through clean_task_result when the handle is dropped).  Nothing else may delete from that map: a clean-up that clears it
    (say, when the pool stops) throws away the outcome of every task that finished but was not joined yet, and the later
    join times out instead of returning the task's own result."""
    from analysis.atomics import receiver_key
    from rules.common import uncovered_roots
    run.rule(rid, "entries leave the pool's results map only through the joiner's take", floor=1, template="T9 (who-may-delete)")
    DEL = ("::clear", "::retain", "::remove", "::remove_if", "::drain", "::alter", "::alter_all", "::shrink_to_fit")
    allowed = {POOL + "::try_take_task_result"}
    offenders, seen = [], 0
    for b in f.bodies:
        if b.kind == "Promoted":
            continue
        du = None
        for (x, t) in b.calls():
            c = norm(t.get("callee") or "")
            if not (c.startswith("dashmap::DashMap::") and c.endswith(DEL)) or not t["args"]:
                continue
            du = du or DefUse(b)
            if (field_chain(b, du, t["args"][0]) or [""])[-1] != "results":
                continue
            k = receiver_key(b, du, t["args"][0])
            if k and k[0] != POOL:
                continue
            seen += 1
            host = b.npath.split("::{closure#", 1)[0]
            if host not in allowed and uncovered_roots(f, host, allowed):
                offenders.append("%s (%s)" % (host.rsplit("::", 1)[-1], c.rsplit("::", 1)[1]))
    if need(run, rid, f, POOL + "::try_take_task_result") is None:
        return
    if seen == 0:
        run.fail(rid, "results/deleters", "core/src/co_pool/mod.rs", "no take from the results map found at all (a joiner can never obtain a result)")
    elif offenders:
        run.fail(rid, "results/deleters", "core/src/co_pool/mod.rs", "results are deleted outside the joiner's take: %s; a task that finished but was not joined yet loses its outcome, and its join times out" % sorted(set(offenders)))
    else:
        run.ok(rid, "results/deleters", {"deleting_sites": seen})


# ------------------------------------------------------------------ C14: now() is the clock absolute deadlines are given in
def now_is_realtime_rule(run, f, rid):
    """Relative waits only compare now() with now()+d, so any clock would do for them.  pthread_cond_timedwait gets an ABSOLUTE
    CLOCK_REALTIME deadline from its caller and subtracts now() from it: that is only meaningful while now() is the wall clock
    (time since UNIX_EPOCH).  With a monotonic now() the remaining time never reaches zero and the call never times out."""
    run.rule(rid, "common::now() is wall-clock time since UNIX_EPOCH, the clock caller-supplied absolute deadlines are expressed in", floor=1, template="T5 (provenance)")
    b = unit(run, rid, f, "common::now")
    if b is None:
        return
    du = DefUse(b)
    sl = backward(b, 0, du, through_calls="all")
    cs = {norm(t.get("callee") or "") for (_x, t) in sl.calls}
    wall = any(c.endswith("SystemTime::now") for c in cs) and any(c.endswith("SystemTime::duration_since") for c in cs)
    epoch = "UNIX_EPOCH" in repr([c for c in sl.consts]) or any("UNIX_EPOCH" in repr(describe_val(b, du, a)) for (_x, t) in b.calls() if norm(t.get("callee") or "").endswith("duration_since") for a in t["args"])
    mono = sorted(c for c in cs if "Instant" in c)
    # is there a consumer that subtracts now() from a caller-supplied absolute time?  (today: pthread_cond_timedwait)
    consumers = []
    for ob in f.bodies:
        if ob.kind != "AssocFn" or "pthread_cond_timedwait" not in ob.npath or "::Nio" not in ob.npath:
            continue
        if any(norm(t.get("callee") or "") == "common::now" for c2 in family(f, ob) for (_x, t) in c2.calls()):
            consumers.append(ob.npath.rsplit("::", 1)[1])
    if wall and epoch and not mono:
        run.ok(rid, "common::now/clock", {"clock": "SystemTime since UNIX_EPOCH", "absolute-deadline consumers": consumers})
    elif not consumers:
        run.ok(rid, "common::now/clock", {"clock": "not wall clock, but no consumer subtracts now() from a caller's absolute deadline"})
    else:
        run.fail(rid, "common::now/clock", b.loc(), "now() is not wall-clock time since UNIX_EPOCH (sources: %s) while %s subtracts it from the caller's CLOCK_REALTIME deadline: the remaining time never reaches zero and the timed wait never returns ETIMEDOUT" % (sorted(c.rsplit("::", 2)[-2] + "::" + c.rsplit("::", 1)[-1] for c in cs if "time" in c.lower() or "Instant" in c), consumers))


# ------------------------------------------------------------------ C09/C07/C08: nothing ends the coroutine between the request push and the yield
SUS = "coroutine::suspender::korosensei::Suspender"


def _diverging(b):
    """Blocks whose terminator is a call that never returns (panic!/assert!/unreachable!/abort ...): an exit of the unit
    that is not a return."""
    return [x for (x, t) in b.calls() if t.get("target") is None]


def no_exit_before_yield_rule(run, f, rid):
    """until_with / cancel push the request on the thread-local queue and then yield; the queue is drained only by the resume
    that sees a Yield (never by a Return).  If control can leave the coroutine's body between the push and the context
    switch by anything but that switch -- a return, or a panic!/assert! caught by the coroutine's catch and turned into a
    Return -- the request stays queued and is attributed to the next yield on the thread.  So with suspend_with (and every
    helper the rules do not name) spliced into the pusher, every path from the push to an exit of the unit -- a return OR a
    call that does not return -- passes the context switch (Yielder::suspend)."""
    run.rule(rid, "from the request push, every path to a return or to a non-returning call (panic!/assert!) passes the context switch", floor=2, template="T1 (must-pass, panics as exits)")
    for fn in (SUS + "::until_with", SUS + "::cancel"):
        b = unit(run, rid, f, fn, force={"suspend_with"})
        if b is None:
            continue
        cfg = Cfg(b)
        push = find_calls(b, callee_is("std::collections::VecDeque::push_front", "std::collections::VecDeque::push_back"))
        sw = [x for (x, t) in b.calls() if norm(t.get("callee") or "").endswith("Yielder::suspend")]
        nm = fn.rsplit("::", 1)[1]
        if len(push) != 1 or not sw:
            run.fail(rid, nm + "/no-exit-before-yield", b.loc(), "%s: expected one request push and the context switch in the unit (found %d / %d)" % (nm, len(push), len(sw)))
            continue
        div = [x for x in _diverging(b) if x in cfg.reach]
        ok, wit = cfg.must_pass(cfg.after(push[0][0]), sw, exits=set(cfg.returns) | set(div))
        if ok:
            run.ok(rid, nm + "/no-exit-before-yield", {"switch_sites": len(sw), "non_returning_calls_in_unit": len(div)})
        else:
            t = b.blocks[wit]["term"]
            what = "returns" if t["k"] == "return" else "can end in %s (line %s)" % (norm(t.get("callee") or "a non-returning call"), t.get("line"))
            run.fail(rid, nm + "/no-exit-before-yield", b.loc(t.get("line")), "%s %s after pushing its request and before the context switch: the coroutine then ends with a Return, which does not drain the queue, and the request is attributed to the next yield on the thread" % (nm, what))


# ------------------------------------------------------------------ C19: who writes the per-descriptor limit tables
LIMIT_TABLES = ("syscall::unix::SEND_TIME_LIMIT", "syscall::unix::RECV_TIME_LIMIT")
LIMIT_WRITERS = {
    # function -> operations it may perform, and why the value it writes is that descriptor's own
    "syscall::unix::send_time_limit": {"insert", "entry"},       # lazy fill: getsockopt(fd) of the same fd
    "syscall::unix::recv_time_limit": {"insert", "entry"},
    "<syscall::unix::setsockopt::NioSetsockoptSyscall as syscall::unix::setsockopt::SetsockoptSyscall>::setsockopt": {"insert"},   # the value just set on fd
    "<syscall::unix::close::NioCloseSyscall as syscall::unix::close::CloseSyscall>::close": {"remove"},                             # fd is gone
}


def limit_writers_rule(run, f, rid):
    """The cached limit of a descriptor is a copy of what the kernel holds for THAT descriptor.  It is written by the lazy
    fill (getsockopt on the same fd), by setsockopt (the value just set on the fd) and dropped by close; any other writer
    -- an entry pre-filled for one descriptor from what is known about another, a bulk update -- puts a value there that
    the kernel never held for it.  Writers found through a helper count for the functions the helper is entered from."""
    from rules.common import owners, refers_to_static, callers_map
    run.rule(rid, "the per-descriptor limit tables are written only by the lazy fill, by setsockopt and by close", floor=2, template="T9 (who-may-write)")
    MUT = ("insert", "remove", "clear", "retain", "alter", "alter_all", "entry", "get_mut", "iter_mut", "remove_if", "shrink_to_fit")
    for tbl in LIMIT_TABLES:
        got = {}
        for b in f.bodies:
            if b.kind == "Promoted":
                continue
            du = None
            for (x, t) in b.calls():
                c = norm(t.get("callee") or "")
                if c.startswith("dashmap::DashMap::") and c.rsplit("::", 1)[1] in MUT and t["args"]:
                    du = du or DefUse(b)
                    if refers_to_static(f, b, du, t["args"][0], tbl):
                        got.setdefault(norm(b.npath.split("::{closure#", 1)[0]), set()).add(c.rsplit("::", 1)[1])
        bad = {}
        for fn, ops in got.items():
            if fn in LIMIT_WRITERS:
                if not ops <= LIMIT_WRITERS[fn]:
                    bad[fn] = sorted(ops - LIMIT_WRITERS[fn])
                continue
            own = owners(f, fn, set(LIMIT_WRITERS))
            if own and all(ops <= LIMIT_WRITERS[o] for o in own):
                continue
            roots = sorted(callers_map(f).get(fn, set()))[:3]
            bad[fn] = sorted(ops) + ["entered from " + ", ".join(r.rsplit("::", 1)[-1] for r in roots)] if roots else sorted(ops)
        key = tbl.rsplit("::", 1)[1] + "/writers"
        if not got:
            run.fail(rid, key, "core/src/syscall/unix/mod.rs", "no writer of %s found: the rule has nothing to judge" % tbl)
        elif bad:
            run.fail(rid, key, "core/src/syscall/unix/mod.rs", "%s is written outside the lazy fill / setsockopt / close: %s -- the entry of a descriptor then holds a value the kernel never held for it" % (tbl.rsplit("::", 1)[1], bad))
        else:
            run.ok(rid, key, {k.rsplit("::", 1)[-1]: sorted(v) for k, v in got.items()})


# ------------------------------------------------------------------ C26: a published name is never re-bound
BEANS = "common::beans::BeanFactory"
BEAN_MAP_OPS = {
    # publish only if absent
    "dashmap::VacantEntry::insert": "publish", "dashmap::VacantEntry::insert_entry": "publish", "dashmap::Entry::or_insert_with": "publish",
    "dashmap::Entry::or_insert": "publish", "dashmap::Entry::or_default": "publish", "dashmap::Entry::or_try_insert_with": "publish",
    # look at / take out
    "dashmap::DashMap::entry": "read", "dashmap::DashMap::get": "read", "dashmap::DashMap::get_mut": "read", "dashmap::DashMap::contains_key": "read",
    "dashmap::DashMap::remove": "remove", "dashmap::DashMap::len": "read", "dashmap::DashMap::is_empty": "read", "dashmap::DashMap::new": "read",
    "dashmap::DashMap::default": "read", "dashmap::Entry::key": "read", "dashmap::OccupiedEntry::get": "read", "dashmap::OccupiedEntry::key": "read",
    "dashmap::DashMap::iter": "read", "dashmap::DashMap::try_get": "read", "dashmap::DashMap::view": "read", "dashmap::DashMap::capacity": "read",
    "dashmap::DashMap::with_capacity": "read", "dashmap::DashMap::hasher": "read", "dashmap::DashMap::try_entry": "read", "dashmap::VacantEntry::key": "read",
    "dashmap::VacantEntry::into_key": "read", "dashmap::DashMap::remove_if": "remove", "dashmap::OccupiedEntry::remove": "remove",
    "dashmap::OccupiedEntry::remove_entry": "remove", "dashmap::DashMap::clear": "remove",
    # replace the value of a name that is already published
    "dashmap::DashMap::insert": "rebind", "dashmap::OccupiedEntry::insert": "rebind", "dashmap::OccupiedEntry::replace_entry": "rebind",
    "dashmap::Entry::insert": "rebind", "dashmap::Entry::insert_entry": "rebind", "dashmap::Entry::and_modify": "rebind", "dashmap::DashMap::alter": "rebind",
    "dashmap::DashMap::alter_all": "rebind", "dashmap::DashMap::iter_mut": "rebind", "dashmap::OccupiedEntry::get_mut": "rebind",
    "dashmap::OccupiedEntry::into_ref": "rebind", "dashmap::DashMap::retain": "rebind",
}


def no_rebind_rule(run, f, rid):
    """One instance per name process-wide: once a name is published, users hold references to that object for good.  The bean
    map may therefore publish a name only if it is absent (vacant-entry insert / or_insert_with); an operation that
    replaces the value of an occupied name leaves earlier users on the old object and later ones on the new."""
    run.rule(rid, "the bean map is written only by publish-if-absent operations (and remove); nothing replaces the value of a published name", floor=4, template="T9 (modelled operation table, fail closed)")
    n = 0
    for b in f.bodies:
        if b.kind == "Promoted" or not b.npath.startswith(BEANS + "::"):
            continue
        for (x, t) in b.calls():
            c = norm(t.get("callee") or "")
            kind = None
            if c.startswith("dashmap::"):
                kind = BEAN_MAP_OPS.get(c, "unknown")
            elif "RefMut as std::ops::DerefMut" in c or "RefMut as core::ops::DerefMut" in c:
                kind = "rebind"
            if kind is None:
                continue
            n += 1
            key = norm(b.npath.split("::{closure#", 1)[0]).rsplit("::", 1)[1] + "/" + c.rsplit("::", 2)[-2] + "::" + c.rsplit("::", 1)[-1]
            if kind == "rebind":
                run.fail(rid, key, b.loc(t.get("line")), "%s replaces the value stored under a name that may already be published (%s): earlier users keep the old object, later lookups get the new one -- two instances of one named bean" % (b.npath.rsplit("::", 1)[1].split("::{")[0], c))
            elif kind == "unknown":
                run.fail(rid, key, b.loc(t.get("line")), "%s is not in the table of bean-map operations the rule models; classify it (publish-if-absent / read / remove / rebind)" % c)
            else:
                run.ok(rid, key, kind)
    if not n:
        run.fail(rid, "no-map-operation", "core/src/common/beans.rs", "no operation on the bean map found: the rule has nothing to judge")


# ------------------------------------------------------------------ C24: with a current coroutine the handler always redirects
def always_redirects_rule(run, f, rid):
    """A fault the handler returns from without rewriting the context is re-executed: the same instruction faults again,
    for ever (the thread hangs in a signal storm) or, with the default action restored, the process dies.  So the only way
    out of the handler without the redirect is "no coroutine is current on this thread": every path from the entry to a
    return passes the redirect or the None arm of current().  A filter in front of it (signal code, address range, fault
    kind) takes some faults of a coroutine away from that path."""
    from analysis.flow import variant_arms
    run.rule(rid, "every path through the trap handler passes the redirect, unless no coroutine is current", floor=1, template="T1 (must-pass)")
    h = need(run, rid, f, CO + "::trap_handler")
    if h is None:
        return
    cfg = Cfg(h)
    du = DefUse(h)
    cur = find_calls(h, callee_is(CO + "::current"))
    red = [x for (x, t) in h.calls() if (t.get("callee") is None and t.get("fnptr") is not None) or norm(t.get("callee") or "").endswith("::setup_trap_handler")]
    if len(cur) != 1 or not red:
        run.fail(rid, "trap_handler/always-redirects", h.loc(), "expected one current() test and the redirect in the handler (found %d / %d)" % (len(cur), len(red)))
        return
    va = variant_arms(h, cfg, du, cur[0][1]["dest"]["l"], cfg.after(cur[0][0]))
    none_arm = va[0].get("None") if va else None
    through = set(red) | ({none_arm} if none_arm is not None else set())
    ok, wit = cfg.must_pass([0], through)
    if ok:
        run.ok(rid, "trap_handler/always-redirects", {"redirect_sites": len(red)})
    else:
        p = cfg.path(0, {wit}, avoid=through) or []
        line = next((h.blocks[x]["term"].get("line") for x in reversed(p[:-1]) if h.blocks[x]["term"]["k"] == "switch"), None)
        run.fail(rid, "trap_handler/always-redirects", h.loc(line), "the trap handler can return without redirecting although a coroutine may be current (a test near line %s leaves early): that fault is re-executed for ever instead of ending the coroutine with an error" % line)


# ------------------------------------------------------------------ C21: the inner (de)registration always reaches the OS
SEL = "net::selector::Selector"


def inner_reaches_os_rule(run, f, rid):
    """register / reregister / deregister are what add_*_event / del_*_event call AFTER they decided, from the interest
    records, that the OS registration must change.  They themselves must not second-guess that from another table
    (TOKEN_FD is dropped per token, so it says nothing about what the poller holds for the descriptor): every path through
    them passes the poller call do_register / do_reregister / do_deregister."""
    run.rule(rid, "Selector::register / reregister / deregister pass the poller call on every path", floor=3, template="T1 (must-pass)")
    for nm in ("register", "reregister", "deregister"):
        if f.body(SEL + "::" + nm) is None:
            # the three-line function was inlined into add_*/del_*_event: there is no separate step left that could
            # second-guess the caller's decision; the caller's own logic is judged by C21's record rules
            run.ok(rid, nm + "/reaches-os", "inlined into its caller")
            continue
        b = unit(run, rid, f, SEL + "::" + nm)
        if b is None:
            continue
        cfg = Cfg(b)
        os_ = [x for (x, t) in b.calls() if norm(t.get("orig") or t.get("callee") or "").endswith("::do_" + nm)]
        if not os_:
            run.fail(rid, nm + "/reaches-os", b.loc(), "%s no longer calls do_%s" % (nm, nm))
            continue
        ok, wit = cfg.must_pass([0], os_)
        if ok:
            run.ok(rid, nm + "/reaches-os", "every path passes do_%s" % nm)
        else:
            run.fail(rid, nm + "/reaches-os", b.loc(), "%s can return without calling do_%s: the records then say the descriptor is (de)registered while the poller was never told" % (nm, nm))


# ------------------------------------------------------------------ C23: the hook runs the user callback only through maybe_grow_with
def callback_only_via_grow_rule(run, fh, rid):
    """The exported maybe_grow_stack exists to run `f(param)` with room to spare.  The only place it may call the user's
    function pointer is the callback it hands to maybe_grow_with; a call anywhere else (a fallback when no segment could be
    allocated, a fast path) runs the callback on whatever is left of the current stack."""
    run.rule(rid, "hook::maybe_grow_stack calls the user function only inside the callback it passes to maybe_grow_with", floor=1, template="T9 (who-may-call)")
    b = need(run, rid, fh, "maybe_grow_stack")
    if b is None:
        return
    du = DefUse(b)
    mg = [(x, t) for (x, t) in b.calls() if norm(t.get("callee") or "").endswith("Coroutine::maybe_grow_with")]
    cbs = set()
    for (x, t) in mg:
        for a in t["args"]:
            d = describe_val(b, du, a)
            if d and d[0] == "closure":
                cbs.add(d[1])
    bodies = [b]
    work = list(fh.closures_of(b))
    while work:
        c = work.pop()
        bodies.append(c)
        work.extend(fh.closures_of(c))
    bad, good = [], 0
    for body in bodies:
        for (x, t) in body.calls():
            if t.get("callee") is None and t.get("fnptr") is not None:
                if body is not b and body.npath in cbs:
                    good += 1
                else:
                    bad.append(t.get("line"))
    if len(mg) != 1 or not cbs or not good:
        run.fail(rid, "maybe_grow_stack/callback-only-via-grow", b.loc(), "expected one maybe_grow_with call whose callback calls the user function (found %d call(s), %d callback(s), %d call(s) of the function pointer inside)" % (len(mg), len(cbs), good))
    elif bad:
        run.fail(rid, "maybe_grow_stack/callback-only-via-grow", b.loc(bad[0]), "the user function is also called outside the callback handed to maybe_grow_with (line %s): on that path it runs on the current stack, without the room that was asked for" % bad[0])
    else:
        run.ok(rid, "maybe_grow_stack/callback-only-via-grow", {"callbacks": sorted(cbs)})


# ------------------------------------------------------------------ C25: get / get_mut read the map on every path
LOCAL = "coroutine::local::CoroutineLocal"
LOOP = "net::event_loop::EventLoop"


def local_get_consults_map_rule(run, f, rid):
    """`get` returns the value most recently put under the key.  put/remove change the map; an answer taken from anywhere
    else (a last-lookup cache, a copy) is only right until the next put, and then points at a freed box."""
    run.rule(rid, "CoroutineLocal::get / get_mut look the key up in the map on every path", floor=2, template="T1 (must-pass, path by path)")
    for nm in ("get", "get_mut"):
        b = unit(run, rid, f, LOCAL + "::" + nm)
        if b is None:
            continue
        look = {x for (x, t) in b.calls() if norm(t.get("callee") or "") in ("dashmap::DashMap::get", "dashmap::DashMap::get_mut", "dashmap::DashMap::entry")}
        n_ex = bad = 0
        for (pth, _c, sv) in PathWalker(b).walk(0, lambda bid, t: ("return",) if t["k"] == "return" else None):
            if sv[0] != "return":
                continue
            n_ex += 1
            if not any(x in look for x in pth):
                bad += 1
        if not run.paths(rid, nm + "/consults-map", b.loc(), n_ex):
            continue
        if bad:
            run.fail(rid, nm + "/consults-map", b.loc(), "CoroutineLocal::%s can answer without looking the key up in the map (%d path(s)): after a put() of the same key it returns the previous, already freed value" % (nm, bad))
        else:
            run.ok(rid, nm + "/consults-map", {"paths": n_ex})


# ------------------------------------------------------------------ C20: the event buffer polled into is fresh
def fresh_events_rule(run, f, rid):
    """Selector::select returns Ok WITHOUT touching the buffer when another thread is polling the same selector.  wait_just
    then resumes whatever tokens the buffer holds: they must be none, so the buffer handed to select is created in this
    very call (or cleared).  A buffer kept across calls replays the previous poll's events and resumes coroutines that now
    wait for something else."""
    from analysis.table import value_on_path
    run.rule(rid, "the Events buffer wait_just polls into is created (or cleared) in the same call on every path", floor=1, template="T5 (provenance along each path)")
    b = unit(run, rid, f, LOOP + "::wait_just")
    if b is None:
        return
    du = DefUse(b)
    sel = [(x, t) for (x, t) in b.calls() if norm(t.get("orig") or t.get("callee") or "").endswith("Selector::select") or norm(t.get("callee") or "").endswith("selector::Selector::select")]
    if len(sel) != 1:
        run.fail(rid, "wait_just/fresh-events", b.loc(), "expected one Selector::select call in wait_just (found %d)" % len(sel))
        return
    sx, stt = sel[0]
    # the buffer: the local the `&mut events` argument borrows
    root = None
    for a in stt["args"][1:]:
        l = a.get("p", {}).get("l")
        for _ in range(6):        # `&mut *tmp`, `tmp = &mut events` (two-phase borrow): follow reborrows to the owned local
            nxt = None
            for (_b, _i, kind, s_) in du.defs.get(l, []):
                if kind == "assign" and s_["rhs"]["k"] == "ref":
                    pr = s_["rhs"]["p"]
                    if not pr["proj"]:
                        root = pr["l"]
                    elif pr["proj"] == ["deref"]:
                        nxt = pr["l"]
            if root is not None or nxt is None:
                break
            l = nxt
        if root is not None:
            break
    if root is None:
        run.fail(rid, "wait_just/fresh-events", b.loc(stt.get("line")), "the buffer passed to select could not be identified")
        return
    tls = [s_ for blk in b.blocks for s_ in blk["stmts"] if s_["k"] == "assign" and s_["rhs"]["k"] == "tlsref"]
    n_ex = bad = 0
    for (pth, _c, sv) in PathWalker(b).walk(0, lambda bid, t: ("select",) if bid == sx else None):
        if sv[0] != "select":
            continue
        n_ex += 1
        v = value_on_path(b, pth, local=root)
        fresh = bool(v) and v[0] == "call" and norm(v[1] or "").endswith(("Events::with_capacity", "Events::new"))
        cleared = any(norm(b.blocks[x]["term"].get("callee") or "").endswith("Events::clear") for x in pth if b.blocks[x]["term"]["k"] == "call")
        if not (fresh or cleared):
            bad += 1
    if not run.paths(rid, "wait_just/fresh-events", b.loc(), n_ex):
        return
    if bad:
        run.fail(rid, "wait_just/fresh-events", b.loc(stt.get("line")), "on %d path(s) the buffer handed to select is not created in this call%s: when select returns without polling (another thread is in it) the events of an earlier poll are replayed and resume coroutines that wait for something else" % (bad, " (it comes from thread-local state)" if tls else ""))
    else:
        run.ok(rid, "wait_just/fresh-events", {"paths": n_ex})


# ------------------------------------------------------------------ C22: the monitor re-examines its nodes at a fixed short cadence
MON = "monitor::Monitor"


def monitor_park_rule(run, f, rid):
    """A SIGURG that lands while its target may not be preempted (system-call state, a nested coroutine) is ignored by the
    handler; the node stays overdue and the monitor signals again on its next pass.  "Its next pass" must therefore come
    within a fixed short time whatever the deadlines are: the park of monitor_thread_main is a compile-time constant of at
    most one slice.  A park computed from the nearest deadline skips the retries (overdue nodes do not shorten it)."""
    run.rule(rid, "the monitor thread parks for a constant of at most 10 ms between passes", floor=1, template="T5 (constant provenance)")
    b = unit(run, rid, f, MON + "::monitor_thread_main")
    if b is None:
        return
    du = DefUse(b)
    bl = [(x, t) for (x, t) in b.calls() if norm(t.get("callee") or "").endswith("CondvarBlocker::block") or norm(t.get("callee") or "") in ("std::thread::sleep", "std::thread::park_timeout")]
    if not bl:
        run.fail(rid, "monitor_thread_main/park", b.loc(), "the monitor loop has no park between passes (expected CondvarBlocker::block)")
        return
    for (x, t) in bl:
        d = describe_val(b, du, t["args"][-1])
        from rules.common import const_duration_ns
        ns = const_duration_ns(b, du, t["args"][-1])
        ok = ns is not None and 0 < ns <= 10 * 10**6
        if ok:
            run.ok(rid, "monitor_thread_main/park", {"nanoseconds": ns})
        else:
            run.fail(rid, "monitor_thread_main/park", b.loc(t.get("line")), "the monitor thread parks for %s, which is not a constant of at most 10 ms: a coroutine whose first signal was ignored (system-call state, nested coroutine) is not signalled again in time, or ever" % (repr(d)[:160],))


# ------------------------------------------------------------------ C18: the wrappers change the mode only through the two calls the pairing rule follows
def mode_writers_rule(run, f, rid):
    """C18-RESTORE pairs `set_non_blocking(fd)` (only when the caller had the descriptor blocking) with `set_blocking(fd)` on
    every return, by name.  That pairing covers the property only if nothing else in a wrapper changes the mode: any other
    function that reaches fcntl(F_SETFL) -- a re-arm after the wait, a helper that flips the flag -- writes the mode outside
    the pairing, and a call that did not switch it on itself will not switch it off."""
    from rules import nio
    from rules.common import callers_map
    run.rule(rid, "inside a wrapper the descriptor's mode is written only by set_non_blocking / set_blocking (the calls the restore pairing follows)", floor=17, template="T9 (who-may-write, transitive)")
    # functions that reach fcntl(fd, F_SETFL, ..)
    base = set()
    for b in f.bodies:
        if b.kind == "Promoted":
            continue
        for (x, t) in b.calls():
            c = norm(t.get("callee") or "")
            if (c == "libc::fcntl" or c.endswith("::fcntl")) and len(t["args"]) >= 2 and str(op_const(t["args"][1])) == "4":
                base.add(norm(b.npath.split("::{closure#", 1)[0]))
    if not base:
        run.fail(rid, "no-mode-writer", "core/src/syscall/unix/mod.rs", "no function calling fcntl(fd, F_SETFL, ..) found: the rule has nothing to judge")
        return
    cm = callers_map(f)
    W, work = set(base), list(base)
    while work:
        x = work.pop()
        for c in cm.get(x, ()):
            c = norm(c.split("::{closure#", 1)[0])
            if c not in W and c.startswith("syscall::unix::") and "::Nio" not in c and not c.startswith("<"):
                W.add(c)
                work.append(c)
    MODELLED = {"syscall::unix::set_non_blocking", "syscall::unix::set_blocking"}
    for nm, b in sorted(nio.nio_bodies(f).items()):
        ub = nio.unit(b)
        other = sorted({norm(t.get("callee") or "") for (_x, t) in ub.calls() if norm(t.get("callee") or "") in W - MODELLED}
                       | ({"fcntl(F_SETFL)"} if any((norm(t.get("callee") or "") == "libc::fcntl") and len(t["args"]) >= 2 and str(op_const(t["args"][1])) == "4" for (_x, t) in ub.calls()) else set()))
        if other:
            run.fail(rid, b.npath + "/mode-writers", b.loc(), "%s also changes the descriptor's mode through %s, outside the set_non_blocking/set_blocking pairing: a call that did not switch the mode itself leaves it switched" % (nm, [o.rsplit("::", 1)[-1] for o in other]))
        else:
            run.ok(rid, b.npath + "/mode-writers", "only set_non_blocking / set_blocking")


# ------------------------------------------------------------------ C24/C08/C09: the dead coroutine's suspender is popped on every way out
def suspender_popped_rule(run, f, rid):
    """The coroutine's body runs between Suspender::init_current(&suspender) and clean_current().  Whatever ends the body
    must pop: a return, an UNWIND (panic in the body) and the trap handler's redirect (the body is abandoned, nothing is
    unwound).  Otherwise the dead coroutine's suspender stays the thread's current one: outside any coroutine
    Suspender::current() is a dangling reference, and a coroutine that ran the dead one as a helper yields through it."""
    run.rule(rid, "the suspender pushed for a coroutine body is popped on return, on unwind, and by the closure the trap handler redirects to", floor=2, template="T1 pairing incl. unwind exits")
    # (a) the body wrapper: the closure below Coroutine::new that calls init_current
    cands = [c for c in f.bodies if c.kind == "Closure" and c.npath.startswith(CO + "::new::{closure#") and any(norm(t.get("callee") or "").endswith("Suspender::init_current") for (_x, t) in c.calls())]
    if len(cands) != 1:
        run.fail(rid, "body/pops-on-every-exit", CO + "::new", "the closure of Coroutine::new that installs the suspender was not found (%d candidates)" % len(cands))
    else:
        b = inl(f, cands[0])
        cfg = Cfg(b, unwind=True)
        ini = [x for (x, t) in b.calls(include_cleanup=True) if norm(t.get("callee") or "").endswith("Suspender::init_current")]
        cln = [x for (x, t) in b.calls(include_cleanup=True) if norm(t.get("callee") or "").endswith("Suspender::clean_current")]
        # a guard: `drop(local)` where the local's type has a Drop impl that pops (the inliner splices such an impl on the
        # normal path only; on the unwind path the drop terminator itself is the pop)
        def pops_on_drop(ty):
            adt = f.nadts.get(norm(ty or "")) or {}
            d = adt.get("drop")
            for db in f.by_npath.get(norm(d), []) if d else []:
                if any(norm(t.get("callee") or "").endswith("Suspender::clean_current") for (_x, t) in inl(f, db).calls()):
                    return True
            return False
        for blk in b.blocks:
            t = blk["term"]
            if t["k"] == "drop" and not t["p"]["proj"]:
                lt = b.locals[t["p"]["l"]] if t["p"]["l"] < len(b.locals) else None
                lt = lt.get("ty") if isinstance(lt, dict) else lt
                if lt and pops_on_drop(lt):
                    cln.append(blk["id"])
        if len(ini) != 1 or not cln:
            run.fail(rid, "body/pops-on-every-exit", b.loc(), "expected one init_current and at least one clean_current in the body wrapper (found %d / %d)" % (len(ini), len(cln)))
        else:
            ok_r, _w = cfg.must_pass(cfg.after(ini[0]), cln, exits=set(cfg.returns))
            ok_u, _w2 = cfg.must_pass(cfg.after(ini[0]), cln, exits=set(cfg.resumes))
            if ok_r and ok_u and cfg.resumes:
                run.ok(rid, "body/pops-on-every-exit", {"clean_sites": len(cln), "unwind_exits": len(cfg.resumes)})
            else:
                run.fail(rid, "body/pops-on-every-exit", b.loc(), "the body wrapper can be left %s without popping its suspender: the thread's current suspender is then the dead coroutine's" % ("by unwinding (a panic in the body)" if ok_r else "by returning"))
    # (b) the trap redirect
    h = need(run, rid, f, CO + "::trap_handler")
    if h is None:
        return
    red = [b_ for b_ in f.bodies if b_.kind == "Closure" and any(norm(t.get("callee") or "").endswith("::setup_trap_handler") and any((describe_val(p_, DefUse(p_), a) or ("",))[0] == "closure" and describe_val(p_, DefUse(p_), a)[1] == b_.npath for a in t["args"]) for p_ in f.bodies if p_.npath == norm(b_.path.rsplit("::{closure#", 1)[0]) and p_.kind != "Promoted" for (_x, t) in p_.calls())]
    if len(red) != 1:
        run.fail(rid, "trap-redirect/pops", h.loc(), "the closure handed to setup_trap_handler was not found (%d candidates)" % len(red))
        return
    rb = inl(f, red[0])
    rcfg = Cfg(rb)
    cln = [x for (x, t) in rb.calls() if norm(t.get("callee") or "").endswith("Suspender::clean_current")]
    ok, _w = rcfg.must_pass([0], cln) if cln else (False, None)
    if not ok:
        # popped by the function that sets the redirect up (still in the handler, before the context is rewritten): the same pop
        par = [p_ for p_ in f.bodies if p_.npath == norm(red[0].path.rsplit("::{closure#", 1)[0]) and p_.kind != "Promoted"]
        if len(par) == 1:
            pb = inl(f, par[0])
            pcfg = Cfg(pb)
            pcl = [x for (x, t) in pb.calls() if norm(t.get("callee") or "").endswith("Suspender::clean_current")]
            pst = [x for (x, t) in pb.calls() if norm(t.get("callee") or "").endswith("::setup_trap_handler")]
            if pcl and pst:
                ok = pcfg.must_pass([0], pcl, exits=set(pst))[0]
    if ok:
        run.ok(rid, "trap-redirect/pops", "clean_current on every path of the redirect closure")
    else:
        run.fail(rid, "trap-redirect/pops", rb.loc(), "the closure the trap handler redirects to does not pop the faulting coroutine's suspender: the body is abandoned (not unwound), so nothing else will")


# ------------------------------------------------------------------ C24: a body that ends with an error inside a hooked call still ends with Error
def error_from_syscall_rule(run, f, rid):
    """state.rs lets only a Running coroutine become Error (the documented machine).  A panic or a memory fault INSIDE a
    hooked call finds the coroutine in Syscall(.., Executing): error() refuses, resume() returns Err, the coroutine never
    reaches a terminal state and a scheduler pass aborts.  So before error() the Return arm of raw_resume must leave the
    system call (running(): Syscall(Executing) -> Running): every path to error() passes running() or has established that
    the state is not Syscall(.., Executing)."""
    run.rule(rid, "in raw_resume every path to error() passes running() unless the state was found not to be Syscall(.., Executing)", floor=1, template="T2 (path by path)")
    b = unit(run, rid, f, CO + "::raw_resume")
    if b is None:
        return
    er = find_calls(b, callee_is(CO + "::error"))
    rs = find_calls(b, callee_is("corosensei::Coroutine::resume"))
    rn = {x for (x, t) in find_calls(b, callee_is(CO + "::running"))}
    if len(er) != 1 or len(rs) != 1:
        run.fail(rid, "raw_resume/error-from-syscall", b.loc(), "expected one inner resume and one error() call in raw_resume (found %d / %d)" % (len(rs), len(er)))
        return
    ex = er[0][0]
    n_ex = bad = 0
    cfg = Cfg(b)
    for start in cfg.after(rs[0][0]):
        for (pth, conds, sv) in PathWalker(b).walk(start, lambda bid, t: ("error",) if bid == ex else None):
            if sv[0] != "error":
                continue
            n_ex += 1
            if any(x in rn for x in pth):
                continue
            # however the test is spelled (match / if let / ==): what the path leaves possible for the state
            st_left = enum_facts(conds, ("Ready", "Running", "Suspend", "Syscall", "Cancelled", "Complete", "Error"))
            sy_left = enum_facts(conds, ("Executing", "Suspend", "Timeout", "Callback"))
            excluded = "Syscall" not in st_left or "Executing" not in sy_left
            if not excluded:
                bad += 1
    if not run.paths(rid, "raw_resume/error-from-syscall", b.loc(), n_ex):
        return
    if bad:
        run.fail(rid, "raw_resume/error-from-syscall", b.loc(er[0][1].get("line")), "on %d path(s) raw_resume calls error() for a body that ended with an error without leaving a system call first: when the panic or fault happened inside a hooked call (state Syscall(.., Executing)) error() refuses, resume() returns Err and the coroutine never becomes Error" % bad)
    else:
        run.ok(rid, "raw_resume/error-from-syscall", {"paths": n_ex})


# ------------------------------------------------------------------ C23: the fresh segment is at least as large as the red zone
def grow_size_rule(run, f, rid):
    """maybe_grow_with promises "the closure is guaranteed to run on a stack with at least `red_zone` bytes".  On the growth
    path the callback starts at the top of a fresh segment, so it has the segment's size: the size handed to
    DefaultStack::new must be bounded below by the red zone (`stack_size.max(red_zone)`), not `stack_size` alone -- with
    red_zone > stack_size the callback otherwise runs with less room than was asked for."""
    run.rule(rid, "every segment maybe_grow_with allocates has a size derived from max(stack_size, red_zone)", floor=2, template="T5 (provenance of the size)")
    b = unit(run, rid, f, CO + "::maybe_grow_with")
    if b is None:
        return
    du = DefUse(b)
    news = [(x, t) for (x, t) in b.calls() if norm(t.get("callee") or "").endswith("DefaultStack::new")]
    if not news:
        run.fail(rid, "maybe_grow_with/segment-size", b.loc(), "no DefaultStack::new in maybe_grow_with")
        return
    # `if red_zone > stack_size { red_zone } else { stack_size }`: the comparison is a control dependence of the value
    cmp_params = False
    for blk in b.blocks:
        for j, s_ in enumerate(blk["stmts"]):
            if s_["k"] == "assign" and s_["rhs"]["k"] == "binop" and s_["rhs"]["op"] in ("Lt", "Le", "Gt", "Ge"):
                # parameters by position (red_zone is the first, stack_size the second), not by name
                pa = set(backward(b, s_["rhs"]["a"], du, at=(blk["id"], j), through_calls="none").params)
                pb = set(backward(b, s_["rhs"]["b"], du, at=(blk["id"], j), through_calls="none").params)
                if (pa, pb) in (({1}, {2}), ({2}, {1})):
                    cmp_params = True
    for i, (x, t) in enumerate(news):
        sl = backward(b, t["args"][0], du, at=(x, "term"), through_calls="all")
        names = {b.name_of(p_) for p_ in sl.params}
        idxs = set(sl.params)
        maxed = any(norm(tt.get("orig") or tt.get("callee") or "").rsplit("::", 1)[-1] in ("max", "clamp") for (_y, tt) in sl.calls) or bool({"Lt", "Le", "Gt", "Ge"} & set(sl.binops())) or cmp_params
        key = "maybe_grow_with/segment-size/%d" % i
        if {1, 2} <= idxs and maxed:
            run.ok(rid, key, "max(stack_size, red_zone)")
        else:
            run.fail(rid, key, b.loc(t.get("line")), "the segment allocated for the callback has a size derived from %s only: with red_zone > stack_size the callback runs with less stack than the red zone it was promised" % (sorted(n for n in names if n) or "a constant"))


# ------------------------------------------------------------------ C19: the lazy fill asks the kernel for the matching option
def fill_option_rule(run, f, rid):
    """send_time_limit caches what getsockopt(fd, SOL_SOCKET, SO_SNDTIMEO) says, recv_time_limit what SO_RCVTIMEO says, each in
    its own table and about its own descriptor argument.  Judged on each function as one unit, so a shared helper taking the
    table and the option as arguments is read with the arguments the entry point passes."""
    run.rule(rid, "the lazy fill of each limit table reads the matching socket option of its own descriptor argument", floor=2, template="T5 (constants and provenance on the unit)")
    for fn, opt, optname, tbl in (("syscall::unix::send_time_limit", "21", "SO_SNDTIMEO", "syscall::unix::SEND_TIME_LIMIT"),
                                  ("syscall::unix::recv_time_limit", "20", "SO_RCVTIMEO", "syscall::unix::RECV_TIME_LIMIT")):
        b = unit(run, rid, f, fn)
        if b is None:
            continue
        du = DefUse(b)
        gs = [(x, t) for (x, t) in b.calls() if norm(t.get("callee") or "").endswith("::getsockopt") or norm(t.get("callee") or "") == "libc::getsockopt"]
        why = []
        if len(gs) != 1:
            why.append("expected one getsockopt call (found %d)" % len(gs))
        else:
            x, t = gs[0]

            def through_capture(d, depth=4):
                """a value read from a closure's environment (`(*env).i`, the closure spliced into the unit): what the
                closure was built with at that position"""
                while depth > 0 and isinstance(d, tuple) and d and d[0] == "proj":
                    depth -= 1
                    inner = d[1]
                    idx = None
                    while isinstance(inner, tuple) and inner and inner[0] == "proj":
                        m_ = [p_ for p_ in (inner[2] if isinstance(inner[2], (list, tuple)) else [inner[2]]) if isinstance(p_, str) and p_.startswith(".") and p_[1:].isdigit()]
                        idx = int(m_[-1][1:]) if m_ else idx
                        inner = inner[1]
                    if not (isinstance(inner, tuple) and inner and inner[0] == "closure" and idx is not None):
                        break
                    op = None
                    for blk in b.blocks:
                        for s_ in blk["stmts"]:
                            if s_["k"] == "assign" and s_["rhs"]["k"] == "agg" and norm(s_["rhs"].get("closure") or "") == inner[1] and idx < len(s_["rhs"]["ops"]):
                                op = s_["rhs"]["ops"][idx]
                    if op is None:
                        break
                    d = describe_val(b, du, op)
                    if isinstance(d, tuple) and d and d[0] == "ref":
                        d = d[1]
                return d
            lvl, name = through_capture(describe_val(b, du, t["args"][1])), through_capture(describe_val(b, du, t["args"][2]))
            if not (lvl and lvl[0] == "const" and str(lvl[1]) == "1"):
                why.append("the level is not SOL_SOCKET (%r)" % (lvl,))
            if not (name and name[0] == "const" and str(name[1]) == opt):
                why.append("the option read is %r, not %s (%s)" % (name, optname, opt))
            if set(backward(b, t["args"][0], du, at=(x, "term"), through_calls="none").params) != {1}:
                why.append("the descriptor asked about is not the function's own argument")
        from analysis.flow import static_of
        tabs = {static_of(b, du, tt["args"][0]) for (_y, tt) in b.calls() if norm(tt.get("callee") or "").startswith("dashmap::DashMap::") and tt["args"]} - {None}
        if tabs != {tbl}:
            why.append("the table used is %s, expected %s only" % (sorted(tabs), tbl.rsplit("::", 1)[1]))
        if why:
            run.fail(rid, fn.rsplit("::", 1)[1] + "/fill-option", b.loc(), "%s: %s" % (fn.rsplit("::", 1)[1], "; ".join(why)))
        else:
            run.ok(rid, fn.rsplit("::", 1)[1] + "/fill-option", "getsockopt(fd, SOL_SOCKET, %s) -> %s" % (optname, tbl.rsplit("::", 1)[1]))


# ------------------------------------------------------------------ C20: a readiness wait parks the coroutine where readiness looks for it
def wait_in_syscall_rule(run, f, rid):
    """Readiness (`EventLoop::resume(token)` -> `Scheduler::try_resume`) takes the waiter out of the scheduler's SYSCALL table.
    A coroutine gets there only when it yields in state Syscall(.., Suspend(t)).  wait_just marks that state only if the
    coroutine is already inside a hooked call (Syscall(.., Executing)); a coroutine that calls the public wait_*_event
    directly (state Running) yields through the same `until()` into the plain suspend heap, where try_resume does not look:
    it is woken by its timeout, not by the event.  Path by path: every path of wait_just to the yield passes the
    Syscall(.., Suspend) transition."""
    run.rule(rid, "every path of wait_just to the yield (Suspender::until) passes the transition to Syscall(.., Suspend(t))", floor=1, template="T2 (path by path)")
    b = unit(run, rid, f, LOOP + "::wait_just")
    if b is None:
        return
    un = [(x, t) for (x, t) in b.calls() if norm(t.get("callee") or "").endswith("Suspender::until") or norm(t.get("callee") or "").endswith("Suspender::until_with") or norm(t.get("callee") or "").endswith("Suspender::delay")]
    sy = {x for (x, t) in b.calls() if norm(t.get("callee") or "") == CO + "::syscall"}
    if not un:
        run.ok(rid, "wait_just/yield-in-syscall-state", "wait_just does not yield")
        return
    n_ex = bad = 0
    ux = un[0][0]
    for (pth, _c, sv) in PathWalker(b).walk(0, lambda bid, t: ("yield",) if bid == ux else None):
        if sv[0] != "yield":
            continue
        n_ex += 1
        if not any(x in sy for x in pth):
            bad += 1
    if not run.paths(rid, "wait_just/yield-in-syscall-state", b.loc(), n_ex):
        return
    if bad:
        run.fail(rid, "wait_just/until-outside-syscall", b.loc(un[0][1].get("line")), "wait_just yields (Suspender::until) on %d path(s) without having put the coroutine into Syscall(.., Suspend): a coroutine that waits through the public wait_read_event / wait_write_event outside a hooked call is parked in the plain suspend heap, readiness does not find it, and it is woken by its timeout instead of the event" % bad)
    else:
        run.ok(rid, "wait_just/yield-in-syscall-state", {"paths": n_ex})
