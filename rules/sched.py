"""Rule instances on Scheduler::{do_schedule, check_ready, try_resume, submit_raw_co} (C10, C11)."""
from analysis.facts import norm
from analysis.cfg import Cfg
from analysis.flow import DefUse, backward, find_calls, callee_is, callee_ends, op_local, op_const, bool_branch, variant_arms, static_of, field_chain
from analysis.linear import Linear
from analysis.table import describe_val, PathWalker
from rules.common import need, unit, inl, owners, refers_to_static

SCHED = "scheduler::Scheduler"
OLQ = "common::ordered_work_steal::OrderedLocalQueue"
CANCEL_CO = "scheduler::CANCEL_COROUTINES"
CORO = "coroutine::korosensei::Coroutine"


def _sink(c, t):
    if c in (OLQ + "::push", "std::collections::BinaryHeap::push", "dashmap::DashMap::insert"):
        return "consume"
    return None


def _walk(b):
    def src(c, t):
        # containers of coroutines only (the syscall_suspend heap holds (timestamp, id) pairs)
        return c in (OLQ + "::pop", "dashmap::DashMap::remove", "std::collections::BinaryHeap::pop") and "korosensei::Coroutine<" in b.locals[t["dest"]["l"]]
    lw = Linear(b, [], src, _sink, ret_is_sink=False,
                transparent=lambda c, t: False, watch=lambda adt: adt.endswith("constants::CoroutineState"))
    lw.run()
    return lw


def linear_rule(run, f, rid, drop_rid=None):
    run.rule(rid, "a coroutine taken from a scheduler container is re-queued, parked, or dropped only after a terminal/cancelled outcome of resume()", floor=3, template="T1 (P3 linear walker)")
    if drop_rid:
        run.rule(drop_rid, "a worker coroutine leaves the scheduler only through a terminal transition (so the pool's listener sees it and `running` is decremented)", floor=1, template="T1")
    b = need(run, rid, f, SCHED + "::do_schedule")
    if b is not None:
        cfg = Cfg(b)
        lw = _walk(b)
        run.count("paths_or_states", lw.visited)
        res = find_calls(b, callee_is(CORO + "::resume"))
        bad, silent = [], []
        for e in lw.events:
            kind, bid, detail, ctx = e
            after_resume = res and cfg.dominates(res[0][0], bid)
            if kind == "dropped" and after_resume:
                # allowed: terminal arms, Cancelled, or the error-propagation path (no arm recorded)
                if ctx and not set(ctx) <= {"Cancelled", "Complete", "Error"} and not ctx == ("?",):
                    # the `_ => Err(..)` arm covers Ready/Running which resume() cannot return
                    if not set(ctx) <= {"Ready", "Running"}:
                        bad.append(e)
            elif kind == "dropped":
                silent.append(e)
            else:
                bad.append(e)
        if bad:
            run.fail(rid, "do_schedule/coroutine", b.loc(), "a popped coroutine can be lost in do_schedule: " + "; ".join("%s (arm %s)" % (e[2], e[3]) for e in bad[:3]))
        else:
            run.ok(rid, "do_schedule/coroutine", {"states": lw.visited, "drops_after_terminal": sum(1 for e in lw.events if e[0] == "dropped") - len(silent)})
        if drop_rid:
            if silent:
                run.fail(drop_rid, "scheduler::Scheduler::do_schedule/cancelled-dropped-without-transition", b.loc(b.blocks[silent[0][1]]["term"]["line"]),
                         "a coroutine found in CANCEL_COROUTINES is dropped in Ready/Suspend/Syscall state without any state transition: no listener fires, a pool's `running` stays high and stop() waits out its timeout")
            else:
                run.ok(drop_rid, "do_schedule/drops", "every drop follows resume()")
    for fn in (SCHED + "::check_ready", SCHED + "::try_resume"):
        b = need(run, rid, f, fn)
        if b is None:
            continue
        lw = _walk(b)
        run.count("paths_or_states", lw.visited)
        # dropping on the `?` error path of ready()/syscall() is error propagation; unreachable!() arms abort
        ev = [e for e in lw.events if e[0] != "dropped" or not _error_or_unreachable(b, e[1])]
        if ev:
            run.fail(rid, fn + "/coroutine", b.loc(), "a coroutine removed from a scheduler container can be lost: " + "; ".join(e[2] for e in ev[:3]))
        else:
            run.ok(rid, fn + "/coroutine", {"states": lw.visited})
    b = need(run, rid, f, SCHED + "::submit_raw_co")
    if b is not None:
        lw = Linear(b, [l for l in range(1, b.argc + 1) if b.name_of(l) == "co"], lambda c, t: False, lambda c, t: "consume" if c == OLQ + "::push" else None, ret_is_sink=False)
        lw.run()
        if lw.events or any(c != 1 for (_x, _h, c) in lw.exits):
            run.fail(rid, "submit_raw_co/coroutine", b.loc(), "submit_raw_co does not queue the coroutine exactly once on every path")
        else:
            run.ok(rid, "submit_raw_co/coroutine", "ready.push(co) once")


def _error_or_unreachable(b, bid):
    """Is block bid only on paths that end in an Err return (`?`) or a panic?"""
    cfg = Cfg(b)
    r = cfg.reachable({bid})
    for x in r:
        t = b.blocks[x]["term"]
        if t["k"] == "return":
            # some return reachable: accept only if an Err was assigned on the way (from_residual)
            pass
    # conservative: accept if a from_residual call or a panic call dominates / is reachable-before
    for x in range(len(b.blocks)):
        t = b.blocks[x]["term"]
        if t["k"] == "call" and norm(t.get("callee") or "").endswith("FromResidual>::from_residual") and bid in cfg.reachable({x}):
            return True
    return False


def result_rule(run, f, rid):
    run.rule(rid, "each finished coroutine's outcome is recorded once under its own id", floor=2, template="T5/T6")
    b = need(run, rid, f, SCHED + "::do_schedule")
    if b is None:
        return
    cfg = Cfg(b)
    du = DefUse(b)
    res = find_calls(b, callee_is(CORO + "::resume"))
    ins = find_calls(b, callee_is("std::collections::HashMap::insert"))
    if len(res) != 1:
        run.fail(rid, "do_schedule/resume", b.loc(), "expected one resume() site")
        return
    insp = find_calls(b, callee_is("std::result::Result::inspect"))
    # the match on the resumed state
    dest = None
    tb = find_calls(b, callee_ends("Try>::branch"))
    arms = None
    for blk in b.blocks:
        if blk["term"]["k"] == "switch":
            from analysis.flow import switch_info
            si = switch_info(b, du, blk["id"])
            if si["kind"] == "discr" and norm(si["adt"] or "").endswith("constants::CoroutineState") and cfg.dominates(res[0][0], blk["id"]):
                arms = si
                break
    if arms is None:
        run.fail(rid, "do_schedule/match", b.loc(), "no match on the state returned by resume()")
        return
    for variant, wrap in (("Complete", "Ok"), ("Error", "Err")):
        arm = arms["arms"].get(variant)
        mine = [(x, t) for (x, t) in ins if arm is not None and cfg.dominates(arm, x)]
        why = []
        if len(mine) != 1 or cfg.in_cycle(mine[0][0]) and False:
            why.append("expected exactly one results.insert on the %s arm (found %d)" % (variant, len(mine)))
        else:
            x, t = mine[0]
            ksl = backward(b, t["args"][1], du, at=(x, "term"))
            if "id" not in ksl.fields or not any(norm(tt.get("callee") or "") == OLQ + "::pop" for (_y, tt) in ksl.calls):
                why.append("the key is not the id of the coroutine that was resumed")
            # co_id is read before resume (the coroutine may be moved afterwards)
            v = describe_val(b, du, t["args"][2])
            if not (v[0] == "agg" and v[2] == wrap and "@%s" % variant in repr(v)):
                why.append("the value is not %s(payload of %s)" % (wrap, variant))
        if why:
            run.fail(rid, "do_schedule/" + variant, b.loc(), "; ".join(why))
        else:
            run.ok(rid, "do_schedule/" + variant, "results.insert(co_id, %s(..))" % wrap)
    others = [x for (x, t) in ins if not any(arms["arms"].get(v) is not None and cfg.dominates(arms["arms"][v], x) for v in ("Complete", "Error"))]
    if others:
        run.fail(rid, "do_schedule/extra-insert", b.loc(), "a result is recorded outside the Complete/Error arms", counts_as_instance=False)


def delay_rule(run, f, rid):
    run.rule(rid, "a delayed coroutine is promoted only when due, parked iff not yet due, timers are checked before every pop, heaps are min-heaps", floor=6, template="T2/T3")
    b = need(run, rid, f, SCHED + "::check_ready")
    if b is not None:
        cfg = Cfg(b)
        du = DefUse(b)
        pops = find_calls(b, callee_is("std::collections::BinaryHeap::pop"))
        for (pb, pt) in pops:
            heap = (field_chain(b, du, pt["args"][0]) or ["?"])[-1]
            # dominated by the false edge of `now() < item.timestamp`
            ok = False
            for blk in b.blocks:
                if blk["term"]["k"] != "switch":
                    continue
                dl = op_local(blk["term"]["discr"])
                ds = du.defs.get(dl, []) if dl is not None else []
                if len(ds) == 1 and ds[0][2] == "assign" and ds[0][3]["rhs"]["k"] == "binop":
                    rv = ds[0][3]["rhs"]
                    a, c = describe_val(b, du, rv["a"]), describe_val(b, du, rv["b"])
                    now_a, now_c = a[0] == "call" and a[1] == "common::now", c[0] == "call" and c[1] == "common::now"
                    ts_a, ts_c = "timestamp" in repr(a), "timestamp" in repr(c)
                    # ... and it is the timestamp of the item at the top of THIS heap: when the body peeks at the heap,
                    # the compared value must come from that peek (a timestamp of some other item, or of the other heap,
                    # keeps the name and changes the source)
                    peeks = [y for (y, tt) in b.calls() if norm(tt.get("callee") or "").endswith("BinaryHeap::peek") and (field_chain(b, du, tt["args"][0]) or ["?"])[-1] == heap]
                    if peeks:
                        def from_peek(o):
                            return any(y in peeks for (y, _t) in backward(b, o, du, at=(ds[0][0], ds[0][1]), through_calls="all").calls)
                        ts_a, ts_c = ts_a and from_peek(rv["a"]), ts_c and from_peek(rv["b"])
                    notdue_true = (rv["op"] == "Lt" and now_a and ts_c) or (rv["op"] == "Gt" and ts_a and now_c)
                    due_true = (rv["op"] in ("Ge",) and now_a and ts_c) or (rv["op"] == "Le" and ts_a and now_c)
                    if notdue_true or due_true:
                        br = bool_branch(b, cfg, du, dl, [blk["id"]])
                        if br:
                            due_bb = br[1] if notdue_true else br[0]
                            if cfg.dominates(due_bb, pb):
                                ok = True
            if ok:
                run.ok(rid, "check_ready/%s" % heap, "pop only under !(now() < timestamp)")
            else:
                run.fail(rid, "check_ready/%s" % heap, b.loc(pt["line"]), "an item is taken from the %s timer heap without having tested that its timestamp is due" % heap)
    b = need(run, rid, f, SCHED + "::do_schedule")
    if b is not None:
        cfg = Cfg(b)
        du = DefUse(b)
        cr = find_calls(b, callee_is(SCHED + "::check_ready"))
        pp = find_calls(b, callee_is(OLQ + "::pop"))
        ok = len(cr) == 1 and len(pp) == 1 and cfg.dominates(cr[0][0], pp[0][0]) and pp[0][0] not in cfg.reachable(cfg.after(pp[0][0]), avoid={cr[0][0]})
        if ok:
            run.ok(rid, "do_schedule/check-before-pop", "check_ready precedes ready.pop in every iteration")
        else:
            run.fail(rid, "do_schedule/check-before-pop", b.loc(), "ready.pop can be reached again without a timer check (a due coroutine is not promoted by the first pass at or after its wake-up time)")
        # Suspend arm: park iff timestamp > now()
        hp = [(x, t) for (x, t) in find_calls(b, callee_is("std::collections::BinaryHeap::push")) if (field_chain(b, du, t["args"][0]) or [""])[-1] == "suspend"]
        ok = False
        why = "park site not found"
        if len(hp) == 1:
            for blk in b.blocks:
                if blk["term"]["k"] != "switch":
                    continue
                dl = op_local(blk["term"]["discr"])
                ds = du.defs.get(dl, []) if dl is not None else []
                if len(ds) == 1 and ds[0][2] == "assign" and ds[0][3]["rhs"]["k"] == "binop" and ds[0][3]["rhs"]["op"] in ("Gt", "Lt", "Ge", "Le"):
                    rv = ds[0][3]["rhs"]
                    a, c = describe_val(b, du, rv["a"]), describe_val(b, du, rv["b"])
                    now_a, now_c = a[0] == "call" and a[1] == "common::now", c[0] == "call" and c[1] == "common::now"
                    ts_a, ts_c = "@Suspend.1" in repr(a), "@Suspend.1" in repr(c)
                    later_true = (rv["op"] == "Gt" and ts_a and now_c) or (rv["op"] == "Lt" and now_a and ts_c)
                    later_false = (rv["op"] == "Le" and ts_a and now_c) or (rv["op"] == "Ge" and now_a and ts_c)
                    if later_true or later_false:
                        br = bool_branch(b, cfg, du, dl, [blk["id"]])
                        if br:
                            park_bb = br[0] if later_true else br[1]
                            other = br[1] if later_true else br[0]
                            rp = [x for (x, t) in find_calls(b, callee_is(OLQ + "::push")) if cfg.dominates(other, x)]
                            ok = cfg.dominates(park_bb, hp[0][0]) and bool(rp)
                            why = "park on the later edge %s, re-queue on the other edge %s" % (cfg.dominates(park_bb, hp[0][0]), bool(rp))
            # the timestamp stored is the one reported by the coroutine
            v = describe_val(b, du, hp[0][1]["args"][1])
            if ok and not (v[0] == "agg" and v[1].endswith("SuspendItem") and "@Suspend.1" in repr(v[3][0])):
                ok, why = False, "SuspendItem.timestamp is not the timestamp reported by the yield"
        if ok:
            run.ok(rid, "do_schedule/park-iff-later", "Suspend(_, ts): ts > now() -> suspend heap, else ready queue")
        else:
            run.fail(rid, "do_schedule/park-iff-later", b.loc(), "the Suspend arm must park the coroutine exactly when its timestamp is in the future (%s)" % why)
    for ty in ("scheduler::SuspendItem", "scheduler::SyscallSuspendItem"):
        b = need(run, rid, f, "<%s as std::cmp::Ord>::cmp" % ty)
        if b is None:
            continue
        du = DefUse(b)
        c = [t for (_x, t) in b.calls() if norm(t.get("callee") or "").endswith("::cmp")]
        ok = False
        if len(c) == 1:
            a0 = backward(b, c[0]["args"][0], du, through_calls="none")
            a1 = backward(b, c[0]["args"][1], du, through_calls="none")
            ok = {b.name_of(p) for p in a0.params} == {"other"} and {b.name_of(p) for p in a1.params} == {"self"} and a0.fields == {"timestamp"} and a1.fields == {"timestamp"}
        if ok:
            run.ok(rid, ty + "/min-heap", "other.timestamp.cmp(&self.timestamp)")
        else:
            run.fail(rid, ty + "/min-heap", b.loc(), "%s must order by other.timestamp.cmp(&self.timestamp) (BinaryHeap is a max-heap; the earliest timestamp must be on top)" % ty)


def cancel_rule(run, f, rid):
    run.rule(rid, "a coroutine cancelled before its next resumption is never resumed; only its own request is consumed, and nothing else clears requests", floor=2, template="T2/T9")
    b = unit(run, rid, f, SCHED + "::do_schedule")     # a helper cut out of the loop body is part of it
    if b is None:
        return
    cfg = Cfg(b)
    du = DefUse(b)
    pw = PathWalker(b)
    res = find_calls(b, callee_is(CORO + "::resume"))
    pp = find_calls(b, callee_is(OLQ + "::pop"))
    ct = [(x, t) for (x, t) in find_calls(b, callee_is("dashmap::DashSet::contains")) if static_of(b, du, t["args"][0]) == CANCEL_CO]
    why = []
    if len(res) != 1 or len(ct) != 1 or len(pp) != 1:
        why.append("resume / CANCEL_COROUTINES.contains / pop site missing")
    else:
        cb, ctt = ct[0]
        ksl = backward(b, ctt["args"][1], du, at=(cb, "term"))
        if "id" not in ksl.fields or not any(x == pp[0][0] for (x, _t) in ksl.calls):
            why.append("the cancel test is not keyed by the popped coroutine's id")
        br = bool_branch(b, cfg, du, ctt["dest"]["l"], cfg.after(cb))
        if not br:
            why.append("cancel test not branched on")
        else:
            tbb, fbb, _ = br
            # feasible paths only: the test may sit in a helper that reports its outcome as a bool
            if not cfg.dominates(fbb, res[0][0]) and pw.escapes(cfg.after(pp[0][0])[0], {fbb}, exits={res[0][0]}):
                why.append("resume() is not dominated by the not-cancelled edge")
            if res[0][0] in cfg.reachable({tbb}, avoid={pp[0][0]}) and pw.escapes(tbb, {pp[0][0]}, exits={res[0][0]}):
                why.append("a cancelled coroutine can still be resumed")
            rm = [(x, t) for (x, t) in find_calls(b, callee_is("dashmap::DashSet::remove")) if static_of(b, du, t["args"][0]) == CANCEL_CO]
            if len(rm) != 1 or not cfg.dominates(tbb, rm[0][0]):
                why.append("the request is not consumed exactly on the cancelled edge")
    if why:
        run.fail(rid, "do_schedule/cancel-before-resume", b.loc(), "; ".join(why))
    else:
        run.ok(rid, "do_schedule/cancel-before-resume", "resume() only on the false edge of CANCEL_COROUTINES.contains(&co_id); true edge removes that id")
    # other mutators of CANCEL_COROUTINES
    muts = {}
    for ob in f.bodies:
        if ob.kind == "Promoted":
            continue
        d2 = None
        for (x, t) in ob.calls():
            c = norm(t.get("callee") or "")
            if c.startswith("dashmap::DashSet::") and c.rsplit("::", 1)[1] in ("remove", "clear", "retain", "insert", "remove_if", "shrink_to_fit", "alter"):
                d2 = d2 or DefUse(ob)
                if refers_to_static(f, ob, d2, t["args"][0], CANCEL_CO):
                    muts.setdefault(ob.npath, set()).add(c.rsplit("::", 1)[1])
    want = {SCHED + "::do_schedule": {"remove"}, SCHED + "::try_cancel_coroutine": {"insert"}}
    # a mutation inside a private helper counts for the function(s) it is entered from
    for fn in [k for k in muts if k not in want]:
        own = owners(f, fn, set(want))
        if own:
            ops = muts.pop(fn)
            for o in own:
                muts.setdefault(o, set()).update(ops)
    if muts == want:
        run.ok(rid, "CANCEL_COROUTINES/mutators", {k: sorted(v) for k, v in muts.items()})
    else:
        run.fail(rid, "CANCEL_COROUTINES/mutators", "core/src/scheduler.rs", "cancel requests are changed by %s; only try_cancel_coroutine may insert and only the cancelled edge of do_schedule may remove (a request for a parked coroutine must survive idle passes)" % {k: sorted(v) for k, v in muts.items()})


def try_resume_rule(run, f, rid):
    run.rule(rid, "callback promotion: try_resume takes the coroutine stored under its co_id, marks Callback, and queues it", floor=1, template="T5/T6")
    b = need(run, rid, f, SCHED + "::try_resume")
    if b is None:
        return
    cfg = Cfg(b)
    du = DefUse(b)
    rm = [(x, t) for (x, t) in find_calls(b, callee_is("dashmap::DashMap::remove")) if (field_chain(b, du, t["args"][0]) or [""])[-1] == "syscall"]
    sc = find_calls(b, callee_is(CORO + "::syscall"))
    pu = find_calls(b, callee_is(OLQ + "::push"))
    ok = len(rm) == 1 and len(sc) == 1 and len(pu) == 1
    why = "remove/syscall/push sites: %d/%d/%d" % (len(rm), len(sc), len(pu))
    if ok:
        key = backward(b, rm[0][1]["args"][1], du, at=(rm[0][0], "term"), through_calls="none")
        st = describe_val(b, du, sc[0][1]["args"][3])
        ok = any(b.name_of(p) == "co_id" for p in key.params) and "Callback" in repr(st) and cfg.dominates(sc[0][0], pu[0][0])
        why = "key from co_id %s, new syscall state %r" % (any(b.name_of(p) == "co_id" for p in key.params), st)
    if ok:
        run.ok(rid, "try_resume", "syscall.remove(&co_id) -> syscall(.., Callback) -> ready.push")
    else:
        run.fail(rid, "try_resume", b.loc(), "try_resume must promote exactly the coroutine stored under co_id (%s)" % why)


def silent_drop_rule(run, f, rid):
    linear_rule(run, f, "C11-LINEAR", drop_rid=rid)
