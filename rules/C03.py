"""C03 — Work-steal queues neither lose nor duplicate items (structural clauses)."""
from analysis.atomics import AtomicModel
from rules.common import start
from rules import wave3

QUEUE_ADTS = ("common::work_steal::WorkStealQueue", "common::work_steal::LocalQueue",
              "common::ordered_work_steal::OrderedWorkStealQueue", "common::ordered_work_steal::OrderedLocalQueue")


def rmw_rule(run, fx, rid, adt_filter=None, floor=1):
    """T4 on every atomic store of the crate (optionally only atomics that are fields of `adt_filter`)."""
    am = AtomicModel(fx)
    n = 0
    for body, bid, t, key, loaded in am.stores():
        if adt_filter is not None and (key is None or key[0] not in adt_filter):
            continue
        n += 1
        run.fn(body)
        run.count("call_sites")
        anchor = "%s/%s" % (body.npath, key[1] if key else "?")
        if key is not None and key in loaded:
            run.fail(rid, anchor, body.loc(t["line"]),
                     "non-atomic read-modify-write: `%s.store(v)` where v is computed from a load of the same atomic "
                     "(%s.%s); two concurrent updaters lose one update" % (key[1], key[0], key[1]),
                     detail={"atomic": list(key), "loaded": sorted(map(list, loaded))})
        else:
            run.ok(rid, anchor, {"atomic": list(key) if key else None, "value_depends_on_loads_of": sorted(map(list, loaded))})
    return n


def run(tier):
    run, fx = start("C03", tier,
        "T4 atomic read-modify-write rule over every atomic store of open-coroutine-core (value slice through repo-local "
        "getters, inlining bound 2), T1 pairing of Injector::push / Steal::Success with exactly one counter update, "
        "T5 linear-resource rule for the by-value item in every push/pop function. Decides structural necessary "
        "conditions for no-loss/no-duplication and for len()==held items; does not decide linearizability of st3/crossbeam.",
        ["core/default"],
        not_decided=["linearizability of st3::fifo and crossbeam_deque internals", "len() equality after quiescence (follows from RMW+PAIR by counting, not machine-checked)"],
        assumptions=["st3::fifo::Worker::{push,pop} are owner-only", "crossbeam Injector::{push,steal} are multi-thread safe", "Worker::push returns the item in Err when full"])
    f = fx["core/default"]
    run.rule("C03-RMW", "no Atomic::store whose value derives from a load of the same atomic (queue counters and all other atomics)", floor=14, template="T4")
    rmw_rule(run, f, "C03-RMW")
    from rules import queues
    queues.pair_rule(run, f, "C03-PAIR")
    queues.linear_rule(run, f, "C03-LINEAR")
    queues.self_steal_rule(run, f, "C03-NO-SELF-STEAL")
    # clauses added for the wave-2 seeds (rules/wave2.py; DESIGN 12a)
    wave3.container_api_rule(run, f, "C03-CONTAINER-API")
    return run.finish()
