"""C08 — Values and panics cross the coroutine boundary faithfully (structural clauses)."""
from rules.common import start
from rules import wave3
from rules import wave2
from rules import coro


def run(tier):
    run, fx = start("C08", tier,
        "T5 pass-through provenance of resume argument, yielded value, return value and suspend_with argument/result; T2 containment: user code is "
        "invoked only inside the closure handed to catch_unwind, payloads are downcast to &str and String and reported unmodified; every listener "
        "callback is individually wrapped; complete/error reported once.",
        ["core/default", "core/preemptive"],
        not_decided=["corosensei's own argument passing (external crate)", "ordering over long exchanges (implied by per-resume pass-through)"],
        assumptions=["catch_unwind stops unwinding at its frame", "corosensei::Coroutine::resume hands its argument to the pending Yielder::suspend and vice versa"])
    f = fx["core/default"]
    coro.pass_rule(run, f, "C08-PASS")
    coro.catch_rule(run, f, "C08-CATCH")
    coro.listener_rule(run, f, "C08-LISTENER")
    coro.once_rule(run, f, "C08-ONCE")
    # clauses added for the wave-2 seeds (rules/wave2.py; DESIGN 12a)
    wave2.current_ends_rule(run, f, "C08-CURRENT-ENDS")
    coro.push_yield_rule(run, f, "C08-YIELD-REQUESTS")
    coro.drain_rule(run, f, "C08-YIELD-DRAIN")
    wave2.request_pairing_rule(run, f, "C08-REQUEST-PAIRING")
    # with `preemptive`, a coroutine whose Param is not () must not be monitored: a preemption reports a Suspend its body never
    # made and the next resume argument goes to the signal handler's suspend (rule shared with C22)
    from rules import preempt
    preempt.registration_rule(run, fx["core/preemptive"], "C08-MONITOR-ONLY-UNIT")
    # clauses added for the wave-2 seeds (rules/wave2.py; DESIGN 12a)
    wave3.no_exit_before_yield_rule(run, f, "C08-NO-EXIT-BEFORE-YIELD")
    # clauses added for the wave-2 seeds (rules/wave2.py; DESIGN 12a)
    wave3.suspender_popped_rule(run, f, "C08-SUSPENDER-POPPED")
    # clauses added for the wave-2 seeds (rules/wave2.py; DESIGN 12a)
    wave3.error_from_syscall_rule(run, f, "C08-ERROR-FROM-SYSCALL")
    return run.finish()
