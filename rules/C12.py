"""C12 — Pool lifecycle: stop rejects new work and settles every waiter (structural clauses)."""
from rules.common import start
from rules import wave3
from rules import wave2
from rules import pool


def run(tier):
    run, fx = start("C12", tier,
        "T6/T9 on co_pool::state::change_state (sole writer, constant caller pairs, guard paths), T2 rejection of submissions outside Running, "
        "T1/T3 settle order stop -> do_stop -> stopped -> do_clean and do_clean's per-waiter Err+notify, consumer-loop exit condition, EventLoops::stop wait.",
        ["core/default"],
        not_decided=["a waiter that registers after do_clean", "the Cell<PoolState> is read from other threads without synchronisation (listed under C01-OWNER)"],
        assumptions=[])
    f = fx["core/default"]
    pool.pool_state_rule(run, f, "C12-STATE")
    pool.settle_rule(run, f, "C12-SETTLE")
    pool.keep_scheduling_rule(run, f, "C12-DRAIN")
    pool.dashmap_reentrancy_rule(run, f, "C12-NO-SELF-DEADLOCK")
    # a waiter for a task that will never run (cancelled before it started) gets an error
    pool.run_once_rule(run, f, "C12-RUN-OR-CANCELLED", settle_rid="C12-CANCEL-SETTLE")
    # clauses added for the wave-2 seeds (rules/wave2.py; DESIGN 12a)
    wave2.grow_refusal_rule(run, f, "C12-GROW-REFUSAL")
    # clauses added for the wave-2 seeds (rules/wave2.py; DESIGN 12a)
    wave3.clean_all_waiters_rule(run, f, "C12-CLEAN-ALL")
    return run.finish()
