//! F35 (C20): a coroutine that waits for readiness through the public `EventLoops::wait_read_event` outside a hooked
//! system call (state Running) is parked in the plain suspend heap; readiness resumes only coroutines found in the
//! scheduler's syscall table, so this waiter is woken by its timeout (3009 ms), not by the event (200 ms).
//! Copy to core/tests/ and run `cargo test -p open-coroutine-core --test f35_demo`.
use open_coroutine_core::config::Config;
use open_coroutine_core::net::EventLoops;
use std::io::Write;
use std::os::fd::AsRawFd;
use std::os::unix::net::UnixStream;
use std::sync::atomic::{AtomicU64, Ordering};
use std::sync::Arc;
use std::time::{Duration, Instant};

#[test]
fn direct_wait_read_event_is_woken_by_readiness() {
    let mut config = Config::single();
    _ = config.set_hook(false);
    EventLoops::init(&config);
    let (a, mut b) = UnixStream::pair().unwrap();
    a.set_nonblocking(true).unwrap();
    let fd = a.as_raw_fd();
    let waited = Arc::new(AtomicU64::new(0));
    let w = waited.clone();
    let h = EventLoops::submit_task(
        None,
        move |_| {
            let t = Instant::now();
            EventLoops::wait_read_event(fd, Some(Duration::from_secs(3))).unwrap();
            w.store(u64::try_from(t.elapsed().as_millis()).unwrap().max(1), Ordering::SeqCst);
            Some(1)
        },
        None,
        None,
    );
    std::thread::sleep(Duration::from_millis(200));
    b.write_all(b"x").unwrap();
    _ = h.timeout_join(Duration::from_secs(10));
    let ms = waited.load(Ordering::SeqCst);
    assert!(ms > 0 && ms < 1500, "the waiter was woken after {ms} ms although its descriptor became readable after 200 ms");
    drop(a);
}
