use open_coroutine_core::coroutine::Coroutine;

// F18: on a plain thread the grown segment is popped from the thread's bookkeeping only on normal
// return; after a caught panic later growth decisions are taken against a freed segment.
#[test]
fn thread_stack_growth_after_caught_panic() {
    fn recurse(i: u32, boom: bool, p: &mut [u8; 10240]) {
        Coroutine::<(), (), ()>::maybe_grow(|| {
            // Ensure the stack allocation isn't optimized away.
            unsafe { std::ptr::read_volatile(&p) };
            if i > 0 {
                recurse(i - 1, boom, &mut [0; 10240]);
            } else if boom {
                panic!("test panic, just ignore it");
            }
        })
        .expect("allocate stack failed")
    }
    let t = std::thread::Builder::new()
        .stack_size(256 * 1024)
        .spawn(|| {
            // panic deep inside grown segments, catch it at the top
            assert!(std::panic::catch_unwind(|| recurse(150, true, &mut [0; 10240])).is_err());
            // deep recursion must keep working: ~1.5MB on a 256KB thread stack
            recurse(150, false, &mut [0; 10240]);
        })
        .unwrap();
    t.join().expect("deep recursion after a caught panic failed");
}
