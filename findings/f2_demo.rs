use open_coroutine_core::common::ordered_work_steal::OrderedWorkStealQueue;

// F2: after siblings stole from a local queue its `len` is stale-high; the next push spins forever.
#[test]
fn push_after_steal_terminates() {
    let (tx, rx) = std::sync::mpsc::channel();
    _ = std::thread::spawn(move || {
        let queue = OrderedWorkStealQueue::new(2, 4);
        let local0 = queue.local_queue();
        let local1 = queue.local_queue();
        for i in 0..4 {
            local0.push_with_priority(0, i);
        }
        // local1 steals everything from local0, piece by piece
        let mut got = 0;
        while local1.pop().is_some() {
            got += 1;
        }
        assert_eq!(got, 4);
        // local0 believes it is full although it holds nothing
        local0.push_with_priority(0, 99);
        assert_eq!(local0.pop(), Some(99));
        tx.send(()).unwrap();
    });
    rx.recv_timeout(std::time::Duration::from_secs(5))
        .expect("push_with_priority did not return within 5s");
}
