// F28: the facade's task wrapper recovers a panic message only from a &'static str payload; a formatted
// panic (String payload) reaches the joiner as "task failed without message".
#[open_coroutine::main(event_loop_size = 1, max_size = 2)]
fn run() -> String {
    let code = 7;
    let handle = open_coroutine::task!(
        move |_| {
            if code > 0 {
                panic!("task failed with code {code}, just ignore it");
            }
            code
        },
        (),
    );
    handle
        .timeout_join(std::time::Duration::from_secs(10))
        .expect_err("the task panicked")
        .to_string()
}

#[test]
fn formatted_task_panic_message_reaches_the_joiner() {
    assert_eq!("task failed with code 7, just ignore it", run());
}
