//! F30 (C27): before fix 1ba26fe the hooked `sendto` was submitted as IORING_OP_SEND_ZC, which posts a second
//! (notification) completion with result 0 under the same user_data; it filled in the caller's next io_uring call:
//! "[65536] recv on the control socket returned 0 although nothing was ever written to it".
//!
//! Copy to `core/tests/f30_demo.rs` and run
//!     cargo test --offline -p open-coroutine-core --features io_uring --test f30_demo -- --nocapture
//!
//! One coroutine sends a payload over a TCP connection whose peer does not read yet
//! (tiny receive buffer, so most of the payload stays unacknowledged in the sender's
//! socket buffer), and then blocks in `recv` on an unrelated, silent control socket.
//! Only after the test thread has drained the TCP peer, and later written "PONG" to
//! the control socket, may that `recv` return - with 4 bytes "PONG".
//! Every hooked call must be completed by the completion of its own submission only.
#![cfg(all(target_os = "linux", feature = "io_uring"))]

use open_coroutine_core::config::Config;
use open_coroutine_core::net::EventLoops;
use std::io::{Read, Write};
use std::net::{TcpListener, TcpStream};
use std::os::fd::AsRawFd;
use std::os::unix::net::UnixStream;
use std::sync::atomic::{AtomicI64, Ordering};
use std::sync::Arc;
use std::time::{Duration, Instant};

const PENDING: i64 = i64::MIN;

fn set_rcvbuf(fd: libc::c_int, size: libc::c_int) {
    let r = unsafe {
        libc::setsockopt(
            fd,
            libc::SOL_SOCKET,
            libc::SO_RCVBUF,
            std::ptr::from_ref(&size).cast(),
            libc::socklen_t::try_from(size_of::<libc::c_int>()).unwrap(),
        )
    };
    assert_eq!(0, r, "setsockopt(SO_RCVBUF) failed");
}

/// watchdog helper: poll an atomic until it leaves PENDING or the time is up
fn wait_for(cell: &AtomicI64, limit: Duration, what: &str) -> i64 {
    let start = Instant::now();
    loop {
        let v = cell.load(Ordering::SeqCst);
        if v != PENDING {
            return v;
        }
        assert!(start.elapsed() < limit, "watchdog: {what} did not finish in {limit:?}");
        std::thread::sleep(Duration::from_millis(5));
    }
}

fn send_then_recv(size: usize) {
    // a TCP connection on loopback whose receiving side has a tiny window
    let listener = TcpListener::bind("127.0.0.1:0").unwrap();
    set_rcvbuf(listener.as_raw_fd(), 4096);
    let tx = TcpStream::connect(listener.local_addr().unwrap()).unwrap();
    let (mut rx, _) = listener.accept().unwrap();
    set_rcvbuf(rx.as_raw_fd(), 4096);
    rx.set_read_timeout(Some(Duration::from_secs(10))).unwrap();
    // an unrelated control channel, silent until the very end
    let (ctrl_a, mut ctrl_b) = UnixStream::pair().unwrap();

    let payload: &'static [u8] = (0..size)
        .map(|i| u8::try_from(i % 251).unwrap())
        .collect::<Vec<u8>>()
        .leak();
    let answer: &'static mut [u8] = vec![0u8; 16].leak();
    let answer_ptr = answer.as_mut_ptr() as usize;

    let sent = Arc::new(AtomicI64::new(PENDING));
    let received = Arc::new(AtomicI64::new(PENDING));
    let (sent_in_co, received_in_co) = (sent.clone(), received.clone());
    let (tx_fd, ctrl_fd) = (tx.as_raw_fd(), ctrl_a.as_raw_fd());

    let handle = EventLoops::submit_task(
        None,
        move |_| {
            let n = open_coroutine_core::syscall::sendto(
                None,
                tx_fd,
                payload.as_ptr().cast(),
                payload.len(),
                0,
                std::ptr::null(),
                0,
            );
            sent_in_co.store(i64::try_from(n).unwrap(), Ordering::SeqCst);
            let r = open_coroutine_core::syscall::recv(
                None,
                ctrl_fd,
                (answer_ptr as *mut u8).cast(),
                16,
                0,
            );
            received_in_co.store(i64::try_from(r).unwrap(), Ordering::SeqCst);
            Some(1)
        },
        None,
        None,
    );

    let n = wait_for(&sent, Duration::from_secs(10), "hooked send");
    assert!(n > 0, "hooked send({size} bytes) failed: {n}");
    let n = usize::try_from(n).unwrap();
    std::thread::sleep(Duration::from_millis(200));
    assert_eq!(
        PENDING,
        received.load(Ordering::SeqCst),
        "[{size}] recv on the silent control socket returned before the peer of the TCP connection read anything"
    );

    // now let the TCP peer consume (and thereby acknowledge) what was sent
    let mut left = n;
    let mut offset = 0usize;
    let mut buf = vec![0u8; 65536];
    while left > 0 {
        let k = rx.read(&mut buf).expect("watchdog: draining the TCP peer");
        assert!(k > 0, "unexpected EOF on the TCP peer");
        for b in &buf[..k] {
            assert_eq!(payload[offset], *b, "payload corrupted at offset {offset}");
            offset += 1;
        }
        left -= k;
    }
    std::thread::sleep(Duration::from_millis(500));
    // nothing has been written to the control socket so far, so the recv of the
    // coroutine has to be still in flight
    let early = received.load(Ordering::SeqCst);
    assert_eq!(
        PENDING, early,
        "[{size}] recv on the control socket returned {early} although nothing was ever written to it: \
         it was filled in by a completion that belongs to the earlier send"
    );

    ctrl_b.write_all(b"PONG").unwrap();
    let r = wait_for(&received, Duration::from_secs(10), "hooked recv");
    assert_eq!(4, r, "[{size}] recv returned {r} instead of the 4 bytes written to its socket");
    assert_eq!(
        Ok(Ok(Some(1))),
        handle
            .timeout_join(Duration::from_secs(10))
            .map_err(|e| e.to_string())
    );
    let answer = unsafe { std::slice::from_raw_parts(answer_ptr as *const u8, 4) };
    assert_eq!(b"PONG", answer, "[{size}] recv did not deliver the data of its own socket");
    drop((tx, ctrl_a));
}

#[test]
fn f30_sendto_completion_fills_next_call() {
    let mut config = Config::single();
    _ = config.set_hook(false);
    EventLoops::init(&config);
    // control: a small message
    send_then_recv(512);
    // a payload that is larger than what the peer's window takes at once
    send_then_recv(64 * 1024);
    // and once more, to show that the runtime is still healthy afterwards
    send_then_recv(2048);
}
