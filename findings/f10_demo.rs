// F10: a zero-length request on a socket returns -1 instead of 0.
#[test]
fn zero_length_request_returns_zero() {
    open_coroutine_core::net::EventLoops::init(&open_coroutine_core::config::Config::single());
    let mut fds = [0; 2];
    assert_eq!(0, unsafe {
        libc::socketpair(libc::AF_UNIX, libc::SOCK_STREAM, 0, fds.as_mut_ptr())
    });
    let mut buf = [0u8; 4];
    assert_eq!(
        0,
        open_coroutine_core::syscall::send(None, fds[1], buf.as_ptr().cast(), 0, 0)
    );
    assert_eq!(
        0,
        open_coroutine_core::syscall::recv(None, fds[0], buf.as_mut_ptr().cast(), 0, 0)
    );
    let iov = [libc::iovec {
        iov_base: buf.as_mut_ptr().cast(),
        iov_len: 0,
    }];
    assert_eq!(
        0,
        open_coroutine_core::syscall::writev(None, fds[1], iov.as_ptr(), 1)
    );
}
