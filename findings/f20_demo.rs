use open_coroutine_core::common::beans::BeanFactory;
use std::sync::atomic::AtomicUsize;
use std::sync::{Arc, Barrier};

// F20: two threads that first-use the same named bean at the same time each get their own instance.
#[test]
fn concurrent_first_use_yields_one_instance() {
    const THREADS: usize = 8;
    for round in 0..2000 {
        let name: &'static str = format!("f20-demo-{round}").leak();
        let barrier = Arc::new(Barrier::new(THREADS));
        let handles: Vec<_> = (0..THREADS)
            .map(|_| {
                let barrier = barrier.clone();
                std::thread::spawn(move || {
                    _ = barrier.wait();
                    std::ptr::from_ref(BeanFactory::get_or_default::<AtomicUsize>(name)) as usize
                })
            })
            .collect();
        let addrs: Vec<usize> = handles.into_iter().map(|h| h.join().unwrap()).collect();
        let later = std::ptr::from_ref(BeanFactory::get_or_default::<AtomicUsize>(name)) as usize;
        assert!(
            addrs.iter().all(|a| *a == later),
            "round {round}: threads received different instances {addrs:x?}, later lookups return {later:x}"
        );
    }
}
