// F12: on Linux the hooked recvmsg passes msg_iovlen = <caller's count> together with the shortened
// iovec array it rebuilt, so after the first iovec was filled the kernel reads past that array.
#[test]
fn recvmsg_across_two_iovecs() {
    open_coroutine_core::net::EventLoops::init(&open_coroutine_core::config::Config::single());
    let mut fds = [0; 2];
    assert_eq!(0, unsafe {
        libc::socketpair(libc::AF_UNIX, libc::SOCK_STREAM, 0, fds.as_mut_ptr())
    });
    let (rd, wr) = (fds[0], fds[1]);
    let sender = std::thread::spawn(move || unsafe {
        assert_eq!(4, libc::write(wr, b"abcd".as_ptr().cast(), 4));
        std::thread::sleep(std::time::Duration::from_millis(200));
        assert_eq!(4, libc::write(wr, b"efgh".as_ptr().cast(), 4));
    });
    let mut a = [0u8; 4];
    let mut b = [0u8; 4];
    // heap-allocate exactly like a C caller would: two iovecs
    let mut iov = vec![
        libc::iovec {
            iov_base: a.as_mut_ptr().cast(),
            iov_len: 4,
        },
        libc::iovec {
            iov_base: b.as_mut_ptr().cast(),
            iov_len: 4,
        },
    ];
    let mut msg: libc::msghdr = unsafe { std::mem::zeroed() };
    msg.msg_iov = iov.as_mut_ptr();
    msg.msg_iovlen = 2;
    // make the uninitialised tail of the small heap blocks the hook allocates recognisable
    for _ in 0..64 {
        let mut poison: Vec<Vec<u8>> = Vec::new();
        for _ in 0..64 {
            poison.push(vec![0xffu8; 64]);
        }
        drop(poison);
    }
    let r = open_coroutine_core::syscall::recvmsg(None, rd, &raw mut msg, 0);
    sender.join().unwrap();
    assert_eq!(8, r, "errno {}", std::io::Error::last_os_error());
    assert_eq!(b"abcd", &a);
    assert_eq!(b"efgh", &b);
}
