use open_coroutine_core::co;
use open_coroutine_core::common::constants::CoroutineState;
use open_coroutine_core::coroutine::suspender::Suspender;

// F23: a formatted panic message (payload of type String) is not reported.
#[test]
fn formatted_panic_message_is_reported() -> std::io::Result<()> {
    let mut coroutine = co!(|_: &Suspender<'_, (), ()>, ()| {
        let code = 42;
        panic!("test panic with code {code}, just ignore it");
    })?;
    match coroutine.resume()? {
        CoroutineState::Error(message) => {
            assert_eq!("test panic with code 42, just ignore it", message);
            Ok(())
        }
        _ => Err(std::io::Error::other("The coroutine should panic")),
    }
}
