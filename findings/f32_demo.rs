//! F32 (C24): a memory fault while the coroutine is inside a hooked system call (state Syscall).
use open_coroutine_core::common::constants::CoroutineState;
use open_coroutine_core::coroutine::Coroutine;
use std::os::fd::AsRawFd;
use std::os::unix::net::UnixStream;

#[test]
fn fault_inside_a_hooked_call_ends_the_coroutine_with_an_error() {
    std::thread::spawn(|| {
        let (a, _b) = UnixStream::pair().unwrap();
        let fd = a.as_raw_fd();
        let mut co: Coroutine<(), (), isize> = Coroutine::new(
            Some(String::from("faulting-in-syscall")),
            move |_, ()| {
                // an iovec array the process cannot read: the hooked writev walks it before the kernel could say EFAULT
                open_coroutine_core::syscall::writev(None, fd, 0x10 as *const libc::iovec, 2)
            },
            None,
            None,
        )
        .unwrap();
        let r = co.resume();
        assert!(
            matches!(r, Ok(CoroutineState::Error(_))),
            "resume() must report Ok(Error(..)) for a fault in the coroutine, got {r:?} (state {:?})",
            co.state()
        );
    })
    .join()
    .expect("scenario failed");
}
