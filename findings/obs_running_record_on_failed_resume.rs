//! OBSERVATION (not a finding against the 28 properties): `Scheduler::do_schedule` removes the coroutine -> scheduling-thread record (`RUNNING_COROUTINES`) only when
//! `resume()` succeeds (`resume().inspect(|_| remove)?`).  When `resume()` fails -- a body that returns while it is still in a
//! Syscall state makes the final `complete()` transition refuse -- `do_schedule` returns through `?` and the record stays.
//! The coroutine is gone, but the public `Scheduler::get_scheduling_thread(id)` keeps naming this thread (this test shows that
//! on the unchanged code).  NOT shown, and by reading not reachable: a cancel that interrupts another task because of it --
//! `try_cancel_task` reaches a coroutine only through RUNNING_TASKS, whose entry is removed when `task.run()` returns, before
//! a failed resume of the worker could leave the stale record.  C13's clause is therefore stated for resumes that did not fail.
//!
//! Copy to core/tests/obs_running_record_on_failed_resume.rs; `cargo test --offline -p open-coroutine-core --test obs_running_record_on_failed_resume`.
#![cfg(unix)]
use open_coroutine_core::common::constants::{SyscallName, SyscallState};
use open_coroutine_core::scheduler::{SchedulableCoroutine, Scheduler};

#[test]
fn record_is_removed_when_resume_fails() {
    let mut scheduler = Scheduler::new("f29".to_string(), 128 * 1024);
    let id = scheduler
        .submit_co(
            |_, ()| {
                // enter a system-call state and return without leaving it: the final Running->Complete transition is refused
                let me = SchedulableCoroutine::current().expect("current coroutine");
                me.syscall((), SyscallName::nanosleep, SyscallState::Executing)
                    .expect("enter syscall state");
                None
            },
            None,
            None,
        )
        .expect("submit");
    let r = scheduler.try_schedule();
    assert!(r.is_err(), "the scenario needs resume() to fail, got {r:?}");
    assert!(
        Scheduler::get_scheduling_thread(id).is_none(),
        "coroutine {id} is gone, but it is still recorded as being scheduled by this thread"
    );
}
