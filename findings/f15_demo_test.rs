// F15 demonstration: append to core/src/net/selector/mio_adapter.rs and run
//   cargo test -p open-coroutine-core --lib f15_demo
#[cfg(test)]
mod f15_demo {
    use super::*;
    use crate::net::selector::{Event as _, Selector};

    #[test]
    fn token_round_trips_through_the_poller() {
        let poller = Poller::new().unwrap();
        let mut fds = [0; 2];
        assert_eq!(0, unsafe {
            libc::socketpair(libc::AF_UNIX, libc::SOCK_STREAM, 0, fds.as_mut_ptr())
        });
        // coroutine ids are 64-bit hashes
        let token = 0xdead_beef_0000_0001_u64;
        poller.do_register(fds[0], token, Interest::READABLE).unwrap();
        assert_eq!(1, unsafe { libc::write(fds[1], b"x".as_ptr().cast(), 1) });
        let mut events = Events::with_capacity(8);
        poller.do_select(&mut events, Some(Duration::from_secs(1))).unwrap();
        let got: Vec<u64> = events.iter().map(|e| e.get_token()).collect();
        assert_eq!(vec![token], got, "the event loop looks the waiter up by this value");
    }
}
