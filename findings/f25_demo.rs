// F25: CoroutinePool::do_clean iterates `waits` and calls notify(), which removes from the same DashMap
// while the iterator still holds the shard lock: stop() self-deadlocks as soon as one waiter is registered.
#[test]
fn stop_with_a_registered_waiter_terminates() {
    let (tx, rx) = std::sync::mpsc::channel();
    _ = std::thread::spawn(move || {
        let mut pool = open_coroutine_core::co_pool::CoroutinePool::default();
        // a waiter for a task that will never produce a result: times out, stays registered
        assert!(pool
            .wait_task_result(42, std::time::Duration::from_millis(10))
            .is_err());
        let r = pool.stop(std::time::Duration::from_secs(1));
        tx.send(r.is_ok()).unwrap();
    });
    assert!(
        rx.recv_timeout(std::time::Duration::from_secs(10))
            .expect("CoroutinePool::stop did not return within 10s (self-deadlock in do_clean)"),
    );
}
