//! F34 (C19): two threads doing their first hooked I/O on the same socket at the same time.
//! Both miss the cache, both ask the kernel, and the second `insert` trips `assert!(.. .is_none())` inside an
//! `extern "C"` function: the process aborts.  The scenario runs in a child process so that the abort is observable.
use std::os::fd::AsRawFd;
use std::os::unix::net::UnixStream;
use std::sync::{Arc, Barrier};

fn scenario() {
    // the hooked close below forgets the cached limits again; it needs the event loops
    let mut config = open_coroutine_core::config::Config::single();
    _ = config.set_hook(false);
    open_coroutine_core::net::EventLoops::init(&config);
    for _round in 0..400 {
        let socks: Vec<(UnixStream, UnixStream)> = (0..16).map(|_| UnixStream::pair().unwrap()).collect();
        let fds: Arc<Vec<i32>> = Arc::new(socks.iter().map(|(a, _)| a.as_raw_fd()).collect());
        let barrier = Arc::new(Barrier::new(2));
        let hs: Vec<_> = (0..2)
            .map(|_| {
                let (fds, barrier) = (fds.clone(), barrier.clone());
                std::thread::spawn(move || {
                    for fd in fds.iter() {
                        barrier.wait();
                        let _ = open_coroutine_core::syscall::send_time_limit(*fd);
                        let _ = open_coroutine_core::syscall::recv_time_limit(*fd);
                    }
                })
            })
            .collect();
        for h in hs {
            h.join().unwrap();
        }
        for (a, _) in &socks {
            // forget the entries again, as the hooked close would
            let _ = open_coroutine_core::syscall::close(None, a.as_raw_fd());
        }
        std::mem::forget(socks);
    }
}

#[test]
fn concurrent_first_use_of_one_socket_does_not_abort() {
    if std::env::var_os("F34_CHILD").is_some() {
        scenario();
        return;
    }
    let out = std::process::Command::new(std::env::current_exe().unwrap())
        .args(["concurrent_first_use_of_one_socket_does_not_abort", "--exact", "--nocapture"])
        .env("F34_CHILD", "1")
        .output()
        .unwrap();
    assert!(
        out.status.success(),
        "the child process died: {:?}\n{}",
        out.status,
        String::from_utf8_lossy(&out.stderr).lines().filter(|l| l.contains("panicked") || l.contains("abort")).take(4).collect::<Vec<_>>().join("\n")
    );
}
