//! F29 (C24): a memory fault in a coroutine whose type differs from the first coroutine type resumed in the process.
//! Before fix 85b155e: `Complete((<garbage>, 24))` instead of `Error("invalid memory reference")`.
//! Copy to core/tests/ and run `cargo test -p open-coroutine-core --test f29_demo`.
use open_coroutine_core::common::constants::CoroutineState;
use open_coroutine_core::coroutine::Coroutine;

#[test]
fn fault_in_second_coroutine_type_is_an_error() -> std::io::Result<()> {
    // first coroutine type ever resumed: Return = ()
    let mut first: Coroutine<(), (), ()> = Coroutine::new(Some(String::from("first")), |_, ()| {}, None, None)?;
    assert_eq!(CoroutineState::Complete(()), first.resume()?);
    // a second type: Return = (u64, u64)
    let mut second: Coroutine<(), (), (u64, u64)> = Coroutine::new(
        Some(String::from("second")),
        |_, ()| {
            unsafe { std::ptr::write_volatile(1 as *mut u8, 0) };
            (7, 7)
        },
        None,
        None,
    )?;
    assert_eq!(CoroutineState::Error("invalid memory reference"), second.resume()?);
    Ok(())
}
