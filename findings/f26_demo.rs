// F26: Linux accepts a negative tv_sec for SO_RCVTIMEO/SO_SNDTIMEO (returns 0); the hook then parses the
// caller's timeval with u64::try_from(..).expect("overflow") inside an extern "C" frame and aborts.
#[test]
fn negative_timeout_does_not_abort() {
    open_coroutine_core::net::EventLoops::init(&open_coroutine_core::config::Config::single());
    let fd = unsafe { libc::socket(libc::AF_INET, libc::SOCK_DGRAM, 0) };
    assert!(fd >= 0);
    let tv = libc::timeval {
        tv_sec: -1,
        tv_usec: 0,
    };
    let r = open_coroutine_core::syscall::setsockopt(
        None,
        fd,
        libc::SOL_SOCKET,
        libc::SO_RCVTIMEO,
        std::ptr::from_ref(&tv).cast(),
        libc::socklen_t::try_from(size_of::<libc::timeval>()).unwrap(),
    );
    // whatever the kernel answers, the process must survive and the limit must be usable
    println!("setsockopt returned {r}");
    _ = open_coroutine_core::syscall::recv_time_limit(fd);
}
