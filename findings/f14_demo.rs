// F14: setting SO_RCVTIMEO twice aborts the process; a reused descriptor number inherits the old limit.
fn set_rcvtimeo(fd: i32, ms: i64) -> i32 {
    let tv = libc::timeval {
        tv_sec: ms / 1000,
        tv_usec: (ms % 1000) * 1000,
    };
    open_coroutine_core::syscall::setsockopt(
        None,
        fd,
        libc::SOL_SOCKET,
        libc::SO_RCVTIMEO,
        std::ptr::from_ref(&tv).cast(),
        libc::socklen_t::try_from(size_of::<libc::timeval>()).unwrap(),
    )
}

#[test]
fn timeout_can_be_set_twice_and_is_forgotten_on_close() {
    open_coroutine_core::net::EventLoops::init(&open_coroutine_core::config::Config::single());
    let fd = unsafe { libc::socket(libc::AF_INET, libc::SOCK_DGRAM, 0) };
    assert!(fd >= 0);
    assert_eq!(0, set_rcvtimeo(fd, 100));
    // second set used to hit assert!(insert(..).is_none()) in an extern "C" frame -> abort
    assert_eq!(0, set_rcvtimeo(fd, 200));
    assert_eq!(200_000_000, open_coroutine_core::syscall::recv_time_limit(fd));
    assert_eq!(0, open_coroutine_core::syscall::close(None, fd));
    let fd2 = unsafe { libc::socket(libc::AF_INET, libc::SOCK_DGRAM, 0) };
    assert_eq!(fd, fd2, "descriptor number was not reused, demo is inconclusive");
    // a fresh socket has no receive timeout: zero means unlimited
    assert_eq!(u64::MAX, open_coroutine_core::syscall::recv_time_limit(fd2));
}
