use open_coroutine_core::co;
use open_coroutine_core::common::constants::{CoroutineState, SyscallName, SyscallState};
use open_coroutine_core::coroutine::suspender::Suspender;
use open_coroutine_core::coroutine::Coroutine;

// F5: a delay requested by a yield made while in Syscall state is not consumed and leaks to the
// next coroutine that yields on the same thread.
#[test]
fn delay_request_in_syscall_does_not_leak() -> std::io::Result<()> {
    let mut a = co!(|s: &Suspender<'_, (), ()>, ()| {
        let current = Coroutine::<(), (), ()>::current().unwrap();
        current
            .syscall((), SyscallName::sleep, SyscallState::Executing)
            .unwrap();
        // what EventLoop::wait_just does for a hooked sleep
        s.until(u64::MAX - 1);
    })?;
    assert!(matches!(a.resume()?, CoroutineState::Syscall(..)));
    let mut b = co!(|s: &Suspender<'_, (), ()>, ()| {
        s.suspend();
    })?;
    // a plain suspend must be reported with timestamp 0
    assert_eq!(CoroutineState::Suspend((), 0), b.resume()?);
    Ok(())
}
