// F9: NioSelectSyscall::select computes its timeout in microseconds but waits in milliseconds.
#[test]
fn select_honours_a_short_timeout() {
    open_coroutine_core::net::EventLoops::init(&open_coroutine_core::config::Config::single());
    let (tx, rx) = std::sync::mpsc::channel();
    _ = std::thread::spawn(move || {
        let mut tv = libc::timeval {
            tv_sec: 0,
            tv_usec: 50_000,
        };
        let start = std::time::Instant::now();
        let r = open_coroutine_core::syscall::select(
            None,
            0,
            std::ptr::null_mut(),
            std::ptr::null_mut(),
            std::ptr::null_mut(),
            &raw mut tv,
        );
        tx.send((r, start.elapsed())).unwrap();
    });
    let (r, cost) = rx
        .recv_timeout(std::time::Duration::from_secs(3))
        .expect("select(50ms) did not return within 3s");
    assert_eq!(0, r);
    assert!(cost >= std::time::Duration::from_millis(50), "{cost:?}");
}

#[test]
fn select_rejects_negative_timeout() {
    let mut tv = libc::timeval {
        tv_sec: -1,
        tv_usec: 0,
    };
    let r = open_coroutine_core::syscall::select(
        None,
        0,
        std::ptr::null_mut(),
        std::ptr::null_mut(),
        std::ptr::null_mut(),
        &raw mut tv,
    );
    assert_eq!(-1, r);
    assert_eq!(
        Some(libc::EINVAL),
        std::io::Error::last_os_error().raw_os_error()
    );
}
