use open_coroutine_core::co;
use open_coroutine_core::common::constants::CoroutineState;
use open_coroutine_core::coroutine::Coroutine;

// F27: when resume_with refuses to run a coroutine (its state does not allow Running) the coroutine is
// left registered as the thread's current coroutine, so plain thread code reaches its local storage.
#[test]
fn refused_resume_does_not_stay_current() -> std::io::Result<()> {
    let mut coroutine = co!(|s, ()| {
        s.delay(std::time::Duration::MAX);
    })?;
    assert_eq!(CoroutineState::Suspend((), u64::MAX), coroutine.resume()?);
    _ = coroutine.put("secret", 42i32);
    // not due yet: the resume is refused
    assert!(coroutine.resume().is_err());
    assert!(
        Coroutine::<(), (), ()>::current().is_none(),
        "a coroutine whose resume was refused is still the thread's current coroutine"
    );
    Ok(())
}
