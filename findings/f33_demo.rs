//! F33 (C23): maybe_grow_with(red_zone, stack_size, f) with red_zone > stack_size.
//! The documentation promises "The closure `f` is guaranteed to run on a stack with at least `red_zone` bytes"; before
//! the repair the fresh segment had `stack_size` bytes, so the callback ran with less room than the red zone asked for.
use open_coroutine_core::common::constants::CoroutineState;
use open_coroutine_core::coroutine::Coroutine;

const RED_ZONE: usize = 512 * 1024;
const STACK_SIZE: usize = 64 * 1024;

#[test]
fn the_callback_has_the_red_zone_it_asked_for() {
    std::thread::spawn(|| {
        let mut co: Coroutine<(), (), usize> = Coroutine::new(
            Some(String::from("grower")),
            |_, ()| {
                // the coroutine's own stack (128 KiB by default) is smaller than the red zone: a fresh segment is needed
                Coroutine::<(), (), usize>::maybe_grow_with(RED_ZONE, STACK_SIZE, || unsafe {
                    Coroutine::<(), (), usize>::current().unwrap().remaining_stack()
                })
                .unwrap()
            },
            None,
            None,
        )
        .unwrap();
        match co.resume().unwrap() {
            CoroutineState::Complete(room) => assert!(
                room + 4096 >= RED_ZONE,
                "the callback ran with {room} bytes of stack although a red zone of {RED_ZONE} bytes was requested"
            ),
            other => panic!("unexpected {other:?}"),
        }
    })
    .join()
    .expect("scenario failed");
}
