// F8a: the waiter of a task cancelled before it starts is never settled.
#[test]
fn waiter_of_cancelled_task_is_settled() -> std::io::Result<()> {
    let mut pool = open_coroutine_core::co_pool::CoroutinePool::default();
    pool.set_max_size(1);
    let task_id = pool.submit_task(None, |_| Some(1), None, None)?;
    open_coroutine_core::co_pool::CoroutinePool::try_cancel_task(task_id);
    pool.try_schedule_task()?;
    assert!(pool.is_empty());
    // the task will never run; the waiter must get an answer instead of waiting out its deadline
    let r = pool.wait_task_result(task_id, std::time::Duration::from_millis(300));
    assert!(
        matches!(r, Ok(Err(_))),
        "waiter was left blocked until its timeout: {r:?}"
    );
    Ok(())
}
