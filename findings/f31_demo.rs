//! F31 (C24, C08): a coroutine that ends by a memory fault (or a panic) stays the thread's current suspender.
//! Before the repair `Suspender::current()` keeps returning the suspender of the dead coroutine: outside any coroutine it
//! is `Some(<dangling>)`, and inside the coroutine that ran the dead one as a helper it is not that coroutine's own
//! suspender -- every hooked call there would yield through a destroyed context.
//! Copy to core/tests/ and run `cargo test -p open-coroutine-core --test f31_demo -- --test-threads 1`.
use open_coroutine_core::common::constants::CoroutineState;
use open_coroutine_core::coroutine::suspender::Suspender;
use open_coroutine_core::coroutine::Coroutine;

fn on_fresh_thread(f: impl FnOnce() + Send + 'static) {
    std::thread::spawn(f).join().expect("the scenario panicked");
}

#[test]
fn after_a_fault_no_suspender_is_current() {
    on_fresh_thread(|| {
        let mut co: Coroutine<(), (), ()> = Coroutine::new(
            Some(String::from("faulting")),
            |_, ()| unsafe { std::ptr::write_volatile(1 as *mut u8, 0) },
            None,
            None,
        )
        .unwrap();
        assert_eq!(CoroutineState::Error("invalid memory reference"), co.resume().unwrap());
        assert!(
            Suspender::<(), ()>::current().is_none(),
            "outside any coroutine the thread still has a current suspender: the one of the coroutine that faulted"
        );
    });
}

#[test]
fn after_a_panic_no_suspender_is_current() {
    on_fresh_thread(|| {
        let mut co: Coroutine<(), (), ()> =
            Coroutine::new(Some(String::from("panicking")), |_, ()| panic!("boom"), None, None).unwrap();
        assert_eq!(CoroutineState::Error("boom"), co.resume().unwrap());
        assert!(
            Suspender::<(), ()>::current().is_none(),
            "outside any coroutine the thread still has a current suspender: the one of the coroutine that panicked"
        );
    });
}

#[test]
fn a_healthy_coroutine_keeps_its_own_suspender_after_a_helper_faulted() {
    on_fresh_thread(|| {
        let mut outer: Coroutine<(), (), bool> = Coroutine::new(
            Some(String::from("outer")),
            |suspender, ()| {
                let mut helper: Coroutine<(), (), ()> = Coroutine::new(
                    Some(String::from("helper")),
                    |_, ()| unsafe { std::ptr::write_volatile(1 as *mut u8, 0) },
                    None,
                    None,
                )
                .unwrap();
                assert_eq!(CoroutineState::Error("invalid memory reference"), helper.resume().unwrap());
                drop(helper);
                // what every hooked call in this coroutine would now yield through
                Suspender::<(), ()>::current().is_some_and(|current| std::ptr::eq(current, suspender))
            },
            None,
            None,
        )
        .unwrap();
        assert_eq!(
            CoroutineState::Complete(true),
            outer.resume().unwrap(),
            "after its helper faulted, the healthy coroutine's current suspender is the dead helper's"
        );
    });
}
